------------------------------ MODULE WalTrace ------------------------------
(***************************************************************************)
(* Trace validation for C10 (impl -> spec).  The harness (c10.rs) runs     *)
(* generated submit/stage/tick workloads on a real TrustedRuntimeHost with *)
(* a filesystem WAL and logs                                               *)
(*   reset    a run starts (level 1: fresh directory; level 2: the         *)
(*            continuation of a recovered directory)                       *)
(*   rec      a disk record found in the segment (frame/commit, tx, idx,   *)
(*            LSNs, epoch, byte extent), in file order                     *)
(*   ledger   a new writer-epoch ledger version on disk, with the number   *)
(*            of commits present when it was first seen                    *)
(*   call     a host call returned: submit -> acked/dup, stage, tick;      *)
(*            with the segment length and the view fingerprint             *)
(*   probe    ONE CRASH STATE: the segment cut to b bytes + one ledger     *)
(*            version, opened by a fresh host; what that host showed       *)
(*   fault    a store fault injected before one host call                  *)
(* The spec rebuilds `seg` from the rec events with the constructors of    *)
(* Wal.tla and evaluates, per probe, the oracle with Wal.tla's operators:  *)
(* PrefixBytes, Durable (declarative committed prefix), Scan (transcribed  *)
(* recovery), Rebuild.  Every probe/fault event is judged; failures are    *)
(* printed as <<"BAD", line, reasons>> and counted.                        *)
(***************************************************************************)
EXTENDS Wal, Json, IOUtils

Rec == ndJsonDeserialize(IOEnv.TRACE)

VARIABLES l,        \* next trace line
          ackLen,   \* submission -> segment length when its acknowledgement was returned
          pubLen,   \* submission -> segment length when its outcome was published
          fps,      \* number of commits -> view fingerprint of the uninterrupted host
          ledK,     \* ledger version -> number of commits on disk when it was first seen
          k0, len0, subs0, dec0,   \* what the run started with (level 2: the recovered state)
          kcur,     \* commits so far
          memo,     \* <<whole records surviving, torn?>> -> oracle evaluation for that prefix (pure cache)
          bad       \* number of rejected probe/fault events
tvars == <<l, ackLen, pubLen, fps, ledK, k0, len0, subs0, dec0, kcur, memo, bad>>
allvars == <<vars, tvars>>

SeqSet(s) == {s[i] : i \in 1..Len(s)}
Upd(f, k, v) == [x \in (DOMAIN f) \cup {k} |-> IF x = k THEN v ELSE f[x]]
Empty == [x \in {} |-> 0]

IsEvent(e) == l <= Len(Rec) /\ Rec[l].event = e /\ l' = l + 1

WalUnchanged == UNCHANGED <<synced, ledger, mem, snap, pc, cur, wr, ep, rwq, ackedEver, pubEver, cycles, nextLsn, lastF, lastC>>

TInit ==
  /\ Init
  /\ l = 1 /\ ackLen = Empty /\ pubLen = Empty /\ fps = Empty /\ ledK = Empty
  /\ k0 = 0 /\ len0 = 0 /\ subs0 = {} /\ dec0 = {} /\ kcur = 0 /\ bad = 0 /\ memo = Empty

\* ---- a run starts -----------------------------------------------------------
TReset ==
  /\ IsEvent("reset")
  /\ seg' = <<>> /\ txs' = <<>>
  /\ k0' = Rec[l].k0 /\ len0' = Rec[l].len0 /\ kcur' = Rec[l].k0
  /\ subs0' = SeqSet(Rec[l].subs0) /\ dec0' = SeqSet(Rec[l].dec0)
  /\ ackLen' = [s \in SeqSet(Rec[l].subs0) |-> 0]
  /\ pubLen' = [s \in SeqSet(Rec[l].dec0) |-> 0]
  /\ fps' = (Rec[l].k0 :> Rec[l].fp0)
  /\ ledK' = Empty /\ memo' = Empty
  /\ UNCHANGED bad /\ WalUnchanged

\* ---- one disk record (AppendFrame / AppendCommitAndSync of Wal.tla) ------------------
FramesOf(s, t) == Len(SelectSeq(s, LAMBDA r : r.kind = "frame" /\ r.tx = t))
\* writer discipline: frames of a transaction carry consecutive local indices; a commit marker
\* follows all frames of its transaction and records their number
RecOk(r) ==
  IF r.kind = "frame" THEN r.idx = FramesOf(seg, r.tx) + 1
  ELSE r.idx = FramesOf(seg, r.tx) /\ r.idx > 0
TRec ==
  /\ IsEvent("rec")
  /\ LET e == Rec[l]
         r == IF e.kind = "frame"
              THEN Frame("A", e.tx, e.idx, e.lsn, e.ep, <<"gen">>, e.ext)
              ELSE Commit("A", e.tx, e.idx, e.first, e.lsn, e.ep, <<"gen">>, e.ext)
     IN /\ seg' = Append(seg, r)
        /\ txs' = IF e.tx > Len(txs) THEN Append(txs, [kind |-> "unk", subs |-> {}, nf |-> 0]) ELSE txs
        /\ IF RecOk(r) /\ e.tx <= Len(txs) + 1 THEN UNCHANGED bad
           ELSE PrintT(<<"BAD", l, {"writer_discipline"}>>) /\ bad' = bad + 1
        /\ kcur' = IF e.kind = "commit" /\ Bytes(seg') > len0 THEN kcur + 1 ELSE kcur
  /\ UNCHANGED <<ackLen, pubLen, fps, ledK, k0, len0, subs0, dec0, memo>> /\ WalUnchanged

TOpened == IsEvent("opened") /\ UNCHANGED <<seg, txs, ackLen, pubLen, fps, ledK, k0, len0, subs0, dec0, kcur, memo, bad>> /\ WalUnchanged

TLedger ==
  /\ IsEvent("ledger")
  /\ ledK' = Upd(ledK, Rec[l].ver, Rec[l].k)
  /\ UNCHANGED <<seg, txs, ackLen, pubLen, fps, k0, len0, subs0, dec0, kcur, memo, bad>> /\ WalUnchanged

\* ---- a host call returned ----------------------------------------------------------
LastCommitTx == LET cm == SelectSeq(seg, LAMBDA r : r.kind = "commit") IN cm[Len(cm)].tx
\* Ack / Publish of Wal.tla: enabled only when the transaction carrying the submission / the
\* outcome is a commit record inside the segment at the moment the call returns.
TCall ==
  /\ IsEvent("call")
  /\ LET e == Rec[l]
         committed == e.k = kcur /\ Bytes(seg) = e.len
         newTx == e.res \in {"acked", "ticked"} /\ ~(e.res = "ticked" /\ e.steps = 0)
         newSubs == IF e.res = "acked" THEN {e.sub} ELSE IF newTx THEN SeqSet(e.vdec) \ (DOMAIN pubLen) ELSE {}
         okAck == CASE e.res = "acked"  -> committed /\ e.sub \notin DOMAIN ackLen /\ e.k > k0 /\ e.fp # ""
                    [] e.res = "dup"    -> committed /\ e.sub \in DOMAIN ackLen
                    [] e.res = "staged" -> committed
                    [] e.res = "ticked" -> committed /\ (e.steps = 0 \/ (e.fp # "" /\ newSubs # {} /\ newSubs \subseteq DOMAIN ackLen))
                    [] OTHER -> FALSE
     IN /\ IF okAck THEN UNCHANGED bad ELSE PrintT(<<"BAD", l, {"call_" \o e.res}>>) /\ bad' = bad + 1
        /\ ackLen' = IF e.res = "acked" THEN Upd(ackLen, e.sub, e.len) ELSE ackLen
        /\ pubLen' = IF e.res = "ticked" /\ e.steps > 0
                     THEN [s \in (DOMAIN pubLen) \cup newSubs |-> IF s \in DOMAIN pubLen THEN pubLen[s] ELSE e.len]
                     ELSE pubLen
        /\ fps' = IF e.fp # "" THEN Upd(fps, e.k, e.fp) ELSE fps
        /\ txs' = IF newTx /\ Len(seg) > 0 /\ e.fp # ""
                  THEN [txs EXCEPT ![LastCommitTx] = [kind |-> IF e.res = "acked" THEN "sub" ELSE "tick", subs |-> newSubs, nf |-> 0]]
                  ELSE txs
  /\ UNCHANGED <<seg, ledK, k0, len0, subs0, dec0, kcur, memo>> /\ WalUnchanged

\* ---- one crash state --------------------------------------------------------------
RECURSIVE CommitEnd(_, _, _, _)
\* byte offset at which the n-th commit marker of this run's segment ends (0 for n = 0)
CommitEnd(s, n, i, off) ==
  IF n = 0 THEN 0
  ELSE IF i > Len(s) THEN 2147483647
  ELSE IF s[i].kind = "commit" THEN (IF n = 1 THEN off + s[i].ext ELSE CommitEnd(s, n - 1, i + 1, off + s[i].ext))
  ELSE CommitEnd(s, n, i + 1, off + s[i].ext)
\* Crash of Wal.tla keeps "any ledger version that can coexist": the version written after commit
\* kv is on disk from the sync of commit kv until the version for commit kv+1 replaces it, which
\* happens after commit kv+1 is synced and before any further append.
Coexists(ver, b) ==
  IF ver = 0 THEN b = 0
  ELSE /\ (ver - 1) \in DOMAIN ledK
       /\ LET kv == ledK[ver - 1]
          IN /\ (kv <= k0 \/ CommitEnd(seg, kv, 1, 0) <= b)
             /\ b <= CommitEnd(seg, kv + 1, 1, 0)

\* The oracle for one surviving prefix depends only on how many whole records survive and on
\* whether a torn record follows; it is evaluated once per such prefix and cached.
RECURSIVE WholeWithin(_, _, _, _)
WholeWithin(s, b, i, off) ==
  IF i > Len(s) \/ off + s[i].ext > b THEN <<i - 1, (i <= Len(s) /\ off < b)>>
  ELSE WholeWithin(s, b, i + 1, off + s[i].ext)
Evaluate(b) ==
  LET pfx == PrefixBytes(seg, b)
      h == Durable(pfx)                      \* declarative oracle: committed prefix of surviving bytes
      sc == Scan(pfx, "fs")                  \* transcribed recovery on the same bytes
      scb == Scan(pfx, "bytes")
      want == Rebuild(h)
  IN [n |-> Len(h), subs |-> want.subs, dec |-> want.dec,
      scanOk |-> (sc.ok /\ sc.h = h /\ scb.ok /\ scb.h = h)]

TProbe ==
  /\ IsEvent("probe")
  /\ LET e == Rec[l]
         key == WholeWithin(seg, e.b, 1, 0)
         ev == IF key \in DOMAIN memo THEN memo[key] ELSE Evaluate(e.b)
         hn == ev.n
         wantSubs == subs0 \cup ev.subs
         wantDec == dec0 \cup ev.dec
         obsSubs == SeqSet(e.subs)
         obsDec == SeqSet(e.dec)
         reasons ==
              (IF e.b >= len0 /\ e.b <= Bytes(seg) /\ Coexists(e.lv, e.b) THEN {} ELSE {"harness_impossible_crash_state"})
         \cup (IF ev.scanOk THEN {} ELSE {"model_scan_differs_from_oracle"})
         \cup (IF e.opened THEN {} ELSE {"reopen_failed"})
         \cup (IF ~e.opened \/ (e.k = hn /\ e.ro_k = hn) THEN {} ELSE {"recovered_not_longest_committed_prefix"})
         \cup (IF ~e.opened \/ (obsSubs = wantSubs /\ obsDec = wantDec) THEN {} ELSE {"recovered_content_differs"})
         \cup (IF ~e.opened \/ (hn \in DOMAIN fps /\ e.fp = fps[hn]) THEN {} ELSE {"recovered_view_differs_from_original_at_that_commit"})
         \cup (IF ~e.opened \/ \A s \in DOMAIN ackLen : ackLen[s] <= e.b => s \in obsSubs THEN {} ELSE {"acked_lost"})
         \cup (IF ~e.opened \/ \A s \in DOMAIN pubLen : pubLen[s] <= e.b => s \in obsDec THEN {} ELSE {"published_lost"})
         \cup (IF ~e.opened \/ obsSubs \subseteq wantSubs THEN {} ELSE {"uncommitted_visible"})
         \cup (IF ~e.opened \/ e.idem THEN {} ELSE {"recovery_not_idempotent"})
         \cup (IF ~e.opened \/ e.cb THEN {} ELSE {"recovery_ran_application_callback"})
         \cup (IF e.ro_pure THEN {} ELSE {"read_only_recovery_mutated_files"})
         \cup (IF ~e.opened \/ e.reopen_same THEN {} ELSE {"second_recovery_differs"})
         \cup (IF ~e.opened \/ ~e.reopen_same \/ e.dup THEN {} ELSE {"retry_not_duplicate"})
         \cup (IF ~e.opened \/ ~e.reopen_same \/ ~e.dup \/ e.cont THEN {} ELSE {"continued_run_differs"})
     IN /\ memo' = IF key \in DOMAIN memo THEN memo ELSE Upd(memo, key, ev)
        /\ IF reasons = {} THEN UNCHANGED bad
           ELSE PrintT(<<"BAD", l, reasons>>) /\ bad' = bad + 1
  /\ UNCHANGED <<seg, txs, ackLen, pubLen, fps, ledK, k0, len0, subs0, dec0, kcur>> /\ WalUnchanged

\* ---- store fault (StoreFault of Wal.tla) ----------------------------------------------
\* error returned  => memory rolled back, no new commit, a crash now recovers the state before;
\* Ok returned     => the transaction is durable: a crash now recovers the state the host shows;
\* a fault aimed at a call that writes nothing changes nothing; the retried run ends like the
\* uninterrupted one.
TFault ==
  /\ IsEvent("fault")
  /\ LET e == Rec[l]
         reasons ==
              (IF e.writes \/ (e.res # "err" /\ e.k_after = e.k_before) THEN {} ELSE {"fault_on_non_writing_call"})
         \cup (IF ~e.writes \/ e.res = "err" \/ e.target = "commit_marker_synced" THEN {} ELSE {"fault_not_reported"})
         \cup (IF e.res # "err" \/ (e.k_after = e.k_before /\ e.mem_same) THEN {} ELSE {"fault_left_partial_state"})
         \cup (IF e.res # "err" \/ (e.crash_k = e.k_before /\ e.crash_fp = e.fp_before) THEN {} ELSE {"fault_undurable_visible_after_crash"})
         \cup (IF e.res = "err" \/ (e.crash_k = e.k_after /\ e.crash_fp = e.fp_after) THEN {} ELSE {"fault_acked_not_durable"})
         \cup (IF e.res # "err" \/ e.retry \in {"acked", "ticked", "staged", "dup"} THEN {} ELSE {"retry_after_fault_failed"})
         \cup (IF e.final_same THEN {} ELSE {"run_after_fault_differs"})
     IN IF reasons = {} THEN UNCHANGED bad ELSE PrintT(<<"BAD", l, reasons>>) /\ bad' = bad + 1
  /\ UNCHANGED <<seg, txs, ackLen, pubLen, fps, ledK, k0, len0, subs0, dec0, kcur, memo>> /\ WalUnchanged

TManifestFault ==
  /\ IsEvent("manifest_fault")
  /\ LET e == Rec[l] IN
       IF e.res = "err" /\ ~e.manifest_written /\ e.history_same THEN UNCHANGED bad
       ELSE PrintT(<<"BAD", l, {"manifest_fault"}>>) /\ bad' = bad + 1
  /\ UNCHANGED <<seg, txs, ackLen, pubLen, fps, ledK, k0, len0, subs0, dec0, kcur, memo>> /\ WalUnchanged

TNext == TReset \/ TRec \/ TOpened \/ TLedger \/ TCall \/ TProbe \/ TFault \/ TManifestFault
TSpec == TInit /\ [][TNext]_allvars

Accepted ==
  LET d == TLCGet("stats").diameter
  IN IF d - 1 = Len(Rec) THEN TRUE
     ELSE Print(<<"REJECTED_AT", d, IF d <= Len(Rec) THEN Rec[d].event ELSE "eof">>, FALSE)
=============================================================================
