SPECIFICATION MCSpec
CONSTANTS
  Reqs = {"r1", "r2"}
  None = None
  RecordVs = {"ok"}
  ClaimVs = {"ok"}
  SettleVs = {"s1"}
  RetryVs = {"s1"}
  Fates = {"ok"}
  KeepHist = TRUE
  FrameLen = 4
  MarkLen = 4
  MutTornMarker = FALSE
  AsBuiltBareRecover = FALSE
  MutRepairDeep = FALSE
  MaxPre = 4
  MaxMid = 0
  MaxNoops = 0
  PostOps = 2
  PostNoops = 1
  MaxCrashes = 1
  Export = TRUE
INVARIANTS
  Inv_LifecyclePrefix Inv_LiveShape Inv_OneGrant Inv_SettlementExact Inv_DurableBeforeReturn
  Inv_RecoveryNeverObstructed Inv_RecoveredEqLive Inv_IncrementalRoot
  Inv_IssuedSurvive Inv_RetryFromRetained Inv_NoStepRepeated Inv_LsnContiguous Inv_TailShape
  Inv_FsDurableBeforeReturn Inv_FsCommittedPrefix Inv_FsNoHalfApplied Inv_FsIdempotent Inv_FsBareRefusesTail Inv_FsShape
  Inv_Export
CHECK_DEADLOCK FALSE
