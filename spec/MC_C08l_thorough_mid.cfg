SPECIFICATION MC_Spec
CONSTANTS
  Intents = {}
  IdRank <- MC_IdRank
  Handlers <- MC_Handlers
  HandlerRank <- MC_HandlerRank
  HMatches <- MC_HMatches
  DispatchPolicy = "min_id"
  None = None
  IntentSet = {"AB1", "E"}
  EventSet = {"E"}
  SeqNos = {1, 2}
  Mode = "beh"
  MidTx = TRUE
  UseDrainAll = TRUE
  MaxRetry = 1
  MaxTx = 2
  MaxAbort = 1
  MaxDrainAll = 1
  Export = TRUE
INVARIANTS GraphWellFormed PendingIsSet LedgerPartition AtMostOnce ConsumedInCanonicalOrder HandledExactlyOnce LogSound LegacyIngressBlocksFresh TicksSound DrainIsFunctionOfSet Inv_Export
PROPERTIES RetryChangesNothing IngestLaw DispatchPicksMin OnlyCommitConsumes
CHECK_DEADLOCK FALSE
