//! C06: the state root commits to exactly the reachable state.
//!
//! Input: one model state per line, with Canon(s, root) for each candidate root.
//! For each state the harness builds the real store in several construction orders
//! (given / reversed / rotated element order, op-by-op through apply_to_state, and
//! with churn: extra elements inserted and removed again), and reports the store-walking
//! state root, the accumulator state root and the per-store WSC bytes. Order dependence,
//! accumulator disagreement and WSC round-trip failures are decided here; the runner
//! decides  root equal <=> Canon equal  across states.

use serde::Deserialize;
use serde_json::{json, Value};
use warp_core::wsc::{build_one_warp_input, validate_wsc, write_wsc_one_warp, WscFile};
use warp_core::{
    AttachmentKey, EdgeKey, EdgeRecord, NodeKey, NodeRecord, TickCommitStatus, WarpInstance, WarpOp,
    WarpState, WarpTickPatchV1,
};

use crate::absgraph::{self, AttJ, EdgeJ, NodeJ, StateJ};
use crate::ids::{self, Inverse};
use crate::util;

#[derive(Deserialize)]
struct RootJ {
    w: String,
    n: String,
}
#[derive(Deserialize)]
struct CanonJ {
    root: RootJ,
}
#[derive(Deserialize)]
struct Case {
    s: StateJ,
    canons: Vec<CanonJ>,
}

fn permute(s: &StateJ, variant: usize) -> StateJ {
    let mut t = s.clone();
    match variant {
        0 => {}
        1 => {
            t.inst.reverse();
            t.node.reverse();
            t.edge.reverse();
        }
        _ => {
            if !t.node.is_empty() {
                t.node.rotate_left(1);
            }
            if !t.edge.is_empty() {
                t.edge.rotate_left(1);
            }
            if !t.inst.is_empty() {
                t.inst.rotate_left(1);
            }
        }
    }
    t
}

/// Builds the state op by op through the real patch-application routine (one op per
/// patch so that no canonical re-ordering happens), parents before portals' children.
fn build_via_ops(s: &StateJ) -> Result<WarpState, String> {
    let mut state = WarpState::new();
    let apply = |state: &mut WarpState, op: WarpOp| -> Result<(), String> {
        warp_core::verif::apply_ops(state, &[op]).map_err(|e| format!("{e:?}"))
    };
    // instances without a parent first (plain upsert), then everything else in waves
    let mut pending: Vec<&absgraph::InstJ> = s.inst.iter().collect();
    let mut done: Vec<String> = Vec::new();
    let mut guard = 0;
    while !pending.is_empty() {
        guard += 1;
        if guard > 8 {
            return Err("instance construction did not converge".into());
        }
        let mut rest = Vec::new();
        for inst in pending {
            let ready = inst.parent.o == "none" || done.contains(&inst.parent.w);
            if !ready {
                rest.push(inst);
                continue;
            }
            // create the instance shell; the parent attachment is set when the owner's content is built
            let wi = WarpInstance {
                warp_id: ids::warp(&inst.w),
                root_node: ids::node(&inst.root),
                parent: absgraph::key_to_real(&inst.parent),
            };
            // UpsertWarpInstance alone would trip the portal validation for parented instances,
            // so parented instances are installed together with their content below.
            let mut ops: Vec<WarpOp> = vec![WarpOp::UpsertWarpInstance { instance: wi }];
            for n in s.node.iter().filter(|n| n.w == inst.w) {
                ops.push(WarpOp::UpsertNode { node: absgraph::nkey(&n.w, &n.n), record: NodeRecord { ty: ids::ty(&n.ty) } });
            }
            for e in s.edge.iter().filter(|e| e.w == inst.w) {
                ops.push(WarpOp::UpsertEdge {
                    warp_id: ids::warp(&e.w),
                    record: EdgeRecord { id: ids::edge(&e.e), from: ids::node(&e.from), to: ids::node(&e.to), ty: ids::ty(&e.ty) },
                });
            }
            for n in s.node.iter().filter(|n| n.w == inst.w && n.att.k == "atom") {
                ops.push(WarpOp::SetAttachment { key: AttachmentKey::node_alpha(absgraph::nkey(&n.w, &n.n)), value: absgraph::att_to_real(&n.att) });
            }
            for e in s.edge.iter().filter(|e| e.w == inst.w && e.att.k == "atom") {
                ops.push(WarpOp::SetAttachment { key: AttachmentKey::edge_beta(absgraph::ekey(&e.w, &e.e)), value: absgraph::att_to_real(&e.att) });
            }
            if let Some(pk) = absgraph::key_to_real(&inst.parent) {
                ops.push(WarpOp::SetAttachment { key: pk, value: Some(warp_core::AttachmentValue::Descend(ids::warp(&inst.w))) });
            }
            // one batch per instance, applied in the given order (no canonical sort)
            warp_core::verif::apply_ops(&mut state, &ops).map_err(|e| format!("{e:?}"))?;
            let _ = &apply;
            done.push(inst.w.clone());
        }
        pending = rest;
    }
    Ok(state)
}

/// Adds and removes extra content (node n3, edge e2 in every instance) through ops so the
/// storage has been through allocations the final state does not show.
fn churn(state: &mut WarpState, s: &StateJ) -> Result<(), String> {
    for inst in &s.inst {
        let w = ids::warp(&inst.w);
        let n3 = NodeKey { warp_id: w, local_id: ids::node("n3") };
        let root = ids::node(&inst.root);
        let e2 = ids::edge("e2");
        let ops = vec![
            WarpOp::UpsertNode { node: n3, record: NodeRecord { ty: ids::ty("tB") } },
            WarpOp::UpsertEdge { warp_id: w, record: EdgeRecord { id: e2, from: n3.local_id, to: root, ty: ids::ty("tB") } },
            WarpOp::SetAttachment { key: AttachmentKey::edge_beta(EdgeKey { warp_id: w, local_id: e2 }), value: Some(warp_core::AttachmentValue::Atom(ids::atom("p2"))) },
            WarpOp::SetAttachment { key: AttachmentKey::node_alpha(n3), value: Some(warp_core::AttachmentValue::Atom(ids::atom("p1"))) },
            WarpOp::DeleteEdge { warp_id: w, from: n3.local_id, edge_id: e2 },
            WarpOp::DeleteNode { node: n3 },
        ];
        // only when the root node exists (edge target must exist for a well-formed interim state)
        if s.node.iter().any(|n| n.w == inst.w && n.n == inst.root) {
            warp_core::verif::apply_ops(state, &ops).map_err(|e| format!("churn: {e:?}"))?;
        }
    }
    Ok(())
}

fn wsc_roundtrip(inv: &Inverse, state: &WarpState, s: &StateJ) -> Result<Vec<String>, String> {
    let mut all = Vec::new();
    for inst in &s.inst {
        let wid = ids::warp(&inst.w);
        let store = state.store(&wid).ok_or("store missing")?;
        let root = ids::node(&inst.root);
        if store.node(&root).is_none() {
            all.push("skip:no-root-node".to_string());
            continue;
        }
        let input = build_one_warp_input(store, root);
        let bytes = write_wsc_one_warp(&input, [7u8; 32], 3).map_err(|e| format!("write: {e}"))?;
        let file = WscFile::from_bytes(bytes.clone()).map_err(|e| format!("from_bytes: {e:?}"))?;
        validate_wsc(&file).map_err(|e| format!("validate_wsc rejected a freshly written snapshot: {e:?}"))?;
        if file.warp_count() != 1 || file.tick() != 3 {
            return Err("header fields differ".into());
        }
        let view = file.warp_view(0).map_err(|e| format!("warp_view: {e:?}"))?;
        if view.warp_id() != &wid.0 || view.root_node_id() != &root.0 {
            return Err("warp id / root differ after read back".into());
        }
        // project the view back to the model vocabulary
        let att_of = |rows: &[warp_core::wsc::types::AttRow]| -> Result<AttJ, String> {
            match rows {
                [] => Ok(AttJ { k: "none".into(), ..Default::default() }),
                [row] => {
                    if row.is_atom() {
                        let blob = view.blob_for_attachment(row).ok_or("blob missing")?;
                        let payload = warp_core::AtomPayload::new(warp_core::TypeId(row.type_or_warp), bytes::Bytes::from(blob.to_vec()));
                        Ok(AttJ { k: "atom".into(), p: inv.atom(&payload)?.into(), ..Default::default() })
                    } else if row.is_descend() {
                        Ok(AttJ { k: "desc".into(), w: inv.warp(&warp_core::WarpId(row.type_or_warp))?.into(), ..Default::default() })
                    } else {
                        Err(format!("unknown attachment tag {}", row.tag))
                    }
                }
                _ => Err("more than one attachment row".into()),
            }
        };
        let mut nodes: Vec<NodeJ> = Vec::new();
        for (ix, row) in view.nodes().iter().enumerate() {
            nodes.push(NodeJ {
                w: inst.w.clone(),
                n: inv.node(&warp_core::NodeId(row.node_id))?.into(),
                ty: inv.ty(&warp_core::TypeId(row.node_type))?.into(),
                att: att_of(view.node_attachments(ix))?,
            });
        }
        let mut edges: Vec<EdgeJ> = Vec::new();
        for (ix, row) in view.edges().iter().enumerate() {
            edges.push(EdgeJ {
                w: inst.w.clone(),
                e: inv.edge(&warp_core::EdgeId(row.edge_id))?.into(),
                from: inv.node(&warp_core::NodeId(row.from_node_id))?.into(),
                to: inv.node(&warp_core::NodeId(row.to_node_id))?.into(),
                ty: inv.ty(&warp_core::TypeId(row.edge_type))?.into(),
                att: att_of(view.edge_attachments(ix))?,
            });
        }
        // out-edge index must list exactly each node's outgoing edges
        for (ix, row) in view.nodes().iter().enumerate() {
            let mut listed: Vec<[u8; 32]> = view.out_edges_for_node(ix).iter().map(|r| r.edge_id).collect();
            listed.sort();
            let mut want: Vec<[u8; 32]> = view.edges().iter().filter(|e| e.from_node_id == row.node_id).map(|e| e.edge_id).collect();
            want.sort();
            if listed != want {
                return Err("out-edge index differs from edge table".into());
            }
        }
        nodes.sort();
        edges.sort();
        let mut want_nodes: Vec<NodeJ> = s.node.iter().filter(|n| n.w == inst.w).cloned().collect();
        let mut want_edges: Vec<EdgeJ> = s.edge.iter().filter(|e| e.w == inst.w).cloned().collect();
        want_nodes.sort();
        want_edges.sort();
        if nodes != want_nodes || edges != want_edges {
            return Err(format!("WSC read-back denotes another state: nodes={nodes:?} edges={edges:?}"));
        }
        all.push(hex::encode(blake3::hash(&bytes).as_bytes()));
    }
    Ok(all)
}

pub fn check_case(inv: &Inverse, v: &Value) -> Value {
    let case: Case = match serde_json::from_value(v.clone()) {
        Ok(c) => c,
        Err(e) => return json!({"verdict":"tool_error","detail":format!("case parse: {e}")}),
    };
    let want = case.s.clone().normalized();
    let roots: Vec<NodeKey> = case.canons.iter().map(|c| absgraph::nkey(&c.root.w, &c.root.n)).collect();
    let mut variants: Vec<(String, WarpState)> = Vec::new();
    for v in 0..3 {
        variants.push((format!("order{v}"), absgraph::build_state(&permute(&case.s, v))));
    }
    match build_via_ops(&case.s) {
        Ok(st) => variants.push(("via_ops".into(), st)),
        Err(e) => return json!({"verdict":"tool_error","detail":format!("build_via_ops: {e}")}),
    }
    {
        let mut st = absgraph::build_state(&permute(&case.s, 1));
        if let Err(e) = churn(&mut st, &case.s) {
            return json!({"verdict":"tool_error","detail":e});
        }
        variants.push(("churn".into(), st));
    }
    {
        // re-parenting churn: every edge is first created leaving another node of its instance and then
        // upserted to its final source, so the store has been through an edge migration
        let mut st = absgraph::build_state(&StateJ { edge: Vec::new(), ..case.s.clone() });
        let mut ok = true;
        for e in &case.s.edge {
            let other = case.s.node.iter().filter(|n| n.w == e.w && n.n != e.from).map(|n| n.n.clone()).next();
            let w = ids::warp(&e.w);
            let mut ops = Vec::new();
            if let Some(o) = other {
                ops.push(WarpOp::UpsertEdge { warp_id: w, record: EdgeRecord { id: ids::edge(&e.e), from: ids::node(&o), to: ids::node(&e.to), ty: ids::ty(&e.ty) } });
            }
            ops.push(WarpOp::UpsertEdge { warp_id: w, record: EdgeRecord { id: ids::edge(&e.e), from: ids::node(&e.from), to: ids::node(&e.to), ty: ids::ty(&e.ty) } });
            if let Some(v) = absgraph::att_to_real(&e.att) {
                ops.push(WarpOp::SetAttachment { key: AttachmentKey::edge_beta(absgraph::ekey(&e.w, &e.e)), value: Some(v) });
            }
            for op in ops {
                // one op at a time, without the end-of-batch portal validation getting in the way of interim states
                if let Err(err) = warp_core::verif::apply_ops(&mut st, std::slice::from_ref(&op)) {
                    if !matches!(err, warp_core::TickPatchError::PortalInvariantViolation) {
                        ok = false;
                    }
                }
            }
        }
        if ok {
            variants.push(("reparent_churn".into(), st));
        }
    }
    let mut first: Option<(Vec<String>, Vec<String>)> = None;
    for (name, st) in &variants {
        match absgraph::project_state(inv, st) {
            Ok(p) if p == want => {}
            other => return json!({"verdict":"tool_error","detail":format!("variant {name} does not project to the model state: {other:?}")}),
        }
        let mut legacy = Vec::new();
        for r in &roots {
            let l = warp_core::verif::legacy_state_root(st, r);
            let a = match util::catch(|| warp_core::verif::accumulator_state_root(st, r)) {
                Ok(a) => a,
                Err(p) => return json!({"verdict":"violation","kind":"accumulator_panicked","detail":p}),
            };
            if l != a {
                return json!({"verdict":"violation","kind":"accumulator_root_differs",
                    "detail":format!("variant {name}: legacy={} accumulator={}", util::hex32(&l), util::hex32(&a))});
            }
            legacy.push(util::hex32(&l));
        }
        let wsc = match util::catch(|| wsc_roundtrip(inv, st, &want)) {
            Ok(Ok(w)) => w,
            Ok(Err(e)) => return json!({"verdict":"violation","kind":"wsc_roundtrip","detail":format!("variant {name}: {e}")}),
            Err(p) => return json!({"verdict":"violation","kind":"wsc_panicked","detail":p}),
        };
        match &first {
            None => first = Some((legacy, wsc)),
            Some((l0, w0)) => {
                if *l0 != legacy {
                    return json!({"verdict":"violation","kind":"root_depends_on_construction_order",
                        "detail":format!("variant {name}: {legacy:?} vs {l0:?}")});
                }
                if *w0 != wsc {
                    return json!({"verdict":"violation","kind":"wsc_bytes_depend_on_construction_order",
                        "detail":format!("variant {name}")});
                }
            }
        }
    }
    let (roots_hex, _) = first.unwrap_or_default();
    // WorldlineState::state_root for the primary root, when the state qualifies
    json!({"verdict":"ok","roots":roots_hex,"variants":variants.len()})
}

pub fn run(args: &[String]) -> i32 {
    if args.len() < 2 {
        eprintln!("usage: echo-verif c06 <cases.ndjson> <results.ndjson>");
        return 2;
    }
    let inv = Inverse::new();
    let mut out = util::Out::create(&args[1]);
    let (mut n, mut viol, mut tool) = (0u64, 0u64, 0u64);
    for (i, v) in util::read_lines(&args[0]) {
        let mut r = check_case(&inv, &v);
        r["i"] = json!(i);
        n += 1;
        match r["verdict"].as_str() {
            Some("violation") => viol += 1,
            Some("tool_error") => tool += 1,
            _ => {}
        }
        out.line(&r);
    }
    out.finish();
    println!("{}", json!({"cases":n,"violations":viol,"tool_errors":tool}));
    if tool > 0 { 2 } else { 0 }
}
