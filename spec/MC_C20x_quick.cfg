\* C20 export profiles: 2 optional submissions, 2 optional retained materials, 3 profiles, at most 1 tamper step
SPECIFICATION Spec
CONSTANTS
  Subs = {"s0", "s1"}
  Mats = {"m0", "m1"}
  MaxTamper = 1
INVARIANTS Inv_ImportLaw Inv_Export
CHECK_DEADLOCK FALSE
