"""C05 - history is hash-chained and tamper-evident.

MC : MC_C05.tla over Provenance.tla.
     chain mode : two worldlines x two heads + one fork, every interleaving of coordinator appends and the
                  fork; invariants: gap-free ticks, parents = previous tip, commit id = H(parents, root, patch
                  digest, policy), every prefix re-verifies, hash relation (equal inputs <=> equal commit id);
                  action properties append-only and gap-free.
     tamper mode: a 3-worldline store (a, its fork sibling f, independent b); every (position, field, variant)
                  single-field alteration of a's retained entries, swap / duplicate / truncate / drop / transplant,
                  and tampered checkpoints.  Per case the model predicts the rebuild verdict (append validation)
                  and, per tick, err:<variant> | same | diff_diag | diff_core; invariant: no diff_* for the fields
                  the commit id is documented to bind.
RP : every case is applied to REAL entries (produced by the real multi-worldline, two-head runtime), the store is
     rebuilt through the real append validation and every tick re-verified through replay_worldline_state_at,
     PlaybackCursor::seek_to (direct + step-wise), checkpoint insertion/restore, BTR validation, suffix import.
     The property is decided on the REAL outcome for ALL fields: typed error or exactly the original result.
     Random multi-head multi-worldline histories get the same catalogue at every position; the observed outcome
     classes per catalogue item are compared with the model's table (drift).
TV : every entry the runtime appended in those runs (ndjson) is validated by ProvenanceTrace.tla: accepted by the
     spec's AppendEntry, parents = previous tip, next tick, global tick monotone, fork = spec Fork, and the hash
     relation equal inputs <=> equal commit id across the whole trace.
"""
import os
from lib import *

RANDOM = {"quick": [(3, 5)], "thorough": [(2 + i % 3, 4 + i % 5) for i in range(20)]}


def catalogue_key(c):
    return f"{c['kind']}|{c['field']}|{c['variant']}"


def run(tier, replay=None):
    ck = Check("C05", tier)
    binp = build_harness()
    # ---- MC: chain mode (model only)
    if not replay:
        res = tlc("MC_C05", "MC_C05_chain.cfg" if tier == "quick" else "MC_C05_chain_thorough.cfg", workers=6, timeout=7200, tags=(), out_name="c05_chain")
        ck.add_tlc(res)
        if res.violation:
            ck.violation(f"spec:MC_C05_chain:{res.violation}", "TLC property violated on the model:\n" + res.error_text[:3000],
                         {"cfg": "MC_C05_chain.cfg", "trace": res.error_text[:20000]})
        if res.distinct < 100:
            raise ToolError("chain mode explored almost nothing")
    # ---- MC: tamper mode + export
    if replay:
        obj = json.load(open(replay))["case"]
        store, cases = obj.get("store"), obj.get("cases", [])
        if str(obj.get("leg", "")).startswith("transport"):      # a replay of the transport leg (c05s.run_leg below)
            store, cases = None, []
    else:
        res = tlc("MC_C05", "MC_C05_quick.cfg", workers=4, timeout=3600, tags=("CASE", "STORE"), out_name="c05_tamper")
        ck.add_tlc(res)
        if res.violation:
            ck.violation(f"spec:MC_C05_quick:{res.violation}", "TLC invariant violated on the model:\n" + res.error_text[:3000],
                         {"cfg": "MC_C05_quick.cfg", "trace": res.error_text[:20000]})
        stores = [o for t, o in res.lines if t == "STORE"]
        cases = [o for t, o in res.lines if t == "CASE"]
        if not stores or len(cases) < 100:
            raise ToolError("MC_C05_quick: nothing exported")
        store = dict(stores[0], kind="store")
        cases.sort(key=lambda r: (r["kind"], r["field"], r["variant"], r["pos"]))
    replay_random = [dict(obj["random"], kind="random")] if replay and obj.get("random") else []
    extra = replay_random if replay else [{"kind": "btr"}, {"kind": "suffix"}] + [
        {"kind": "random", "seed": ck.seed * 100 + i, "worldlines": w, "ticks": t} for i, (w, t) in enumerate(RANDOM[tier])]
    head = [store] if store else []
    cin = write_ndjson(os.path.join(WORK, "c05_tamper.cases"), head + cases + extra)
    cout = os.path.join(WORK, "c05_tamper.results")
    trace = os.path.join(WORK, "c05_trace.ndjson")
    harness(binp, ["c05", cin, cout, trace], timeout=7200)
    results = read_ndjson(cout)
    if len(results) != len(head) + len(cases) + len(extra):
        raise ToolError("harness result count mismatch")
    if head and results[0]["verdict"] == "tool_error":
        raise ToolError(f"the model's store could not be produced by the real runtime: {results[0].get('detail')}")
    multi_head = results[0].get("multi_head_superticks", 0) if head else 0
    # model table: catalogue item -> predicted outcome classes
    table = {}
    unbound_pred = set()
    for c in cases:
        s = table.setdefault(catalogue_key(c), set())
        if c["rebuild"] != "ok":
            s.add("rejected_at_rebuild")
        for t in c["ticks"]:
            s.add(t.split(":")[0])
        if any(t.startswith("diff") for t in c["ticks"]):
            unbound_pred.add(f"{c['kind']} {c['field']} {c['variant']}".strip())
    seen_keys = {}
    evaluations = 0
    drift = 0
    nontrivial = 0

    def report(findings, case_obj):
        for f in findings:
            k = f["key"]
            if k in seen_keys:
                seen_keys[k] += 1
                continue
            seen_keys[k] = 1
            ck.violation(k, f["detail"], case_obj)

    # the runtime's own store, before any tampering: chain clause + every tick re-verifies to the live result
    if head:
        report(results[0].get("findings", []), {"store": store, "cases": []})
    for c, r in zip(cases, results[len(head):len(head) + len(cases)]):
        if r["verdict"] == "skip":
            continue
        evaluations += 1
        if r["verdict"] == "tool_error":
            raise ToolError(f"case {c['kind']} {c['field']} {c['variant']} {c['pos']}: {r.get('detail')}")
        obs = r.get("observed", {})
        if obs.get("rebuild") != "ok" or any(not t.startswith("same") for t in obs.get("ticks", [])):
            nontrivial += 1
        report(r.get("findings", []), {"store": store, "cases": [c]})
        if r.get("drift"):
            drift += 1
            if len(ck.notes) < 8:
                ck.notes.append({"model_drift": r["drift"][:3], "case": {k: c[k] for k in ("kind", "pos", "field", "variant")}})
    rand_stats = {"histories": 0, "cases": 0, "btr_evaluations": 0, "suffix_evaluations": 0, "class_drift": []}
    for spec, r in zip(extra, results[len(head) + len(cases):]):
        if r["verdict"] == "tool_error":
            raise ToolError(f"{spec}: {r.get('detail')}")
        if r["verdict"] == "skip":
            continue
        multi_head += r.get("multi_head_superticks", 0)
        if spec["kind"] in ("btr", "suffix"):
            evaluations += r.get("evaluations", 0)
            rand_stats[spec["kind"] + "_evaluations"] += r.get("evaluations", 0)
            report(r.get("findings", []), {"store": store, "cases": [], "leg": spec["kind"]})
            if spec["kind"] == "btr":
                ck.cov["btr_fields_accepted_unbound"] = r.get("accepted_unbound", [])
            continue
        rand_stats["histories"] += 1
        rand_stats["cases"] += r.get("cases", 0)
        rand_stats["btr_evaluations"] += r.get("btr_evaluations") or 0
        rand_stats["suffix_evaluations"] += r.get("suffix_evaluations") or 0
        evaluations += r.get("cases", 0) + (r.get("btr_evaluations") or 0) + (r.get("suffix_evaluations") or 0)
        for f in r.get("findings", []):
            report([f], {"random": {k: spec[k] for k in ("seed", "worldlines", "ticks")}, "case": f.get("case")})
        for key, classes in r.get("classes", {}).items():
            extra_cls = set(classes) - table.get(key, set()) - {"same"}
            if key in table and extra_cls:
                rand_stats["class_drift"].append({"seed": spec["seed"], "item": key, "observed": sorted(classes), "model": sorted(table[key])})
    if rand_stats["class_drift"]:
        ck.notes.append({"random_history_class_drift": rand_stats["class_drift"][:6]})
    # ---- TV
    nev = sum(1 for _ in open(trace))
    if not replay:
        if nev < 20:
            raise ToolError("vacuous: provenance trace almost empty")
        tr = tlc("ProvenanceTrace", "ProvenanceTrace.cfg", workers=1, env={"TRACE": trace}, timeout=3600,
                 java_opts="-Xss1g -Dtlc2.tool.queue.IStateQueue=StateDeque", tags=(), out_name="c05_trace")
        out = open(tr.stdout_path).read()
        m = re.search(r'"REJECTED_AT", (\d+)', out)
        if m or tr.postcondition_failed or tr.violation:
            idx = int(m.group(1)) if m else -1
            evs = read_ndjson(trace)
            ck.violation("trace:appended_entry", f"ProvenanceTrace rejects event {idx} ({tr.violation}): {evs[idx - 1] if 0 < idx <= len(evs) else '?'}",
                         {"trace_tail": evs[max(0, idx - 10):idx]})
    if not replay and multi_head == 0:
        raise ToolError("vacuous: no SuperTick committed two heads of one worldline")
    ck.cov["superticks_with_two_heads_of_one_worldline"] = multi_head
    if not replay and (not any(k.startswith("alter|outputs") for k in table) or not unbound_pred):
        raise ToolError("vacuous: the catalogue lost the unbound fields")
    ck.sample({"model_predicts_accepted_with_different_result": sorted(unbound_pred)})
    ck.sample({"distinct_finding_keys": seen_keys})
    ck.cov["traces_validated_against_impl"] = len(cases) + rand_stats["cases"] + rand_stats["histories"]
    ck.cov["evaluations"] = evaluations
    ck.cov["distinct_nontrivial"] = nontrivial
    ck.cov["rule"] = ("every (position, field, variant) of the tamper catalogue on the model's store (MC_C05_quick.cfg) and on %d random multi-head "
                      "multi-worldline histories, each re-verified at every tick through 3 entry points (+ checkpoint restore, BTR, suffix import); "
                      "non-trivial = the tamper is rejected somewhere or changes an outcome" % len(RANDOM[tier]))
    ck.cov["model_drift_cases"] = drift
    ck.cov["random_histories"] = {k: v for k, v in rand_stats.items() if k != "class_drift"}
    ck.cov["trace_events"] = nev
    ck.cov["exhaustive"] = replay is None
    ck.assumptions += ["bounded model: 3 worldlines (a, fork sibling f, independent b), 3 entries, catalogue in MC_C05.tla; chain mode MaxEntries per cfg",
                       "tampering = single-field alteration or verbatim structural move; an attacker who recomputes hashes consistently is out of scope "
                       "(a transplant with every id rewritten is accepted only as the donor worldline's own verified history - checked)",
                       "the verifier rebuilding worldline w refuses an entry whose worldline_id is not w (append_local_commit routes by the entry's own id)",
                       "a checkpoint served by a foreign ProvenanceStore is only swapped in its graph state (different root); its replay metadata (tick history, last materialization) is trusted by restore_replay_base and not tampered here",
                       "TickReceipt / WorldlineState have no public constructors: tampered receipts / checkpoint states are real ones taken from another tick, worldline or twin store",
                       "recorded outputs are synthesized on the entries (rules cannot emit to the bus)", "BLAKE3 collision-freeness",
                       "suffix import uses a provenance-backed admission context (local shell digest = derive_witnessed_suffix_shell_digest)"]
    import c05s                                  # transport leg: suffix bundles and BTRs (spec/SuffixTransport.tla)
    c05s.run_leg(ck, binp, tier, replay)
    return ck.finish()
