-------------------------------- MODULE Wal --------------------------------
(***************************************************************************)
(* Write-ahead log of the trusted runtime host (C10, C11).                 *)
(*                                                                         *)
(* Transcribed from                                                        *)
(*   crates/warp-core/src/causal_wal.rs                                    *)
(*     append_segment_record, FilesystemWalStore::append_transaction,      *)
(*     flush_commit_with_capabilities, persist_writer_epoch_ledger,        *)
(*     write_writer_epoch_ledger_atomic, acquire_fresh_writer_epoch,       *)
(*     reconcile_writer_epoch_closures, read_segment_bytes,                *)
(*     recover_from_frames_and_commits, validate_recovery_frame_order,     *)
(*     validate_transaction_frames, recover_filesystem_store,              *)
(*     rewrite_filesystem_segments_after_truncation                        *)
(*   crates/warp-core/src/trusted_runtime_host.rs                          *)
(*     TrustedRuntimeWal::from_config, enable_runtime_wal,                 *)
(*     submit_intent_with_runtime_wal_ack_inner, tick_once,                *)
(*     recover_filesystem_*_after_error, refresh_cursor_from_store_...     *)
(*                                                                         *)
(* Part 1: records, byte prefixes, the recovery scan (as-built             *)
(*         transcription) and the declarative oracle.                      *)
(* Part 2: the host/store state machine with crashes and store faults      *)
(*         (C10).                                                          *)
(* Part 3: corruption edits on a committed log (C11).                      *)
(*                                                                         *)
(* Hashes are abstract: a record's content identity is (src, tx, idx);     *)
(* `src` names the log that produced it ("A" = the log under recovery,     *)
(* "B" = a second log with the same LSNs and different payloads).          *)
(***************************************************************************)
EXTENDS Naturals, Sequences, FiniteSets, TLC

CONSTANT None        \* model value

(***************************************************************************)
(* Part 1 - records and recovery                                           *)
(***************************************************************************)

\* One disk record: magic | kind | len | payload | digest  (append_segment_record).
\*   frame : lsn = its LSN, first = 0, idx = transaction-local index (1-based here)
\*   commit: first/lsn = first_lsn/last_lsn, idx = record_count
\*   prev  : the chain field written at build time: for a frame the identity of the frame
\*           at lsn-1 (previous_frame_digest), for a commit the identity of the previous
\*           commit (previous_committed_transaction_digest); <<"gen">> at the log start.
\*   dmg   : "ok" or the damaged region (C11): "magic","kind","len_big","len_small","payload","digest"
\*   ext   : byte extent of the record on disk
Frame(src, t, k, lsn, ep, prev, x) ==
  [kind |-> "frame", src |-> src, tx |-> t, idx |-> k, lsn |-> lsn, first |-> 0, ep |-> ep,
   prev |-> prev, dmg |-> "ok", ext |-> x]
Commit(src, t, n, first, last, ep, prev, x) ==
  [kind |-> "commit", src |-> src, tx |-> t, idx |-> n, lsn |-> last, first |-> first, ep |-> ep,
   prev |-> prev, dmg |-> "ok", ext |-> x]
\* an incomplete final record (a torn write): x bytes of it are present
Torn(x) ==
  [kind |-> "torn", src |-> "A", tx |-> 0, idx |-> 0, lsn |-> 0, first |-> 0, ep |-> 0,
   prev |-> <<"gen">>, dmg |-> "ok", ext |-> x]

FrameId(r)  == <<"f", r.src, r.tx, r.idx, r.lsn>>
CommitId(r) == <<"c", r.src, r.tx>>

RECURSIVE BytesFrom(_, _)
BytesFrom(s, i) == IF i > Len(s) THEN 0 ELSE s[i].ext + BytesFrom(s, i + 1)
Bytes(s) == BytesFrom(s, 1)

\* The surviving content when only the first b bytes of the segment survive: whole records
\* that end at or before b, plus a torn marker when b cuts into a record.
RECURSIVE PrefixFrom(_, _, _, _)
PrefixFrom(s, b, i, off) ==
  IF i > Len(s) THEN <<>>
  ELSE IF off + s[i].ext <= b THEN <<s[i]>> \o PrefixFrom(s, b, i + 1, off + s[i].ext)
  ELSE IF off < b THEN <<Torn(b - off)>>
  ELSE <<>>
PrefixBytes(s, b) == PrefixFrom(s, b, 1, 0)

IsPrefix(h, g) == Len(h) <= Len(g) /\ \A i \in 1..Len(h) : h[i] = g[i]

\* --- read_segment_bytes --------------------------------------------------
\* Returns [err, frames, commits, torn].  A damaged magic/kind/payload/digest region makes the
\* record digest (or magic) check fail: error.  A length field damaged to a larger value points
\* past the end of the file: the reader classifies everything from here as a torn tail and stops;
\* damaged to a smaller value the digest check fails.
RECURSIVE ReadFrom(_, _, _, _)
ReadFrom(s, i, fr, cm) ==
  IF i > Len(s) THEN [err |-> FALSE, frames |-> fr, commits |-> cm, torn |-> FALSE]
  ELSE LET r == s[i] IN
    IF r.kind = "torn" THEN [err |-> FALSE, frames |-> fr, commits |-> cm, torn |-> TRUE]
    ELSE IF r.dmg = "len_big" THEN [err |-> FALSE, frames |-> fr, commits |-> cm, torn |-> TRUE]
    ELSE IF r.dmg # "ok" THEN [err |-> TRUE, frames |-> fr, commits |-> cm, torn |-> FALSE]
    ELSE IF r.kind = "frame" THEN ReadFrom(s, i + 1, Append(fr, r), cm)
    ELSE ReadFrom(s, i + 1, fr, Append(cm, r))
ReadSeg(s) == ReadFrom(s, 1, <<>>, <<>>)

\* --- recover_from_frames_and_commits (as built) -----------------------------
LsnLeq(a, b) == a.lsn <= b.lsn
\* validate_recovery_frame_order: frames sorted by LSN must be consecutive
FrameOrderOk(fr) ==
  LET so == SortSeq(fr, LAMBDA a, b : a.lsn < b.lsn)
  IN \A i \in 1..(Len(so) - 1) : so[i + 1].lsn = so[i].lsn + 1

\* frames selected for commit c: same transaction id and LSN inside [first, last]; the
\* transaction id is a content hash, so a frame of another log never matches
TxFrames(fr, c) ==
  SelectSeq(fr, LAMBDA f : f.src = c.src /\ f.tx = c.tx /\ f.lsn >= c.first /\ f.lsn <= c.lsn)

\* validate_transaction_frames: first/last LSN, count, local indices, LSN continuity, epoch;
\* records_root binds the exact frames (identity) the commit was built over, which in this
\* model is: the frames carry the commit's own (src, tx) and the right indices.
TxFramesOk(tf, c) ==
  /\ Len(tf) > 0
  /\ tf[1].lsn = c.first
  /\ tf[Len(tf)].lsn = c.lsn
  /\ Len(tf) = c.idx
  /\ \A p \in 1..Len(tf) : tf[p].idx = p /\ tf[p].lsn = c.first + p - 1 /\ tf[p].ep = c.ep

\* Repaired = FALSE: the code as built (chain fields are written but never compared, commit
\* markers are iterated without de-duplication, the first recovered LSN is unconstrained).
\* Repaired = TRUE : the proposed minimal repair (see ChainOk).
CONSTANT Repaired

\* the chain checks of the proposed repair: every commit's previous-commit field names the
\* commit recovered before it (genesis for the first), every transaction's first frame names
\* the last frame of the previously recovered transaction, frames inside a transaction chain.
RECURSIVE ChainFrom(_, _, _, _, _)
ChainFrom(fr, cm, i, prevC, prevF) ==
  IF i > Len(cm) THEN TRUE
  ELSE LET c == cm[i]
           tf == TxFrames(fr, c)
       IN /\ c.prev = prevC
          /\ Len(tf) > 0
          /\ tf[1].prev = prevF
          /\ \A p \in 2..Len(tf) : tf[p].prev = FrameId(tf[p - 1])
          /\ ChainFrom(fr, cm, i + 1, CommitId(c), FrameId(tf[Len(tf)]))
ChainOk(fr, cm) == ChainFrom(fr, cm, 1, <<"gen">>, <<"gen">>)

TxOf(c) == [src |-> c.src, tx |-> c.tx]

\* path = "bytes": recover_wal_segment_bytes (storage order);
\* path = "fs"   : recover_filesystem_store (frames sorted by LSN, commits by last LSN)
Scan(s, path) ==
  LET rd == ReadSeg(s)
      fr == IF path = "fs" THEN SortSeq(rd.frames, LAMBDA a, b : a.lsn < b.lsn) ELSE rd.frames
      cm == IF path = "fs" THEN SortSeq(rd.commits, LAMBDA a, b : a.lsn < b.lsn) ELSE rd.commits
  IN IF rd.err THEN [ok |-> FALSE, h |-> <<>>, tail |-> FALSE]
     ELSE IF ~FrameOrderOk(fr) THEN [ok |-> FALSE, h |-> <<>>, tail |-> FALSE]
     ELSE IF \E i \in 1..Len(cm) : ~TxFramesOk(TxFrames(fr, cm[i]), cm[i])
          THEN [ok |-> FALSE, h |-> <<>>, tail |-> FALSE]
     ELSE IF Repaired /\ ~ChainOk(fr, cm) THEN [ok |-> FALSE, h |-> <<>>, tail |-> FALSE]
     ELSE LET lastL == IF Len(cm) = 0 THEN 0 ELSE cm[Len(cm)].lsn
              hasC == Len(cm) > 0
          IN [ok |-> TRUE,
              h |-> [i \in 1..Len(cm) |-> TxOf(cm[i])],
              tail |-> rd.torn \/ \E i \in 1..Len(fr) : (~hasC \/ fr[i].lsn > lastL)]

\* --- declarative oracle ------------------------------------------------------
\* The committed history of a log whose records were produced by the writer: the transactions
\* whose commit marker is wholly present, in log order.  (In a crash state a commit marker is
\* present only if all frames of its transaction are; Inv_ScanIsOracle checks the transcribed
\* scan against this independent definition.)
Durable(s) ==
  LET cm == SelectSeq(s, LAMBDA r : r.kind = "commit")
  IN [i \in 1..Len(cm) |-> TxOf(cm[i])]

\* rewrite_filesystem_segments_after_truncation: keep frames and commits up to the last
\* committed LSN; the rewritten file holds all kept frames first, then all kept commits.
Truncated(s) ==
  LET rd == ReadSeg(s)
      cm == rd.commits
      lastL == IF Len(cm) = 0 THEN 0 ELSE cm[Len(cm)].lsn
      keepF == IF Len(cm) = 0 THEN <<>> ELSE SelectSeq(rd.frames, LAMBDA f : f.lsn <= lastL)
  IN keepF \o cm

(***************************************************************************)
(* Part 2 - host and store state machine (C10)                             *)
(***************************************************************************)
CONSTANTS Subs,          \* submission ids
          MaxTx,         \* transactions ever started
          MaxFrames,     \* frames per transaction
          MaxCycles,     \* crashes
          RewriteAtomic, \* TRUE: tail truncation is one step; FALSE: as built (remove, re-append unsynced, sync)
          Mutant         \* "none" | "ack_before_sync" | "ack_before_commit" | "no_truncate" | "no_rollback"

VARIABLES seg,        \* Seq of records: the segment file as written (incl. page-cache content)
          synced,     \* byte offset known durable
          ledger,     \* <<v>> or <<old, new>>: writer-epoch ledger versions that may be on disk
          txs,        \* history: tx id -> [kind, subs, nf]  (content of every transaction ever started)
          mem,        \* volatile host state [subs, dec]: witnessed submissions, decided outcomes
          snap,       \* rollback snapshot taken before the in-memory mutation
          pc, cur, wr,\* program counter of the host call, current tx id, frames written
          ep,         \* writer epoch of the live host (0 = none)
          rwq,        \* records still to re-append by a non-atomic tail truncation
          ackedEver, pubEver,   \* history: submissions acknowledged / outcomes published to the application
          cycles, nextLsn, lastF, lastC
vars == <<seg, synced, ledger, txs, mem, snap, pc, cur, wr, ep, rwq, ackedEver, pubEver, cycles, nextLsn, lastF, lastC>>

X == 2   \* abstract record extent: offsets {0 = before, 1 = inside, 2 = at end}

EmptyMem == [subs |-> {}, dec |-> {}]

\* A writer-epoch ledger version (writer-epochs.ecwal): act = active epoch (0 = none), cl = the one
\* retained closed epoch (0 = none), start = started_at_lsn of the newest epoch it names,
\* fin = final LSN + 1 recorded for that newest epoch (0 = no commit recorded).
\* `ledger` is <<v>> normally and <<old, new>> while write_writer_epoch_ledger_atomic runs
\* (temp file written, rename pending): a crash keeps either.
LedgerV(act, cl, start, fin) == [act |-> act, cl |-> cl, start |-> start, fin |-> fin]
Newest(v) == IF v.act > 0 THEN v.act ELSE v.cl

TxSubs(h, k) == UNION {txs[h[i].tx].subs : i \in {j \in 1..Len(h) : txs[h[j].tx].kind = k}}
Rebuild(h) == [subs |-> TxSubs(h, "sub"), dec |-> TxSubs(h, "tick")]

\* reconcile_writer_epoch_closures: every commit on disk must belong to an epoch the ledger
\* version knows (active or the retained closed one) or lie below the retained range; the
\* closure of a known epoch is advanced to the newest commit found on disk ("a commit that
\* reached its segment sync boundary before the ledger snapshot").
LedgerAdmits(v, s) ==
  \A i \in 1..Len(s) : s[i].kind = "commit" =>
      (s[i].ep = v.act \/ s[i].ep = v.cl \/ (v.cl > 0 /\ s[i].ep < v.cl) \/ (v.cl = 0 /\ v.act > 0 /\ s[i].ep < v.act))
RECURSIVE MaxFinFrom(_, _, _, _)
MaxFinFrom(s, e, i, acc) ==
  IF i > Len(s) THEN acc
  ELSE MaxFinFrom(s, e, i + 1, IF s[i].kind = "commit" /\ s[i].ep = e /\ s[i].lsn + 1 > acc THEN s[i].lsn + 1 ELSE acc)
EffFin(v, s) == MaxFinFrom(s, Newest(v), 1, v.fin)

Init ==
  /\ seg = <<>> /\ synced = 0 /\ ledger = <<LedgerV(0, 0, 0, 0)>> /\ txs = <<>>
  /\ mem = EmptyMem /\ snap = EmptyMem /\ pc = "down" /\ cur = 0 /\ wr = 0 /\ ep = 0 /\ rwq = <<>>
  /\ ackedEver = {} /\ pubEver = {} /\ cycles = 0 /\ nextLsn = 0 /\ lastF = <<"gen">> /\ lastC = <<"gen">>

NextLsnOf(s) ==
  LET cm == ReadSeg(s).commits IN IF Len(cm) = 0 THEN 0 ELSE cm[Len(cm)].lsn + 1
LastFrameId(s) ==
  LET fr == ReadSeg(s).frames IN IF Len(fr) = 0 THEN <<"gen">> ELSE FrameId(fr[Len(fr)])
LastCommitId(s) ==
  LET cm == ReadSeg(s).commits IN IF Len(cm) = 0 THEN <<"gen">> ELSE CommitId(cm[Len(cm)])

\* ---- opening a host on whatever is on disk (TrustedRuntimeWal::from_config) ----
\* FilesystemWalStore::open reads the ledger and reconciles it with the commit markers on disk;
\* recover_for_writer scans and truncates the tail.
OpenScan ==
  /\ pc = "down" /\ Len(ledger) = 1
  /\ LET sc == Scan(seg, "fs") IN
     IF ~sc.ok \/ ReadSeg(seg).err \/ ~LedgerAdmits(ledger[1], ReadSeg(seg).commits)
     THEN pc' = "open_failed" /\ UNCHANGED <<seg, synced, rwq>>
     ELSE IF ~sc.tail \/ Mutant = "no_truncate"
          THEN pc' = "open_epoch" /\ UNCHANGED <<seg, synced, rwq>>
          ELSE IF RewriteAtomic
               THEN seg' = Truncated(seg) /\ synced' = Bytes(seg') /\ pc' = "open_epoch" /\ rwq' = <<>>
               ELSE \* remove the segment, create it empty and sync it; records follow one by one
                    seg' = <<>> /\ synced' = 0 /\ rwq' = Truncated(seg) /\ pc' = "open_rewrite"
  /\ UNCHANGED <<ledger, txs, mem, snap, cur, wr, ep, ackedEver, pubEver, cycles, nextLsn, lastF, lastC>>

RewriteAppend ==
  /\ pc = "open_rewrite" /\ Len(rwq) > 0
  /\ seg' = Append(seg, Head(rwq)) /\ rwq' = Tail(rwq)
  /\ UNCHANGED <<synced, ledger, txs, mem, snap, pc, cur, wr, ep, ackedEver, pubEver, cycles, nextLsn, lastF, lastC>>
RewriteSync ==
  /\ pc = "open_rewrite" /\ Len(rwq) = 0
  /\ synced' = Bytes(seg) /\ pc' = "open_epoch"
  /\ UNCHANGED <<seg, ledger, txs, mem, snap, cur, wr, ep, rwq, ackedEver, pubEver, cycles, nextLsn, lastF, lastC>>

\* acquire_fresh_writer_epoch: close the recovered active epoch (one atomic ledger replace),
\* then derive and persist the successor as active (a second one); only then is writer authority
\* returned.  started_at_lsn of the successor:
\*   required = final_lsn + 1 of the predecessor, or - when the predecessor recorded NO commit -
\*              predecessor.started_at_lsn + 1   (as built; validate_writer_epoch_request rejects
\*              an equal start as WriterEpochLsnRegression)
\*   started  = max(cursor next LSN, required)
\* EpochGapRepaired = TRUE models the proposed repair (an epoch without commits hands its own
\* start LSN to its successor).
CONSTANT EpochGapRepaired
NewLedgerOnOpen(v) ==
  IF v.act > 0 THEN LedgerV(0, v.act, v.start, EffFin(v, seg))
  ELSE LET fin == EffFin(v, seg)
           minimum == NextLsnOf(seg)
           required == IF fin > 0 THEN fin
                       ELSE IF Newest(v) = 0 THEN minimum
                       ELSE IF EpochGapRepaired THEN v.start ELSE v.start + 1
           started == IF minimum > required THEN minimum ELSE required
       IN LedgerV(Newest(v) + 1, v.cl, started, 0)
OpenLedgerBegin ==
  /\ pc = "open_epoch" /\ Len(ledger) = 1
  /\ ledger' = <<ledger[1], NewLedgerOnOpen(ledger[1])>>
  /\ pc' = "open_epoch_w"
  /\ UNCHANGED <<seg, synced, txs, mem, snap, cur, wr, ep, rwq, ackedEver, pubEver, cycles, nextLsn, lastF, lastC>>
OpenLedgerEnd ==
  /\ pc = "open_epoch_w"
  /\ ledger' = <<ledger[2]>>
  /\ pc' = IF ledger[2].act > 0 THEN "open_rebuild" ELSE "open_epoch"
  /\ ep' = ledger[2].act
  /\ UNCHANGED <<seg, synced, txs, mem, snap, cur, wr, rwq, ackedEver, pubEver, cycles, nextLsn, lastF, lastC>>

\* enable_runtime_wal: recover_read_only and rebuild the host from the committed transactions;
\* the adapter's cursor continues at the new epoch's started_at_lsn.
OpenRebuild ==
  /\ pc = "open_rebuild"
  /\ LET sc == Scan(seg, "fs") IN
       /\ mem' = Rebuild(sc.h)
       /\ nextLsn' = ledger[1].start /\ lastF' = LastFrameId(seg) /\ lastC' = LastCommitId(seg)
  /\ pc' = "idle" /\ snap' = EmptyMem /\ cur' = 0 /\ wr' = 0
  /\ UNCHANGED <<seg, synced, ledger, txs, ep, rwq, ackedEver, pubEver, cycles>>

\* ---- one host call = one transaction ----------------------------------------
\* submit_intent_with_runtime_wal_ack_inner: runtime.submit_app_intent mutates memory first,
\* then record_submission_acceptance appends the transaction.
BeginSubmit(s, nf) ==
  /\ pc = "idle" /\ Len(txs) < MaxTx /\ s \notin mem.subs
  /\ snap' = mem /\ mem' = [mem EXCEPT !.subs = @ \cup {s}]
  /\ txs' = Append(txs, [kind |-> "sub", subs |-> {s}, nf |-> nf])
  /\ cur' = Len(txs) + 1 /\ wr' = 0 /\ pc' = "frames"
  /\ UNCHANGED <<seg, synced, ledger, ep, rwq, ackedEver, pubEver, cycles, nextLsn, lastF, lastC>>
\* tick_once: super_tick mutates runtime and provenance first, then the tick transaction is
\* appended; outcomes become observable when tick_once returns Ok.
BeginTick(nf) ==
  /\ pc = "idle" /\ Len(txs) < MaxTx /\ mem.subs \ mem.dec # {}
  /\ snap' = mem /\ mem' = [mem EXCEPT !.dec = mem.subs]
  /\ txs' = Append(txs, [kind |-> "tick", subs |-> mem.subs \ mem.dec, nf |-> nf])
  /\ cur' = Len(txs) + 1 /\ wr' = 0 /\ pc' = "frames"
  /\ UNCHANGED <<seg, synced, ledger, ep, rwq, ackedEver, pubEver, cycles, nextLsn, lastF, lastC>>

\* FilesystemWalStore::append_frame: appended, not synced
AppendFrame ==
  /\ pc = "frames" /\ wr < txs[cur].nf
  /\ LET f == Frame("A", cur, wr + 1, nextLsn + wr, ep, lastF, X) IN
       seg' = Append(seg, f) /\ lastF' = FrameId(f)
  /\ wr' = wr + 1
  /\ UNCHANGED <<synced, ledger, txs, mem, snap, pc, cur, ep, rwq, ackedEver, pubEver, cycles, nextLsn, lastC>>

\* flush_commit_with_capabilities: the commit marker is appended and the file synced
AppendCommitAndSync ==
  /\ pc = "frames" /\ wr = txs[cur].nf
  /\ LET c == Commit("A", cur, wr, nextLsn, nextLsn + wr - 1, ep, lastC, X) IN
       seg' = Append(seg, c) /\ lastC' = CommitId(c)
  /\ synced' = IF Mutant = "ack_before_sync" THEN synced ELSE Bytes(seg')
  /\ nextLsn' = nextLsn + wr
  /\ pc' = "ledger_b"
  /\ UNCHANGED <<ledger, txs, mem, snap, cur, wr, ep, rwq, ackedEver, pubEver, cycles, lastF>>

\* persist_writer_epoch_ledger (temp file, sync, rename, directory sync)
PersistLedgerBegin ==
  /\ pc = "ledger_b" /\ Len(ledger) = 1
  /\ ledger' = <<ledger[1], [ledger[1] EXCEPT !.fin = nextLsn]>>
  /\ pc' = "ledger_e"
  /\ UNCHANGED <<seg, synced, txs, mem, snap, cur, wr, ep, rwq, ackedEver, pubEver, cycles, nextLsn, lastF, lastC>>
PersistLedgerEnd ==
  /\ pc = "ledger_e"
  /\ ledger' = <<ledger[2]>>
  /\ pc' = "ret"
  /\ UNCHANGED <<seg, synced, txs, mem, snap, cur, wr, ep, rwq, ackedEver, pubEver, cycles, nextLsn, lastF, lastC>>

\* the call returns Ok: the submission is acknowledged / the outcome is published
Return(t) ==
  /\ IF txs[t].kind = "sub"
     THEN ackedEver' = ackedEver \cup txs[t].subs /\ UNCHANGED pubEver
     ELSE pubEver' = pubEver \cup txs[t].subs /\ UNCHANGED ackedEver
Ack ==
  /\ pc = "ret" /\ txs[cur].kind = "sub" /\ Return(cur)
  /\ pc' = "idle" /\ cur' = 0 /\ wr' = 0
  /\ UNCHANGED <<seg, synced, ledger, txs, mem, snap, ep, rwq, cycles, nextLsn, lastF, lastC>>
Publish ==
  /\ pc = "ret" /\ txs[cur].kind = "tick" /\ Return(cur)
  /\ pc' = "idle" /\ cur' = 0 /\ wr' = 0
  /\ UNCHANGED <<seg, synced, ledger, txs, mem, snap, ep, rwq, cycles, nextLsn, lastF, lastC>>
\* mutant only: acknowledge while the transaction is still being written
AckEarly ==
  /\ Mutant = "ack_before_commit" /\ pc = "frames" /\ Return(cur)
  /\ UNCHANGED <<seg, synced, ledger, txs, mem, snap, pc, cur, wr, ep, rwq, cycles, nextLsn, lastF, lastC>>

\* a retry of an already witnessed submission: handle.duplicate and the acceptance is durable,
\* so the call returns Ok without a new transaction
RetryDuplicate(s) ==
  /\ pc = "idle" /\ s \in mem.subs
  /\ ackedEver' = ackedEver \cup {s}
  /\ UNCHANGED <<seg, synced, ledger, txs, mem, snap, pc, cur, wr, ep, rwq, pubEver, cycles, nextLsn, lastF, lastC>>

\* ---- store faults (FilesystemWalFaultPlan + real I/O errors) -----------------
\* op: "append_frame" (before writing the next frame), "flush_commit" (before writing the commit
\* marker), "persist_ledger" (commit synced, ledger write fails), "commit_marker_synced" (after
\* everything is durable the store still reports an error).
\* The host reacts with recover_filesystem_*_after_error: refresh_cursor_from_store_for_writer
\* runs a WRITABLE recovery (truncating the uncommitted tail); if the transaction turns out to be
\* committed the call returns Ok, otherwise memory is rolled back and the error is returned.
FaultPoint(op) ==
  \/ op = "append_frame" /\ pc = "frames" /\ wr < txs[cur].nf
  \/ op = "flush_commit" /\ pc = "frames" /\ wr = txs[cur].nf
  \/ op = "persist_ledger" /\ pc = "ledger_b"
  \/ op = "commit_marker_synced" /\ pc = "ret"
StoreFault(op) ==
  /\ FaultPoint(op)
  /\ LET sc == Scan(seg, "fs")
         committed == \E i \in 1..Len(sc.h) : sc.h[i].tx = cur
     IN /\ seg' = IF sc.tail THEN Truncated(seg) ELSE seg
        /\ synced' = Bytes(seg')
        /\ nextLsn' = NextLsnOf(seg') /\ lastF' = LastFrameId(seg') /\ lastC' = LastCommitId(seg')
        /\ IF committed
           THEN pc' = "ret" /\ UNCHANGED <<mem, cur, wr>>
           ELSE /\ mem' = IF Mutant = "no_rollback" THEN mem ELSE snap
                /\ pc' = "idle" /\ cur' = 0 /\ wr' = 0
  /\ UNCHANGED <<ledger, txs, snap, ep, rwq, ackedEver, pubEver, cycles>>

\* ---- crash ----------------------------------------------------------------------
\* The process stops anywhere. Any byte prefix of the segment at or beyond the synced offset
\* survives, and any one of the ledger versions that may be on disk. Volatile state is gone.
Crash ==
  /\ pc \notin {"down", "open_failed"} /\ cycles < MaxCycles
  /\ \E b \in synced..Bytes(seg) :
       /\ seg' = PrefixBytes(seg, b)
       /\ synced' = b
  /\ \E i \in 1..Len(ledger) : ledger' = <<ledger[i]>>
  /\ mem' = EmptyMem /\ snap' = EmptyMem /\ pc' = "down" /\ cur' = 0 /\ wr' = 0 /\ ep' = 0 /\ rwq' = <<>>
  /\ cycles' = cycles + 1
  /\ nextLsn' = 0 /\ lastF' = <<"gen">> /\ lastC' = <<"gen">>
  /\ UNCHANGED <<txs, ackedEver, pubEver>>

Next ==
  \/ OpenScan \/ RewriteAppend \/ RewriteSync \/ OpenLedgerBegin \/ OpenLedgerEnd \/ OpenRebuild
  \/ \E s \in Subs, nf \in 1..MaxFrames : BeginSubmit(s, nf)
  \/ \E nf \in 1..MaxFrames : BeginTick(nf)
  \/ AppendFrame \/ AppendCommitAndSync \/ PersistLedgerBegin \/ PersistLedgerEnd
  \/ Ack \/ Publish \/ AckEarly
  \/ \E s \in Subs : RetryDuplicate(s)
  \/ \E op \in {"append_frame", "flush_commit", "persist_ledger", "commit_marker_synced"} : StoreFault(op)
  \/ Crash
Spec == Init /\ [][Next]_vars

\* ---- invariants -------------------------------------------------------------------
\* what a recovery of the bytes that are durable RIGHT NOW would return
DurableNow == Durable(PrefixBytes(seg, synced))

\* acknowledged / published implies recoverable from the durable bytes, at every moment
Inv_AckedSurvive     == ackedEver \subseteq TxSubs(DurableNow, "sub")
Inv_PublishedSurvive == pubEver \subseteq TxSubs(DurableNow, "tick")
\* reopening succeeds on every crash state
Inv_RecoverSucceeds  == pc # "open_failed"
\* the transcribed scan returns exactly the declarative committed prefix of what survived
Inv_ScanIsOracle ==
  pc = "down" => LET sc == Scan(seg, "fs") IN sc.ok /\ sc.h = Durable(seg) /\ Scan(seg, "bytes").h = sc.h
\* a live idle host (original or recovered) shows exactly the committed transactions
Inv_RecoveredIsCommittedPrefix == pc = "idle" => mem = Rebuild(Durable(seg))
\* nothing of a transaction without commit marker is visible
Inv_NoPartialTransactionVisible ==
  pc = "idle" =>
    \A i \in 1..Len(seg) : (seg[i].kind = "frame" /\ ~\E j \in 1..Len(seg) : seg[j].kind = "commit" /\ seg[j].tx = seg[i].tx)
        => ( (txs[seg[i].tx].kind = "sub"  => txs[seg[i].tx].subs \cap mem.subs \subseteq TxSubs(Durable(seg), "sub"))
          /\ (txs[seg[i].tx].kind = "tick" => txs[seg[i].tx].subs \cap mem.dec \subseteq TxSubs(Durable(seg), "tick")) )
\* recovery is idempotent: truncating twice = truncating once, and the history is unchanged
Inv_RecoverIdempotent ==
  LET t1 == Truncated(seg) IN
    Scan(seg, "fs").ok => (Truncated(t1) = t1 /\ Scan(t1, "fs").ok /\ Scan(t1, "fs").h = Scan(seg, "fs").h /\ ~Scan(t1, "fs").tail)
\* whatever is durable at any moment can be scanned by recovery (no acknowledged write can make
\* the log unreadable)
Inv_LogAlwaysRecoverable == Scan(PrefixBytes(seg, synced), "fs").ok
\* the recovered (or original) host de-duplicates a retry of anything it ever acknowledged
Inv_RetryAfterRecoveryIsDuplicate == pc = "idle" => (ackedEver \subseteq mem.subs /\ pubEver \subseteq mem.dec)
\* exactly once: no submission is accepted or decided by two committed transactions
Inv_ExactlyOnce ==
  LET h == Durable(seg) IN
    \A i, j \in 1..Len(h) : (i # j /\ txs[h[i].tx].kind = txs[h[j].tx].kind) => txs[h[i].tx].subs \cap txs[h[j].tx].subs = {}
\* the ledger versions that can be on disk always admit the commits that can be on disk
Inv_LedgerCoexists == \A i \in 1..Len(ledger) : LedgerAdmits(ledger[i], seg)

(***************************************************************************)
(* Part 3 - corruption of a committed log (C11)                            *)
(***************************************************************************)
\* A committed log with NT transactions of NF frames each, produced by source `src`.
RECURSIVE BuildLog(_, _, _, _)
BuildLog(src, nt, nf, t) ==
  IF t > nt THEN <<>>
  ELSE LET base == (t - 1) * nf
           prevF(k) == IF k = 1 THEN (IF t = 1 THEN <<"gen">> ELSE <<"f", src, t - 1, nf, base - 1>>)
                       ELSE <<"f", src, t, k - 1, base + k - 2>>
           prevC == IF t = 1 THEN <<"gen">> ELSE <<"c", src, t - 1>>
       IN [k \in 1..nf |-> Frame(src, t, k, base + k - 1, 1, prevF(k), X)]
          \o <<Commit(src, t, nf, base, base + nf - 1, 1, prevC, X)>>
          \o BuildLog(src, nt, nf, t + 1)

Regions == {"magic", "kind", "len_big", "len_small", "payload", "digest"}

RemoveAt(s, i) == [j \in 1..(Len(s) - 1) |-> IF j < i THEN s[j] ELSE s[j + 1]]
InsertAfter(s, i, r) == [j \in 1..(Len(s) + 1) |-> IF j <= i THEN s[j] ELSE IF j = i + 1 THEN r ELSE s[j - 1]]
SwapAt(s, i) == [j \in 1..Len(s) |-> IF j = i THEN s[i + 1] ELSE IF j = i + 1 THEN s[i] ELSE s[j]]
TxRange(s, t) == {j \in 1..Len(s) : s[j].tx = t}

\* One edit of log a (b is the second log with equal LSNs). e = [k, i, region/j/t]
ApplyEdit(a, b, e) ==
  CASE e.k = "damage"        -> [a EXCEPT ![e.i].dmg = e.region]                 \* bit flip / zero range in a region
    [] e.k = "truncate"      -> PrefixBytes(a, e.i)                              \* cut at byte offset e.i
    [] e.k = "delete"        -> RemoveAt(a, e.i)
    [] e.k = "duplicate"     -> InsertAfter(a, e.j, a[e.i])                      \* copy of record i placed after position j
    [] e.k = "swap"          -> SwapAt(a, e.i)
    [] e.k = "transplant"    -> [a EXCEPT ![e.i] = b[e.i]]                       \* same position = same LSN, other log
    [] e.k = "transplant_tx" -> [j \in 1..Len(a) |-> IF a[j].tx = e.t THEN b[j] ELSE a[j]]
    [] e.k = "delete_tx"     -> SelectSeq(a, LAMBDA r : r.tx # e.t)

Class(a, sc) ==
  IF ~sc.ok THEN "err"
  ELSE IF IsPrefix(sc.h, Durable(a)) THEN "prefix" ELSE "nonprefix"
=============================================================================
