SPECIFICATION MC_Spec
CONSTANTS
  Worldlines <- MC_Worldlines
  Heads <- MC_Heads
  WlOf <- MC_WlOf
  HeadRank <- MC_HeadRank
  DefaultOf <- MC_DefaultOf
  NamedOf <- MC_NamedOf
  Intents = {}
  KindOf <- MC_KindOf
  BehOf <- MC_BehOf
  IdRank <- MC_IdRank
  None = None
  IntentSet = {"a1"}
  TicketedSet = {"a1"}
  Tickets = {"tA"}
  PolicyNames = {"b0"}
  MaxTicks = 2
  MaxPol = 0
  MaxFaults = 1
  MaxRestart = 0
  WithW2 = TRUE
  Export = TRUE
VIEW MC_View
INVARIANTS AtMostOncePerHead CommittedIsLog PendingIsSet CorrelationsSound FaultIndexesConsistent
PROPERTIES RetryChangesNothing IngestDisposition AdmittedLaw NothingLost
CHECK_DEADLOCK FALSE
