------------------------------ MODULE MC_C02 ------------------------------
(***************************************************************************)
(* C02 / C14 model: a tick's accepted rewrites are executed by W workers   *)
(* claiming (warp, shard) units from a shared counter; TLC explores every  *)
(* interleaving of Claim / Exec steps, hence every assignment of units to  *)
(* workers and every per-worker order the counter allows.                  *)
(* With honest programs (C02): the merged outcome equals the serial one.   *)
(* With a violator among them (C14): the tick fails and nothing is visible.*)
(* Every distinct final (scenario, claim script) is exported and replayed  *)
(* into the real execute_work_queue through the claim-script hook.         *)
(***************************************************************************)
EXTENDS ParallelExec, Json, IOUtils

CONSTANTS Wreq,          \* requested worker count (the engine caps it at the unit count)
          MaxDistinct,   \* candidates per tick
          PreNames, CandU, Variant, Export

VARIABLES pre, preName, cset,       \* scenario: pre-state and candidate set (fixed after Init)
          order, acc, units, nw,    \* drain order, admission, work units, effective worker count (fixed after Init)
          next,                     \* shared claim counter (0-based, as in the code)
          pc, cur, claimed, delta, poison
vars == <<pre, preName, cset, order, acc, units, nw, next, pc, cur, claimed, delta, poison>>

P(kind, a, b, e, ty, ty2, p) == [kind |-> kind, a |-> a, b |-> b, e |-> e, ty |-> ty, ty2 |-> ty2, p |-> p]
MC_Prog == <<
  P("SetAtom",     "S",  "S",  "e0", "tA", "tA", "p0"),   \* 1
  P("SetAtom",     "S",  "S",  "e0", "tA", "tA", "p1"),   \* 2
  P("CopyAtt",     "S",  "n0", "e0", "tA", "tA", "p0"),   \* 3
  P("AddEdge",     "S",  "n0", "e0", "tA", "tA", "p0"),   \* 4
  P("DelEdgeFrom", "S",  "S",  "e0", "tA", "tA", "p0"),   \* 5
  P("SetEdgeAtom", "S",  "S",  "e0", "tA", "tA", "p1"),   \* 6
  P("UpsertNode",  "n2", "n2", "e0", "tB", "tB", "p0"),   \* 7
  P("RetypeByAtt", "S",  "S",  "e0", "tB", "tA", "p0"),   \* 8
  P("DelNodeIso",  "S",  "S",  "e0", "tA", "tA", "p0"),   \* 9
  P("AddEdge",     "n0", "S",  "e1", "tB", "tB", "p0"),   \* 10
  \* 11..34: four banks of six violator slots (same six programs; a fault or an omission is attached below)
  P("SetAtom",     "S",  "S",  "e0", "tA", "tA", "p1"),   \* 11
  P("CopyAtt",     "S",  "n0", "e0", "tA", "tA", "p0"),   \* 12
  P("AddEdge",     "S",  "n0", "e1", "tA", "tA", "p0"),   \* 13
  P("DelEdgeFrom", "S",  "S",  "e0", "tA", "tA", "p0"),   \* 14
  P("SetEdgeAtom", "S",  "S",  "e0", "tA", "tA", "p0"),   \* 15
  P("DelNodeIso",  "S",  "S",  "e0", "tA", "tA", "p0"),   \* 16
  P("SetAtom",     "S",  "S",  "e0", "tA", "tA", "p1"),   \* 17
  P("CopyAtt",     "S",  "n0", "e0", "tA", "tA", "p0"),   \* 18
  P("AddEdge",     "S",  "n0", "e1", "tA", "tA", "p0"),   \* 19
  P("DelEdgeFrom", "S",  "S",  "e0", "tA", "tA", "p0"),   \* 20
  P("SetEdgeAtom", "S",  "S",  "e0", "tA", "tA", "p0"),   \* 21
  P("DelNodeIso",  "S",  "S",  "e0", "tA", "tA", "p0"),   \* 22
  P("SetAtom",     "S",  "S",  "e0", "tA", "tA", "p1"),   \* 23
  P("CopyAtt",     "S",  "n0", "e0", "tA", "tA", "p0"),   \* 24
  P("AddEdge",     "S",  "n0", "e1", "tA", "tA", "p0"),   \* 25
  P("DelEdgeFrom", "S",  "S",  "e0", "tA", "tA", "p0"),   \* 26
  P("SetEdgeAtom", "S",  "S",  "e0", "tA", "tA", "p0"),   \* 27
  P("DelNodeIso",  "S",  "S",  "e0", "tA", "tA", "p0"),   \* 28
  P("SetAtom",     "S",  "S",  "e0", "tA", "tA", "p1"),   \* 29
  P("CopyAtt",     "S",  "n0", "e0", "tA", "tA", "p0"),   \* 30
  P("AddEdge",     "S",  "n0", "e1", "tA", "tA", "p0"),   \* 31
  P("DelEdgeFrom", "S",  "S",  "e0", "tA", "tA", "p0"),   \* 32
  P("SetEdgeAtom", "S",  "S",  "e0", "tA", "tA", "p0"),   \* 33
  P("DelNodeIso",  "S",  "S",  "e0", "tA", "tA", "p0"),   \* 34
  P("UpsertNode",  "S",  "S",  "e0", "tA", "tA", "p0"),   \* 35  (+ read of att(n2) inside a descended instance)
  P("SetAtom",     "S",  "S",  "e0", "tA", "tA", "p0")    \* 36  (+ OpenPortal/RequireExisting on its own declared slot)
>>
NoF == [k \in 1..36 |-> ""]
\* bank 1 (11..16): undeclared reads + panic; bank 2 (17..22): undeclared writes / cross-instance / instance op;
\* bank 3 (23..28): adjacency read, portal, edge-from write, instance delete, two omissions; bank 4 (29..34): one omitted class each
AllFault == [NoF EXCEPT ![11] = "read_node", ![12] = "read_natt", ![13] = "write_node", ![14] = "read_eatt", ![15] = "read_edge", ![16] = "panic",
                        ![17] = "write_att", ![18] = "cross_warp", ![19] = "write_edge", ![20] = "del_edge", ![21] = "instance_upsert", ![22] = "del_node",
                        ![23] = "read_adj", ![24] = "open_portal", ![25] = "write_edge_from", ![26] = "instance_delete",
                        ![35] = "read_natt_n2", ![36] = "open_portal_existing"]
AllOmit  == [NoF EXCEPT ![27] = "a_write", ![28] = "a_read",
                        ![29] = "a_read", ![30] = "a_write", ![31] = "n_write", ![32] = "e_write", ![33] = "e_read", ![34] = "n_read"]
MC_Fault == AllFault
MC_Omit == AllOmit

IdRanks    == JsonDeserialize(IOEnv.VERIF_IDS)
MC_RankW   == [w \in Warps |-> IdRanks.warps[w]]
MC_RankN   == [n \in Nodes |-> IdRanks.nodes[n]]
MC_RankE   == [e \in Edges |-> IdRanks.edges[e]]
MC_Shard   == [n \in Nodes |-> IdRanks.shard[n]]
CandName(c) == ToString(c[1]) \o "|" \o c[2] \o "|" \o c[3]
MC_KeyRank == [c \in CandU |-> IdRanks.scope[CandName(c)]]

Honest == {<<1, "w0", "n1">>, <<3, "w0", "n1">>, <<4, "w0", "n2">>, <<5, "w0", "n1">>, <<6, "w0", "n0">>,
           <<7, "w0", "n0">>, <<8, "w0", "n1">>, <<10, "w0", "n1">>, <<1, "w1", "n0">>, <<4, "w1", "n1">>, <<2, "w0", "n2">>}
ViolatorSlots == {<<11, "w0", "n2">>, <<12, "w0", "n1">>, <<13, "w0", "n2">>, <<14, "w0", "n1">>, <<15, "w0", "n0">>,
                  <<16, "w0", "n2">>, <<11, "w1", "n1">>}
Banks == IF Variant = 0 THEN {} ELSE IF Variant = 5 THEN {0, 1, 2, 3} ELSE {Variant - 1}
Violators == {<<c[1] + 6 * bk, c[2], c[3]>> : c \in ViolatorSlots, bk \in Banks}
             \cup (IF Variant = 5 THEN {<<35, "w1", "n0">>, <<35, "w1", "n1">>, <<36, "w0", "n2">>} ELSE {})
MC_CandU == IF Variant = 0 THEN Honest ELSE Honest \cup Violators

Build(ops) == ApplyOps(EmptyState, ops).s
Base == <<OpUpsertInst("w0", "n0", None), OpUpsertNode("w0", "n0", "tA"), OpUpsertNode("w0", "n1", "tA")>>
PreState(name) ==
  CASE name = "edges"  -> Build(Base \o <<OpUpsertNode("w0", "n2", "tA"),
                                          OpUpsertEdge("w0", "e0", "n1", "n0", "tA"),
                                          OpSetAtt(EAtt("w0", "e0"), Atom("p0")),
                                          OpSetAtt(NAtt("w0", "n1"), Atom("p0"))>>)
    [] name = "portal" -> Build(Base \o <<OpUpsertNode("w0", "n2", "tB"),
                                          OpOpenPortal(NAtt("w0", "n2"), "w1", "n0", <<"empty", "tA">>),
                                          OpUpsertNode("w1", "n1", "tB"),
                                          OpUpsertEdge("w1", "e0", "n0", "n1", "tA")>>)

\* ---- the tick up to the point where workers start ----------------------------
RECURSIVE SubsetsUpTo(_, _)
SubsetsUpTo(C, k) == IF k = 0 THEN {{}} ELSE LET R == SubsetsUpTo(C, k - 1) IN R \cup {S \cup {x} : S \in R, x \in C}
OrderOf(S) == DrainOrder(S)
AccOf(o, st) == GreedyAdmit([k \in 1..Len(o) |-> SchedFP(o[k], st)])
AcceptedOf(o, a) == SelectSeq(o, LAMBDA c : \E k \in 1..Len(o) : o[k] = c /\ a[k])
WOf(u) == IF Len(u) = 0 THEN 1 ELSE IF Wreq < Len(u) THEN Wreq ELSE Len(u)
Order == order
Acc == acc
Units == units
W == nw
AcceptedSeq == AcceptedOf(order, acc)
Workers == 1..nw

Init == /\ preName \in PreNames /\ pre = PreState(preName)
        /\ cset \in (SubsetsUpTo({c \in CandU : Matches(c, pre)}, MaxDistinct) \ {{}})
        /\ order = OrderOf(cset) /\ acc = AccOf(order, pre)
        /\ units = UnitsOf(AcceptedOf(order, acc)) /\ nw = WOf(units)
        /\ next = 0
        /\ pc = [w \in 1..Wreq |-> "idle"] /\ cur = [w \in 1..Wreq |-> 0]
        /\ claimed = [w \in 1..Wreq |-> <<>>] /\ delta = [w \in 1..Wreq |-> <<>>]
        /\ poison = [w \in 1..Wreq |-> None]

\* next_unit.fetch_add(1): the only access to shared state
Claim(w) ==
  /\ w \in Workers /\ pc[w] = "idle"
  /\ next' = next + 1
  /\ IF next < Len(Units)
     THEN /\ cur' = [cur EXCEPT ![w] = next + 1]
          /\ claimed' = [claimed EXCEPT ![w] = Append(@, next)]
          /\ pc' = [pc EXCEPT ![w] = "exec"]
     ELSE /\ pc' = [pc EXCEPT ![w] = "done"] /\ UNCHANGED <<cur, claimed>>
  /\ UNCHANGED <<pre, preName, cset, order, acc, units, nw, delta, poison>>

\* the worker executes its unit against the immutable pre-state into its private delta
Exec(w) ==
  /\ w \in Workers /\ pc[w] = "exec"
  /\ LET r == RunUnit(Units[cur[w]], 1, pre, delta[w])
     IN /\ delta' = [delta EXCEPT ![w] = r.delta]
        /\ poison' = [poison EXCEPT ![w] = r.poison]
        /\ pc' = [pc EXCEPT ![w] = IF r.poison = None THEN "idle" ELSE "done"]   \* a poisoned worker returns at once
  /\ UNCHANGED <<pre, preName, cset, order, acc, units, nw, next, cur, claimed>>

Next == \E w \in Workers : Claim(w) \/ Exec(w)
Spec == Init /\ [][Next]_vars

AllDone == \A w \in Workers : pc[w] = "done"
Poisoned == {w \in Workers : poison[w] # None}
FirstPoison == IF Poisoned = {} THEN None ELSE poison[CHOOSE w \in Poisoned : \A v \in Poisoned : w <= v]
MergedOps == FlattenOps([w \in Workers |-> delta[w]])
Outcome ==
  IF Poisoned # {} THEN [fail |-> TRUE, post |-> pre]
  ELSE IF ~MergeOk(MergedOps) THEN [fail |-> TRUE, post |-> pre]
  ELSE LET r == ApplyOps(pre, CanonSeq(MergedOps)) IN [fail |-> ~r.ok, post |-> IF r.ok THEN r.s ELSE pre]

\* serial reference: one worker, units in order
SerialOutcome ==
  LET RECURSIVE go(_, _)
      go(u, d) == IF u > Len(Units) THEN [poison |-> None, delta |-> d]
                  ELSE LET r == RunUnit(Units[u], 1, pre, d)
                       IN IF r.poison # None THEN r ELSE go(u + 1, r.delta)
  IN go(1, <<>>)
HasViolator == \E k \in 1..Len(AcceptedSeq) : ItemOutcome(AcceptedSeq[k], pre).poison # None

\* ---- properties ---------------------------------------------------------------
\* C02: with honest rewrites every schedule merges to the serial result
Inv_ScheduleInvisible ==
  (AllDone /\ ~HasViolator) =>
     /\ Poisoned = {}
     /\ {MergedOps} = {{SerialOutcome.delta[k] : k \in 1..Len(SerialOutcome.delta)}}
     /\ Outcome.post = (IF MergeOk(MergedOps) THEN ApplyOps(pre, CanonSeq(MergedOps)).s ELSE pre)
\* every unit is claimed by exactly one worker, each worker's claims increase
Inv_ClaimsPartition ==
  /\ \A w \in Workers : \A k \in 1..(Len(claimed[w]) - 1) : claimed[w][k] < claimed[w][k + 1]
  /\ \A w, v \in Workers : w # v => {claimed[w][k] : k \in 1..Len(claimed[w])} \cap {claimed[v][k] : k \in 1..Len(claimed[v])} = {}
  /\ (AllDone /\ Poisoned = {}) => UNION {{claimed[w][k] : k \in 1..Len(claimed[w])} : w \in Workers} = 0..(Len(Units) - 1)
\* C14: an accepted violator always poisons the tick; nothing becomes visible; honest code is never flagged
Inv_ViolatorNeverCommits == (AllDone /\ HasViolator) => (Poisoned # {} /\ Outcome.fail /\ Outcome.post = pre)
Inv_HonestNeverFlagged == (AllDone /\ ~HasViolator) => Poisoned = {}
\* private deltas: a worker's delta only ever contains ops of units it claimed
Inv_DeltaPrivate == \A w \in Workers : \A k \in 1..Len(delta[w]) :
                       \E j \in 1..Len(claimed[w]) : \E c \in {Units[claimed[w][j] + 1][x] : x \in 1..Len(Units[claimed[w][j] + 1])} :
                          \E y \in 1..Len(ItemOutcome(c, pre).ops) : ItemOutcome(c, pre).ops[y] = delta[w][k]

\* ---- export -----------------------------------------------------------------
AttJson(v)  == IF v = None THEN [k |-> "none"] ELSE IF v[1] = "atom" THEN [k |-> "atom", p |-> v[2]] ELSE [k |-> "desc", w |-> v[2]]
KeyJson(k)  == [o |-> k[1], w |-> k[2], id |-> k[3]]
StateJson(s) ==
  [inst |-> {[w |-> w, root |-> s.inst[w].root,
              parent |-> IF s.inst[w].parent = None THEN [o |-> "none"] ELSE KeyJson(s.inst[w].parent)] : w \in DOMAIN s.inst},
   node |-> {[w |-> k[1], n |-> k[2], ty |-> s.node[k], att |-> AttJson(Get(s.natt, k))] : k \in DOMAIN s.node},
   edge |-> {[w |-> k[1], e |-> k[2], from |-> s.edge[k].from, to |-> s.edge[k].to, ty |-> s.edge[k].ty,
              att |-> AttJson(Get(s.eatt, k))] : k \in DOMAIN s.edge}]
CandJson(c) == [r |-> c[1], w |-> c[2], n |-> c[3]]
CaseJson ==
  [pre |-> StateJson(pre), preName |-> preName,
   seq |-> [k \in 1..Len(Order) |-> CandJson(Order[k])],
   acc |-> Acc,
   units |-> [u \in 1..Len(Units) |-> [k \in 1..Len(Units[u]) |-> CandJson(Units[u][k])]],
   workers |-> W, wreq |-> Wreq,
   script |-> [w \in 1..W |-> claimed[w]],
   fail |-> Outcome.fail,
   poison |-> IF FirstPoison = None THEN <<"none">> ELSE FirstPoison,
   post |-> StateJson(Outcome.post),
   descent |-> [w \in DOMAIN pre.inst |-> {KeyJson(k) : k \in DescentOf(pre, w)}],
   prog |-> [k \in 1..Len(Prog) |-> [Prog[k] EXCEPT !.p = Prog[k].p] @@ [fault |-> Fault[k], omit |-> Omit[k]]]]
Inv_Export == (Export /\ AllDone) => PrintT(<<"CASE", ToJson(CaseJson)>>)
=============================================================================
