//! C01 (and the tick-level facets of C02/C04): replay of model-enumerated enqueue
//! behaviours into a real `Engine`.
//!
//! Per behaviour and per engine configuration (scheduler kind x worker count) the harness
//! applies the candidates in the given order (with repetitions), commits, and compares the
//! receipt (drain order, dispositions, blockers), the projected post-state and the patch ops
//! with the model's prediction; it also replays the emitted patch onto the pre-state.
//! The hashes of every configuration are returned so the runner can require bit-identical
//! outcomes across all behaviours of one (pre-state, candidate set) group.

use serde::Deserialize;
use serde_json::{json, Value};
use warp_core::{ApplyResult, Engine, EngineBuilder, SchedulerKind, TickReceiptDisposition, WarpState};

use crate::absgraph::{self, OpJ, StateJ};
use crate::ids::{self, Inverse};
use crate::programs::{self, Program};
use crate::util;

#[derive(Deserialize, Clone, Debug, PartialEq, Eq)]
pub struct CandJ {
    pub r: usize,
    pub w: String,
    pub n: String,
}

#[derive(Deserialize)]
struct Case {
    pre: StateJ,
    #[serde(rename = "preName")]
    pre_name: String,
    seq: Vec<CandJ>,
    order: Vec<CandJ>,
    acc: Vec<bool>,
    blk: Vec<Vec<u32>>,
    ok: bool,
    post: StateJ,
    patch: Vec<OpJ>,
    prog: Vec<Program>,
    #[serde(default)]
    descent: std::collections::BTreeMap<String, Vec<absgraph::KeyJ>>,
}

pub type Descent = std::collections::BTreeMap<String, Vec<absgraph::KeyJ>>;

pub fn descent_stack(descent: &Descent, w: &str) -> Vec<warp_core::AttachmentKey> {
    descent.get(w).map(|ks| ks.iter().filter_map(absgraph::key_to_real).collect()).unwrap_or_default()
}

pub fn build_engine(pre: &WarpState, nrules: usize, kind: SchedulerKind, workers: usize) -> Result<Engine, String> {
    let root = absgraph::nkey("w0", "n0");
    let mut engine = EngineBuilder::from_state(pre.clone(), root)
        .scheduler(kind)
        .workers(workers)
        .build()
        .map_err(|e| format!("engine build: {e:?}"))?;
    for r in 1..=nrules {
        engine.register_rule(programs::rule(r)).map_err(|e| format!("register rule {r}: {e:?}"))?;
    }
    Ok(engine)
}

pub struct TickOut {
    pub hashes: Value,
    pub engine: Engine,
    pub receipt: warp_core::TickReceipt,
    pub patch: warp_core::WarpTickPatchV1,
}

/// Applies `seq` and commits; Err(..) carries (kind, detail) of a failed commit.
pub fn run_tick(pre: &WarpState, nrules: usize, seq: &[CandJ], descent: &Descent, kind: SchedulerKind, workers: usize) -> Result<Result<TickOut, String>, String> {
    let mut engine = build_engine(pre, nrules, kind, workers)?;
    let tx = engine.begin();
    for c in seq {
        let res = engine
            .apply_in_warp(tx, ids::warp(&c.w), programs::rule_name(c.r), &ids::node(&c.n), &descent_stack(descent, &c.w))
            .map_err(|e| format!("apply failed: {e:?}"))?;
        if !matches!(res, ApplyResult::Applied) {
            return Err(format!("candidate {c:?} did not match in the real engine"));
        }
    }
    let committed = util::catch(|| engine.commit_with_receipt(tx));
    match committed {
        Err(p) => Ok(Err(format!("panic: {p}"))),
        Ok(Err(e)) => Ok(Err(format!("error: {e:?}"))),
        Ok(Ok((snap, receipt, patch))) => {
            let hashes = json!({
                "state_root": util::hex32(&snap.state_root), "commit": util::hex32(&snap.hash),
                "patch": util::hex32(&snap.patch_digest), "plan": util::hex32(&snap.plan_digest),
                "decision": util::hex32(&snap.decision_digest), "rewrites": util::hex32(&snap.rewrites_digest),
                "receipt": util::hex32(&receipt.digest()),
            });
            Ok(Ok(TickOut { hashes, engine, receipt, patch }))
        }
    }
}

pub fn check_case(inv: &Inverse, v: &Value) -> Value {
    let case: Case = match serde_json::from_value(v.clone()) {
        Ok(c) => c,
        Err(e) => return json!({"verdict":"tool_error","detail":format!("case parse: {e}")}),
    };
    programs::install(&case.prog);
    let pre = absgraph::build_state(&case.pre);
    let want_post = case.post.clone().normalized();
    let mut set: Vec<String> = case.seq.iter().map(|c| format!("{}|{}|{}", c.r, c.w, c.n)).collect();
    set.sort();
    set.dedup();
    let group = format!("{}#{}", case.pre_name, set.join(","));
    let mut drift: Vec<String> = Vec::new();
    let mut all_hashes = serde_json::Map::new();
    for (kind, kname) in [(SchedulerKind::Radix, "radix"), (SchedulerKind::Legacy, "legacy")] {
        for workers in [1usize, 4] {
            let cfg = format!("{kname}/{workers}");
            let out = match run_tick(&pre, case.prog.len(), &case.seq, &case.descent, kind, workers) {
                Err(e) => return json!({"verdict":"tool_error","detail":format!("{cfg}: {e}")}),
                Ok(o) => o,
            };
            let out = match out {
                Err(e) => {
                    if case.ok {
                        // every candidate is honest and applicable: the tick must commit
                        // (post = pre + accepted effects); a failure is a violation, not drift
                        return json!({"verdict":"violation","kind":"honest_tick_failed","group":group,
                            "detail":format!("{cfg}: oracle predicts a committed tick, real commit failed: {}", &e[..e.len().min(300)])});
                    }
                    all_hashes.insert(cfg, json!({"failed": e.split(':').next().unwrap_or("") }));
                    continue;
                }
                Ok(o) => o,
            };
            if !case.ok {
                drift.push(format!("{cfg}: model predicted a failing apply, real commit succeeded"));
            }
            // --- receipt: drain order, dispositions, blockers (decided against the model = the oracle)
            let entries = out.receipt.entries();
            if entries.len() != case.order.len() {
                return json!({"verdict":"violation","kind":"receipt_length","group":group,
                    "detail":format!("{cfg}: {} receipt entries for {} distinct candidates", entries.len(), case.order.len())});
            }
            for (i, (e, c)) in entries.iter().zip(case.order.iter()).enumerate() {
                let same = e.rule_id == programs::rule_id(c.r) && e.scope == absgraph::nkey(&c.w, &c.n);
                if !same {
                    return json!({"verdict":"violation","kind":"drain_order","group":group,
                        "detail":format!("{cfg}: receipt entry {i} is not candidate {c:?}")});
                }
                let accepted = matches!(e.disposition, TickReceiptDisposition::Applied);
                if accepted != case.acc[i] {
                    return json!({"verdict":"violation","kind":"admission_not_canonical","group":group,
                        "detail":format!("{cfg}: entry {i} accepted={accepted}, oracle says {}", case.acc[i])});
                }
                let mut got: Vec<u32> = out.receipt.blocked_by(i).to_vec();
                got.sort();
                let mut want: Vec<u32> = case.blk[i].iter().map(|p| p - 1).collect();
                want.sort();
                if got != want {
                    return json!({"verdict":"violation","kind":"blockers_not_exact","group":group,
                        "detail":format!("{cfg}: entry {i} blocked_by {got:?}, oracle says {want:?}")});
                }
            }
            // --- post-state = pre + effects of accepted rewrites evaluated at pre (the model's post)
            match absgraph::project_state(inv, out.engine.state()) {
                Ok(p) if p == want_post => {}
                Ok(p) => {
                    return json!({"verdict":"violation","kind":"post_state_not_oracle","group":group,
                        "detail":format!("{cfg}: got {} want {}", serde_json::to_string(&p).unwrap_or_default(),
                            serde_json::to_string(&want_post).unwrap_or_default())})
                }
                Err(e) => return json!({"verdict":"violation","kind":"post_state_malformed","group":group,"detail":format!("{cfg}: {e}")}),
            }
            // --- patch ops vs model Diff (drift only) and patch replay (C04 on a real tick)
            let real_ops: Result<Vec<OpJ>, String> = out.patch.ops().iter().map(|o| absgraph::op_to_abs(inv, o)).collect();
            match real_ops {
                Ok(ops) if ops == case.patch => {}
                other => drift.push(format!("{cfg}: patch ops differ from model Diff: {other:?}")),
            }
            let mut replayed = pre.clone();
            match util::catch(|| out.patch.apply_to_state(&mut replayed)) {
                Ok(Ok(())) => {
                    let root = absgraph::nkey("w0", "n0");
                    let rr = warp_core::verif::legacy_state_root(&replayed, &root);
                    let er = warp_core::verif::legacy_state_root(out.engine.state(), &root);
                    let same = absgraph::project_state(inv, &replayed).ok() == Some(want_post.clone());
                    if !same || rr != er {
                        return json!({"verdict":"violation","kind":"patch_replay_differs","group":group,
                            "detail":format!("{cfg}: patch.apply_to_state(pre) != post (projection equal: {same}, roots equal: {})", rr == er)});
                    }
                }
                other => {
                    return json!({"verdict":"violation","kind":"patch_replay_failed","group":group,
                        "detail":format!("{cfg}: {other:?}")})
                }
            }
            all_hashes.insert(cfg, out.hashes);
        }
    }
    json!({"verdict":"ok","group":group,"hashes":all_hashes,"drift":drift,
           "rejected": case.acc.iter().filter(|a| !**a).count()})
}

pub fn run(args: &[String]) -> i32 {
    if args.len() < 2 {
        eprintln!("usage: echo-verif c01 <cases.ndjson> <results.ndjson>");
        return 2;
    }
    let inv = Inverse::new();
    let mut out = util::Out::create(&args[1]);
    let (mut n, mut viol, mut tool) = (0u64, 0u64, 0u64);
    for (i, v) in util::read_lines(&args[0]) {
        let mut r = check_case(&inv, &v);
        r["i"] = json!(i);
        n += 1;
        match r["verdict"].as_str() {
            Some("violation") => viol += 1,
            Some("tool_error") => tool += 1,
            _ => {}
        }
        out.line(&r);
    }
    out.finish();
    println!("{}", json!({"cases":n,"violations":viol,"tool_errors":tool}));
    if tool > 0 { 2 } else { 0 }
}
