----------------------- MODULE ProvenanceCursorTrace -----------------------
(***************************************************************************)
(* Trace validation of the playback cursor's decisions on long random      *)
(* histories (harness/src/c07.rs: run_long).  The trace records, for a     *)
(* session on real worldlines, every checkpoint insertion, fork, fresh     *)
(* cursor, seek_to and step, with what the real code did: resulting tick,  *)
(* result / error class, resulting mode, and the path observed through a   *)
(* recording ProvenanceStore (restored from checkpoint c / from U0 /       *)
(* advanced from the cursor's own state).  The spec replays the decisions  *)
(* of Provenance.tla (SeekDecision, AbsSeek, StepResultWith, the fork      *)
(* checkpoint filter) on the abstract store (history length, checkpoint    *)
(* ticks) and accepts the trace iff every logged outcome is the model's.   *)
(* Materialized values are decided in the harness against the live record  *)
(* and the U0 replay; here only the control decisions are validated.       *)
(***************************************************************************)
EXTENDS Provenance, Json, IOUtils

Rec == ndJsonDeserialize(IOEnv.TRACE)

VARIABLES l,       \* next trace line
          alen,    \* history length of the current worldline
          aticks,  \* its checkpoint ticks
          acur     \* abstract cursor [tick, pin, role, mode]
tvars == <<l, alen, aticks, acur, entries, ckpts, cur, last>>

TrSlots == {"s"}
TrU0 == [k \in TrSlots |-> "none"]

SeqSet(s) == {s[i] : i \in 1..Len(s)}
Fresh(pin, role) == [tick |-> 0, pin |-> pin, role |-> role, mode |-> Paused]
IsEvent(e) == l <= Len(Rec) /\ Rec[l].event = e /\ l' = l + 1
Frozen == UNCHANGED <<entries, ckpts, cur, last>>

Init == /\ l = 1 /\ alen = 0 /\ aticks = {} /\ acur = Fresh(0, "Reader")
        /\ entries = [w \in {} |-> <<>>] /\ ckpts = [w \in {} |-> {}] /\ cur = Fresh(0, "Reader") /\ last = NoOutcome

TReset == /\ IsEvent("reset")
          /\ alen' = Rec[l].len /\ aticks' = SeqSet(Rec[l].ck) /\ acur' = Fresh(Rec[l].pin, Rec[l].role)
          /\ (Rec[l].new \/ (Rec[l].len = alen /\ SeqSet(Rec[l].ck) = aticks))   \* new run, or a fresh cursor: nothing changes in the store
          /\ Frozen

\* add_checkpoint accepted a checkpoint at tick t of the current worldline
TCkpt == /\ IsEvent("ckpt")
         /\ Rec[l].t <= alen
         /\ aticks' = aticks \cup {Rec[l].t}
         /\ UNCHANGED <<alen, acur>> /\ Frozen

\* does the logged outcome equal the model's outcome r ?
Matches(r, e) ==
  /\ r.cur.tick = e.tick
  /\ r.cur.mode = e.mode
  /\ r.out.res = e.res
  /\ (r.out.res = "err" => r.out.err = e.err)
  /\ ((r.out.res # "err" /\ r.out.path # "none") => r.out.path = e.path)
  /\ ((r.out.res # "err" /\ r.out.path \in {"ckpt", "advance"}) => r.out.from = e.from)

Seek2(c, t) == AbsSeek(alen, aticks, c, t)

TSeek == /\ IsEvent("seek")
         /\ LET r == Seek2(acur, Rec[l].target) IN Matches(r, Rec[l]) /\ acur' = r.cur
         /\ UNCHANGED <<alen, aticks>> /\ Frozen

\* cursor.mode = m (as logged); cursor.step(..)
TStep == /\ IsEvent("step")
         /\ LET r == StepResultWith([acur EXCEPT !.mode = Rec[l].m], Seek2) IN Matches(r, Rec[l]) /\ acur' = r.cur
         /\ UNCHANGED <<alen, aticks>> /\ Frozen

\* fork(source, at, child): the child sees exactly the source's checkpoints at or below at + 1; the
\* session continues on the child (possibly extended by divergent commits) with a fresh cursor
TFork == /\ IsEvent("fork")
         /\ Rec[l].at < alen
         /\ SeqSet(Rec[l].src_ck) = aticks
         /\ SeqSet(Rec[l].ck) = {c \in aticks : c <= Rec[l].at + 1}
         /\ Rec[l].len >= Rec[l].at + 1
         /\ alen' = Rec[l].len /\ aticks' = SeqSet(Rec[l].ck) /\ acur' = Fresh(Rec[l].pin, Rec[l].role)
         /\ Frozen

Next == TReset \/ TCkpt \/ TSeek \/ TStep \/ TFork
Spec == Init /\ [][Next]_tvars

Accepted ==
  LET d == TLCGet("stats").diameter
  IN IF d - 1 = Len(Rec) THEN TRUE
     ELSE Print(<<"REJECTED_AT", d, IF d <= Len(Rec) THEN Rec[d].event ELSE "eof">>, FALSE)
=============================================================================
