SPECIFICATION Spec
CONSTANTS
  Warps = {"w0", "w1"}
  Nodes = {"n0", "n1"}
  Edges = {"e0"}
  Types = {"tA", "tB"}
  Atoms = {"p0", "p2"}
  RankW <- MC_RankW
  RankN <- MC_RankN
  RankE <- MC_RankE
  RootWarp = "w0"
  RootNode = "n0"
  ChildWarps = {"w1"}
  FreeWarps = {"w1"}
  EdgeTypes = {"tA"}
  NodeTypes = {"tA", "tB"}
  RootNodeChoices = {"n0", "n1"}
  Export = TRUE
  None = None
INVARIANTS Inv_WellFormed Inv_TwoCanonsAgree Inv_ReachClosed Inv_Export
PROPERTIES UnreachableEditKeepsCanon
CHECK_DEADLOCK FALSE
