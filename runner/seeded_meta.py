#!/usr/bin/env python3
"""Write seeded/<id>/meta.json for every stored seeded change from what is on disk:
notes.md (the breaker's description), runs.log (our checks against it) and confirm_summary.txt
(re-confirmation in a scratch worktree). Hand-written meta.json files are kept; only the
machine-derived fields `confirmed` and `check_runs` are refreshed."""
import json, os, re, glob

VERIF = os.path.dirname(os.path.dirname(os.path.abspath(__file__)))
SEEDED = os.path.join(VERIF, "seeded")


def notes_fields(path):
    if not os.path.exists(path):
        return "", ""
    txt = open(path).read()
    lines = [l for l in txt.splitlines() if l.strip()]
    title = re.sub(r"^#+\s*", "", lines[0]).strip() if lines else ""
    paras = re.split(r"\n\s*\n", txt)
    needs = ""
    for p in paras:
        if re.search(r"needs?\b[^\n]{0,40}(manifest|:)", p, re.I) or re.match(r"\W*needs", p.strip(), re.I):
            needs = " ".join(p.split())
            break
    what = ""
    for p in paras[1:]:
        q = " ".join(p.split())
        if q and not q.startswith("#"):
            what = q
            break
    return (title + (" -- " + what if what else ""))[:900], needs[:1200]


def runs(path):
    out = []
    if not os.path.exists(path):
        return out
    valid_from = 0
    lines = open(path).read().splitlines()
    for i, l in enumerate(lines):
        if l.startswith("---"):
            valid_from = i + 1
    for l in lines[valid_from:]:
        m = re.match(r"(\S+) (C\d+) rc=(\d+) (\d+) violation lines; first:\s*(.*)", l)
        if m:
            out.append({"when": m.group(1), "check": m.group(2), "tier": "quick", "exit": int(m.group(3)),
                        "violation_lines": int(m.group(4)), "first_key": m.group(5)[:160]})
    return out


def main():
    conf = {}
    p = os.path.join(SEEDED, "confirm_summary.txt")
    if os.path.exists(p):
        for l in open(p):
            parts = l.split()
            if parts:
                conf[parts[0]] = " ".join(parts[1:])
    for d in sorted(glob.glob(os.path.join(SEEDED, "c*_m*"))):
        mid = os.path.basename(d)
        mp = os.path.join(d, "meta.json")
        meta = json.load(open(mp)) if os.path.exists(mp) else {}
        summary, needs = notes_fields(os.path.join(d, "notes.md"))
        meta.setdefault("property", mid.split("_")[0].upper())
        meta.setdefault("summary", summary)
        meta.setdefault("needs", needs)
        meta.setdefault("ran", "scratch worktree /tmp/mut_%s at /repo HEAD + patch.diff; scratch copy of /verif/harness with its "
                               "path dependencies pointed at that worktree (runner/mutant_run.sh); ./check <ID> --tier quick" % mid.split("_")[0])
        rs = runs(os.path.join(d, "runs.log"))
        meta["check_runs"] = rs
        last = {}
        for r in rs:
            last[r["check"]] = r
        caught = sorted(c for c, r in last.items() if r["exit"] == 1)
        missed = sorted(c for c, r in last.items() if r["exit"] == 0)
        broken = sorted(c for c, r in last.items() if r["exit"] not in (0, 1))
        meta["caught_by_latest_run"] = caught
        meta["passed_latest_run"] = missed
        if broken:
            meta["tool_trouble_latest_run"] = broken
        if mid in conf:
            meta["confirmed"] = conf[mid] + " (runner/confirm_mutants.sh: demo passes on HEAD, fails with the patch; warp-core suite with the patch, failures other than the demo itself)"
        json.dump(meta, open(mp, "w"), indent=1)
        print(mid, "caught:", caught, "passed:", missed, "trouble:", broken)


if __name__ == "__main__":
    main()
