------------------------------ MODULE MC_C08l ------------------------------
(***************************************************************************)
(* C08, legacy-inbox leg: Inbox.tla explored in two modes.                 *)
(*                                                                         *)
(* Mode "graph": ALL interleavings of ingest_intent / ingest_inbox_event   *)
(*   (unbounded retries), begin, dispatch_next_intent, apply               *)
(*   sys/dispatch_inbox, commit, abort; ingests may land inside an open    *)
(*   transaction (between begin, dispatch and commit).  History variables  *)
(*   are hidden by VIEW (the arrival order of the pending edges is NOT     *)
(*   hidden), so the state graph is finite without bounding retries.       *)
(*   Every TRANSITION is exported with a witness path to its source state. *)
(*                                                                         *)
(* Mode "beh": complete behaviours (no VIEW): every arrival order of the   *)
(*   intent set, with up to MaxRetry retries (of pending or of already     *)
(*   consumed intents, through either API) placed anywhere, interleaved    *)
(*   with up to MaxTicks transactions.  Each maximal behaviour is exported *)
(*   with the predicted result of EVERY call, the predicted consumed order *)
(*   and the abstract key of every committed tick; the runner demands      *)
(*   equal real hashes for equal keys across all behaviours.               *)
(*                                                                         *)
(* The canonical order is the REAL one: the byte order of the real intent  *)
(* ids and of the real handler rule ids comes from the harness             *)
(* (`echo-verif c08l-ranks`, env VERIF_C08L_RANKS).                        *)
(***************************************************************************)
EXTENDS Inbox, Json, IOUtils

CONSTANTS IntentSet,     \* subset of the intent universe below
          EventSet,      \* intents that may also arrive through ingest_inbox_event
          SeqNos,        \* `seq` arguments tried for ingest_inbox_event
          Mode,          \* "graph" | "beh"
          MidTx,         \* ingest calls may land inside an open transaction
          UseDrainAll,   \* sys/dispatch_inbox is part of the alphabet
          MaxRetry, MaxTx, MaxAbort, MaxDrainAll,     \* bounds (beh mode only)
          Export

VARIABLES hist,          \* calls so far (graph mode: witness path)
          obs,           \* beh mode: <<result, projection>> after every call
          retries, aborts, drains,
          txDid,         \* a dispatch / drain-all call was made in the open transaction
          dispatched,    \* some dispatch / drain-all call has been made
          late           \* an intent was newly accepted after the first dispatch, drain-all was used, or a tick dispatched nothing:
                         \* the behaviour is not a plain "ingest the set, then drain it" run
gvars == <<hist, obs, retries, aborts, drains, txDid, dispatched, late>>
allvars == <<vars, gvars>>

\* ---- universe (interpreted identically by harness/src/c08l.rs) ---------------------------------
\* tag = which handlers match the bytes: a = cmd/verif-inbox-a, b = cmd/verif-inbox-b; "E" is the empty byte string
Universe == {"A1", "A2", "B1", "AB1", "N1", "E"}
TagT == [i \in Universe |-> CASE i \in {"A1", "A2"} -> {"a"} [] i = "B1" -> {"b"} [] i = "AB1" -> {"a", "b"} [] OTHER -> {}]
MC_Handlers == {"a", "b"}
MC_HMatches(h, i) == h \in TagT[i]
IdRanks == JsonDeserialize(IOEnv.VERIF_C08L_RANKS)
IntentRankT == [i \in Universe |-> IdRanks.intents[i]]
HandlerRankT == [h \in MC_Handlers |-> IdRanks.handlers[h]]
MC_IdRank(i) == IntentRankT[i]
MC_HandlerRank(h) == HandlerRankT[h]

\* ---- export -------------------------------------------------------------------------------------
SetJson(S) == SortByRank(S)
OpI(i, api, s) == [a |-> "ingest", i |-> i, api |-> api, seq |-> s]
AccJson(a) == [k \in 1..Len(a) |-> [h |-> a[k][1], i |-> a[k][2]]]
RootJson(r) == [st |-> r.structural, p |-> SetJson(r.pending), a |-> AccJson(r.acc)]
TickJson(t) == [root |-> RootJson(t.root), ack |-> SetJson(t.ack),
                cmd |-> SetJson({c[2] : c \in t.cmd}), h |-> {c[1] : c \in t.cmd},
                drain |-> IF t.drain = None THEN [on |-> FALSE, s |-> <<>>] ELSE [on |-> TRUE, s |-> SetJson(t.drain)]]
Proj ==
  [pending |-> SetJson(Pending), arrival |-> bucket, ledger |-> SetJson(ledger), dropped |-> SetJson(dropped),
   consumed |-> consumed, acc |-> AccJson(acc), log |-> [k \in 1..Len(log) |-> [seq |-> log[k][1], i |-> log[k][2]]],
   fresh |-> IsFresh, count |-> PendingCount, nticks |-> Len(ticks), open |-> (tx # None), root |-> RootJson(RootKey)]
Chain == [k \in 1..Len(ticks) |-> TickJson(ticks[k])]
\* per-call observation (the full projection is exported once per case, for the last state)
SlimRes(r) == [d |-> r.disp, i |-> r.i, h |-> r.h, ok |-> r.ok]
SlimProj == [p |-> SetJson(Pending), f |-> IsFresh, l |-> Len(log), t |-> Len(ticks)]

Emit(op) ==
  /\ hist' = Append(hist, op)
  /\ obs' = (IF Mode = "beh" THEN Append(obs, [r |-> SlimRes(last'), s |-> SlimProj']) ELSE obs)
  /\ ((Export /\ Mode = "graph") =>
        PrintT(<<"CASE", ToJson([mode |-> "graph", path |-> hist', obs |-> <<[r |-> SlimRes(last'), s |-> SlimProj']>>,
                                 final |-> Proj', chain |-> Chain'])>>))

\* ---- interleavings ------------------------------------------------------------------------------
Beh == Mode = "beh"
IngestOk(i) == (MidTx \/ tx = None) /\ (Beh => (i \notin ledger \/ retries < MaxRetry))
Bookkeep(i) ==
  /\ retries' = (IF i \in ledger THEN retries + 1 ELSE retries)
  /\ late' = (late \/ (dispatched /\ i \notin ledger))
  /\ UNCHANGED <<aborts, drains, txDid, dispatched>>
DoIngest == \E i \in IntentSet :
              /\ IngestOk(i)
              /\ Ingest(i, "intent", 0) /\ Emit(OpI(i, "intent", 0))
              /\ Bookkeep(i)
DoEvent  == \E i \in EventSet, s \in SeqNos :
              /\ IngestOk(i)
              /\ Ingest(i, "event", s) /\ Emit(OpI(i, "event", s))
              /\ Bookkeep(i)
DoBegin  == /\ (Beh => txCounter < MaxTx)
            /\ Begin /\ Emit([a |-> "begin"])
            /\ txDid' = FALSE /\ UNCHANGED <<retries, aborts, drains, dispatched, late>>
\* a second dispatch in one transaction is explored only where it re-selects the same intent (assumed contract)
DoDispatch == /\ tx # None
              /\ (IF Beh THEN ~txDid ELSE (tx.ack = {} \/ (bucket # <<>> /\ NextIntent \in tx.ack)))
              /\ tx.drain = None
              /\ DispatchNext /\ Emit([a |-> "dispatch"])
              /\ txDid' = TRUE /\ dispatched' = TRUE /\ UNCHANGED <<retries, aborts, drains, late>>
DoDrainAll == /\ UseDrainAll /\ tx # None /\ tx.ack = {}
              /\ (Beh => (drains < MaxDrainAll /\ ~txDid))
              /\ DrainAll /\ Emit([a |-> "drainall"])
              /\ drains' = drains + 1 /\ txDid' = TRUE /\ dispatched' = TRUE /\ late' = TRUE /\ UNCHANGED <<retries, aborts>>
\* beh mode commits only transactions in which something was dispatched or applied (empty ticks come from NoPending)
DoCommit == /\ tx # None
            /\ (Beh => txDid)
            /\ Commit /\ Emit([a |-> "commit"])
            /\ late' = (late \/ ~txDid)          \* a tick that dispatched nothing is not a drain step
            /\ UNCHANGED <<retries, aborts, drains, txDid, dispatched>>
DoAbort  == /\ tx # None
            /\ (Beh => (aborts < MaxAbort \/ tx.poisoned))
            /\ Abort /\ Emit([a |-> "abort"])
            /\ aborts' = aborts + 1 /\ UNCHANGED <<retries, drains, txDid, dispatched, late>>

MC_Init == /\ Init0 /\ hist = <<>> /\ obs = <<>> /\ retries = 0 /\ aborts = 0 /\ drains = 0 /\ txDid = FALSE
           /\ dispatched = FALSE /\ late = FALSE
MC_Next == DoIngest \/ DoEvent \/ DoBegin \/ DoDispatch \/ DoDrainAll \/ DoCommit \/ DoAbort
MC_Spec == MC_Init /\ [][MC_Next]_allvars

\* graph mode: history is not part of a state's identity; the ARRIVAL ORDER of the pending edges is
TxView == IF tx = None THEN <<"none">> ELSE <<"tx", tx.ack, tx.cmd, tx.drain, tx.poisoned>>
MC_View == <<structural, ledger, bucket, acc, dropped, log, TxView, txCounter > 0, ticks # <<>>, ToSet(consumed)>>

\* ---- the committed ticks of a drained inbox are a function of the intent SET ---------------------
\* Declarative oracle, written without reference to arrival order, retries or the bucket: tick k of "ingest the
\* set S, then drain one intent per tick" consumes the k-th smallest id and leaves the larger ones pending.
Handled(s) == SelectSeq([k \in 1..Len(s) |-> IF HandlerFor(s[k]) = None THEN <<>> ELSE <<HandlerFor(s[k]), s[k]>>],
                        LAMBDA c : c # <<>>)
OracleTick(S, k) ==
  LET srt == SortByRank(S) IN
  IF k <= Len(srt)
    THEN [root |-> MkRootKey(TRUE, {srt[j] : j \in (k + 1)..Len(srt)}, Handled(SubSeq(srt, 1, k))),
          ack |-> {srt[k]}, cmd |-> (IF HandlerFor(srt[k]) = None THEN {} ELSE {<<HandlerFor(srt[k]), srt[k]>>}),
          drain |-> None]
    ELSE [root |-> MkRootKey(S # {}, {}, Handled(srt)), ack |-> {}, cmd |-> {}, drain |-> None]
DrainIsFunctionOfSet ==
  (~late) => /\ \A k \in 1..Len(ticks) : ticks[k] = OracleTick(ledger, k)
             /\ consumed = SubSeq(SortByRank(ledger), 1, Len(consumed))

\* ---- beh mode: export maximal behaviours -----------------------------------------------------------
Done == /\ tx = None /\ txCounter = MaxTx
        /\ IntentSet \subseteq ledger /\ retries = MaxRetry
Inv_Export ==
  (Export /\ Beh /\ Done) =>
    PrintT(<<"CASE", ToJson([mode |-> "beh", path |-> hist, obs |-> obs, chain |-> Chain, late |-> late,
                             final |-> Proj, set |-> SetJson(ledger), order |-> consumed])>>)
=============================================================================
