SPECIFICATION Spec
CONSTANTS
  ASlots = {"n1", "n2", "n3"}
  NSlots = {"n4"}
  Prog <- MC_Prog
  None = None
  AsBuiltClean = FALSE
  MaxPre = 1
  MaxPPost = 2
  MaxSTicks = 2
  MaxSTicks2 = 1
  MaxTotal = 4
  MaxStrands = 1
  MaxSettles = 2
  PrePool = {1}
  Pre2Pool = {2}
  PPool = {2, 3}
  SPool = {1, 5, 10}
  SecondSrc = {}
  SecondForkTip = TRUE
  PinLastOnly = TRUE
  Export = TRUE
INVARIANTS ForkIsExactPrefix NoSharedHeads LaneIsolation StrandTicksDontTouchParent ParentTicksDontTouchStrand PlanIsPure SettleAllOrNothing ImportedSlotsTakeStrandValues ParentChangedSlotsNeverOverwritten BlockingIsSticky ParentStaysReplayable ImportsReplayCleanly  Inv_Export
CHECK_DEADLOCK FALSE
