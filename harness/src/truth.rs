//! C18, truth leg: the materialization bus inside a committed tick and what later replays it.
//!
//! `truth <cases.ndjson> <results.ndjson>`
//!     Each input line is one TRANSITION of MC_TruthBus.tla (TruthBus.tla over Bus.tla) with a witness
//!     path to its source state: channel policies, the calls so far, the result of the last call and the
//!     projection the model predicts after it.  The path is replayed from scratch on REAL objects:
//!       * a real `Engine` owning a real `MaterializationBus` (begin / emit through `ScopedEmitter` /
//!         `commit_with_receipt` / `abort` / commit of a dead TxId);
//!       * a real `ProvenanceService`; every engine commit is appended as a local-commit entry built the
//!         way `SchedulerCoordinator::super_tick` builds it (hash triplet, parents, patch and
//!         `outputs = last_materialization()` of the REAL engine).  The runtime path itself cannot carry
//!         outputs (see `probe`), so this conversion is harness glue;
//!       * real `PlaybackCursor`s (seek_to / step), `ViewSession`s and a `TruthSink`.
//!     After EVERY call the laws are decided on the real outcome, independently of the model:
//!     bus empty at begin / after commit / after abort, a repeat rejected iff its (channel, key) was seen in
//!     this transaction, finalized channels and conflicts in ChannelId order and partitioning the emitted
//!     channels, publish appends exactly the outputs the LIVE engine finalized at the cursor's tick
//!     restricted to the subscriptions (receipt = live commit id), tick 0 publishes nothing, other sessions
//!     untouched, publish twice / through a fresh cursor that took another path gives identical frames.
//!     When the last call is a commit the whole life part of the path is additionally re-run on twin
//!     engines: arrival order reversed (Radix, 1 worker), rotated (Legacy, 4 workers), 4 workers, and - if
//!     the path contains an abort or a failed commit - with those transactions left out; every tick must be
//!     bit-identical (outputs, conflicts, emissions digest, commit id, state root, patch digest).
//!     Differences from the model's prediction that leave the laws intact are reported as `drift`.
//!
//! `truth probe <results.ndjson>`
//!     Facts about paths the model does not walk: the runtime commit path (`commit_with_state` via
//!     `super_tick`) with a host emission placed on the engine's bus beforehand, emissions made outside
//!     any transaction / abort of a TxId that is not live, and a commit that fails AFTER the transaction
//!     emitted (a rule executor panics) followed by the host's possible reactions (next transaction without
//!     abort, abort first, retry).

use std::collections::{BTreeMap, BTreeSet};

use serde_json::{json, Value};
use warp_core::materialization::{
    compute_value_hash, make_channel_id, ChannelId, ChannelPolicy, EmissionPort, EmitKey, FinalizedChannel,
    MaterializationBus, ReduceOp, ScopedEmitter,
};
use warp_core::{
    compute_emissions_digest, compute_tick_commit_hash_v2, CursorId, CursorReceipt, CursorRole, Engine, EngineBuilder,
    ConflictPolicy, Footprint, GlobalTick, GraphView, HashTriplet, NodeId, PatternGraph, PlaybackCursor, RewriteRule, TickDelta, PlaybackMode, ProvenanceEntry, ProvenanceService, ProvenanceStore,
    SchedulerKind, SessionId, StepResult, TruthFrame, TruthSink, TxId, ViewSession, WorldlineId, WorldlineState,
    WorldlineTickHeaderV1, WorldlineTickPatchV1,
};

use crate::{c07, ids, util};

type Hash = [u8; 32];

/// model rule / subkey index -> real u32 (same monotone table as c18.rs)
const U32S: [u32; 5] = [0, 1, 256, 0x0100_0001, u32::MAX];
const NCH: usize = 4;

struct Tables {
    chans: Vec<ChannelId>,
    inv: BTreeMap<ChannelId, usize>,
    scopes: Vec<Hash>,
    u0: WorldlineState,
}

impl Tables {
    fn new() -> Self {
        // model channel i = i-th smallest real id: numeric order in the model = byte order here
        let mut chans: Vec<ChannelId> = (0..NCH).map(|i| make_channel_id(&format!("truth:ch:{i}"))).collect();
        chans.sort();
        let inv = chans.iter().enumerate().map(|(i, c)| (*c, i)).collect();
        let mut s1 = [0u8; 32];
        s1[31] = 1;
        let mut s2 = [0u8; 32];
        s2[16] = 1;
        let mut s3 = [0u8; 32];
        s3[0] = 1;
        let scopes = vec![[0u8; 32], s1, s2, s3, [0xffu8; 32]];
        Self { chans, inv, scopes, u0: c07::u0_state(&BTreeMap::new()) }
    }
    fn key(&self, k: &[u64]) -> Result<EmitKey, String> {
        if k.len() != 3 {
            return Err(format!("model key must be <<scope, rule, subkey>>, got {k:?}"));
        }
        let s = self.scopes.get(k[0] as usize).ok_or("scope index out of table")?;
        let r = U32S.get(k[1] as usize).ok_or("rule index out of table")?;
        let u = U32S.get(k[2] as usize).ok_or("subkey index out of table")?;
        Ok(EmitKey::with_subkey(*s, *r, *u))
    }
    fn ch_ix(&self, c: &ChannelId) -> usize {
        self.inv.get(c).copied().unwrap_or(usize::MAX)
    }
}

fn policy(name: &str) -> Result<Option<ChannelPolicy>, String> {
    Ok(Some(match name {
        "Unreg" => return Ok(None),
        "Log" => ChannelPolicy::Log,
        "StrictSingle" => ChannelPolicy::StrictSingle,
        "Sum" => ChannelPolicy::Reduce(ReduceOp::Sum),
        "Max" => ChannelPolicy::Reduce(ReduceOp::Max),
        "Min" => ChannelPolicy::Reduce(ReduceOp::Min),
        "BitOr" => ChannelPolicy::Reduce(ReduceOp::BitOr),
        "BitAnd" => ChannelPolicy::Reduce(ReduceOp::BitAnd),
        "First" => ChannelPolicy::Reduce(ReduceOp::First),
        "Last" => ChannelPolicy::Reduce(ReduceOp::Last),
        "Concat" => ChannelPolicy::Reduce(ReduceOp::Concat),
        other => return Err(format!("unknown policy {other}")),
    }))
}

// --------------------------------------------------------------------------- ops

#[derive(Clone, Debug)]
struct Em {
    ch: usize,
    key: EmitKey,
    data: Vec<u8>,
}

#[derive(Clone, Debug)]
enum Op {
    Begin,
    Emit(Em),
    Commit,
    Abort,
    BadCommit,
    Sub(String, usize),
    Unsub(String, usize),
    SetCur(String, String),
    Seek(String, u64),
    Step(String),
    Publish(String),
    ClearSession(String),
    Clear,
}

impl Op {
    fn is_life(&self) -> bool {
        matches!(self, Op::Begin | Op::Emit(_) | Op::Commit | Op::Abort | Op::BadCommit)
    }
}

fn parse_op(t: &Tables, v: &Value) -> Result<Op, String> {
    let s = |f: &str| v[f].as_str().map(str::to_string).ok_or_else(|| format!("op without {f}: {v}"));
    let n = |f: &str| v[f].as_u64().ok_or_else(|| format!("op without {f}: {v}"));
    Ok(match v["a"].as_str().unwrap_or("") {
        "begin" => Op::Begin,
        "commit" => Op::Commit,
        "abort" => Op::Abort,
        "badcommit" => Op::BadCommit,
        "emit" => {
            let key: Vec<u64> = v["key"].as_array().ok_or("emit without key")?.iter().filter_map(Value::as_u64).collect();
            let data: Vec<u8> =
                v["data"].as_array().ok_or("emit without data")?.iter().filter_map(Value::as_u64).map(|b| b as u8).collect();
            Op::Emit(Em { ch: n("ch")? as usize, key: t.key(&key)?, data })
        }
        "sub" => Op::Sub(s("s")?, n("ch")? as usize),
        "unsub" => Op::Unsub(s("s")?, n("ch")? as usize),
        "setcur" => Op::SetCur(s("s")?, s("c")?),
        "seek" => Op::Seek(s("c")?, n("t")?),
        "step" => Op::Step(s("c")?),
        "publish" => Op::Publish(s("s")?),
        "clearsession" => Op::ClearSession(s("s")?),
        "clear" => Op::Clear,
        other => return Err(format!("unknown op {other}")),
    })
}

// --------------------------------------------------------------------------- the real world

#[derive(Clone, PartialEq, Eq, Debug)]
struct TickReal {
    channels: Vec<(usize, Vec<u8>)>,
    errors: Vec<(usize, usize, String)>,
    digest: Hash,
    commit: Hash,
    root: Hash,
    patch: Hash,
    raw: Vec<(ChannelId, Vec<u8>)>,
    tcommit: Hash,
}

impl TickReal {
    fn json(&self) -> Value {
        json!({"channels": self.channels, "errors": self.errors, "digest": hex::encode(self.digest), "commit": hex::encode(self.commit),
               "root": hex::encode(self.root), "patch": hex::encode(self.patch), "tcommit": hex::encode(self.tcommit)})
    }
    fn diff(&self, o: &TickReal) -> Option<&'static str> {
        if self.channels != o.channels || self.raw != o.raw {
            Some("finalized_output")
        } else if self.errors != o.errors {
            Some("conflicts")
        } else if self.digest != o.digest {
            Some("emissions_digest")
        } else if self.root != o.root {
            Some("state_root")
        } else if self.patch != o.patch {
            Some("patch_digest")
        } else if self.commit != o.commit {
            Some("commit_id")
        } else {
            None
        }
    }
}

#[derive(Default, Clone)]
struct Stats {
    commits: u64,
    aborts: u64,
    aborts_with_emissions: u64,
    failed_commits: u64,
    emits: u64,
    dups: u64,
    conflicts: u64,
    publishes: u64,
    frames: u64,
    twins: u64,
    seeks: u64,
}

struct Viol {
    verdict: &'static str,
    kind: String,
    detail: String,
}

fn viol<T>(kind: &str, detail: String) -> Result<T, Viol> {
    Err(Viol { verdict: "violation", kind: kind.into(), detail })
}
fn tool<T>(detail: String) -> Result<T, Viol> {
    Err(Viol { verdict: "tool_error", kind: "tool".into(), detail })
}

fn lm_pairs(lm: &[FinalizedChannel]) -> Vec<(ChannelId, Vec<u8>)> {
    lm.iter().map(|c| (c.channel, c.data.clone())).collect()
}

fn sid(name: &str) -> SessionId {
    SessionId(blake3::hash(format!("truth:session:{name}").as_bytes()).into())
}
fn cid(name: &str) -> CursorId {
    CursorId(blake3::hash(format!("truth:cursor:{name}").as_bytes()).into())
}
fn wl() -> WorldlineId {
    c07::wl_id(c07::MAIN)
}
const PIN: u64 = 1_000;

fn build_engine(t: &Tables, pol: &[Option<ChannelPolicy>], kind: SchedulerKind, workers: usize) -> Result<Engine, String> {
    let mut bus = MaterializationBus::new();
    for (i, p) in pol.iter().enumerate() {
        if let Some(p) = p {
            bus.register_channel(t.chans[i], *p);
        }
    }
    EngineBuilder::from_state(t.u0.warp_state().clone(), *t.u0.root())
        .scheduler(kind)
        .workers(workers)
        .with_materialization_bus(bus)
        .build()
        .map_err(|e| format!("engine build: {e:?}"))
}

struct World<'t> {
    t: &'t Tables,
    engine: Engine,
    tx: Option<TxId>,
    dead_tx: u64,
    seen: BTreeSet<(usize, EmitKey)>,
    emitted_chs: BTreeSet<usize>,
    ticks: Vec<TickReal>,
    prov: ProvenanceService,
    sessions: BTreeMap<String, ViewSession>,
    cursors: BTreeMap<String, PlaybackCursor>,
    sink: TruthSink,
    stats: Stats,
    drift: Vec<String>,
}

type SinkSnap = BTreeMap<String, (Vec<TruthFrame>, Option<CursorReceipt>)>;

impl<'t> World<'t> {
    fn new(t: &'t Tables, pol: &[Option<ChannelPolicy>], kind: SchedulerKind, workers: usize, sessions: &[String], cursors: &[String],
           act0: &str) -> Result<Self, Viol> {
        let engine = build_engine(t, pol, kind, workers).or_else(tool)?;
        let mut prov = ProvenanceService::new();
        prov.register_worldline(wl(), &t.u0).or_else(|e| tool(format!("prov register: {e:?}")))?;
        let mut w = Self {
            t,
            engine,
            tx: None,
            dead_tx: 0,
            seen: BTreeSet::new(),
            emitted_chs: BTreeSet::new(),
            ticks: Vec::new(),
            prov,
            sessions: BTreeMap::new(),
            cursors: BTreeMap::new(),
            sink: TruthSink::new(),
            stats: Stats::default(),
            drift: Vec::new(),
        };
        for c in cursors {
            w.cursors.insert(c.clone(), Self::fresh_cursor(t, c));
        }
        for s in sessions {
            w.sessions.insert(s.clone(), ViewSession::new(sid(s), cid(act0)));
        }
        Ok(w)
    }

    fn fresh_cursor(t: &Tables, name: &str) -> PlaybackCursor {
        PlaybackCursor::new(cid(name), wl(), ids::warp("w0"), CursorRole::Reader, &t.u0, c07::wt(PIN))
    }

    fn snap_sink(&self) -> SinkSnap {
        self.sessions
            .iter()
            .map(|(n, s)| (n.clone(), (self.sink.collect_frames(s.session_id).to_vec(), self.sink.last_receipt(s.session_id))))
            .collect()
    }

    fn cursor_name(&self, id: CursorId) -> Option<String> {
        self.cursors.iter().find(|(_, c)| c.cursor_id == id).map(|(n, _)| n.clone())
    }

    /// Applies one call to the real objects and decides the laws on the outcome. Returns the result string.
    fn apply(&mut self, op: &Op) -> Result<String, Viol> {
        match op {
            Op::Begin => {
                if self.tx.is_some() {
                    return tool("begin inside an open transaction".into());
                }
                if !self.engine.materialization_bus().is_empty() {
                    return viol("bus_not_empty_at_begin", "the engine's bus holds emissions when a transaction begins".into());
                }
                self.tx = Some(self.engine.begin());
                self.seen.clear();
                self.emitted_chs.clear();
                Ok("ok".into())
            }
            Op::Emit(e) => {
                if self.tx.is_none() {
                    return tool("emit outside a transaction".into());
                }
                let ch = self.t.chans[e.ch];
                let r = {
                    let em = ScopedEmitter::new(self.engine.materialization_bus(), e.key.scope_hash, e.key.rule_id);
                    if e.key.subkey == 0 {
                        em.emit(ch, e.data.clone())
                    } else {
                        em.emit_with_subkey(ch, e.key.subkey, e.data.clone())
                    }
                };
                self.stats.emits += 1;
                let repeat = !self.seen.insert((e.ch, e.key));
                match (r, repeat) {
                    (Ok(()), false) => {
                        self.emitted_chs.insert(e.ch);
                        Ok("ok".into())
                    }
                    (Err(d), true) => {
                        self.stats.dups += 1;
                        if d.channel != ch || d.key != e.key {
                            self.drift.push("DuplicateEmission names another (channel, key) than the rejected one".into());
                        }
                        Ok("dup".into())
                    }
                    (Ok(()), true) => viol("repeat_not_rejected", format!("a repeated (channel {}, key) emission inside one transaction was accepted", e.ch)),
                    (Err(_), false) => {
                        viol("fresh_emit_rejected", format!("the first emission for (channel {}, key) in this transaction was rejected as a duplicate: something older is still on the bus", e.ch))
                    }
                }
            }
            Op::Commit => {
                let Some(tx) = self.tx else { return tool("commit without a transaction".into()) };
                let r = util::catch(|| self.engine.commit_with_receipt(tx));
                let (snap, receipt, patch) = match r {
                    Err(p) => return viol("panic_in_commit", format!("commit_with_receipt panicked: {p}")),
                    Ok(Err(e)) => return tool(format!("commit of the live transaction failed: {e:?}")),
                    Ok(Ok(x)) => x,
                };
                self.tx = None;
                self.dead_tx = tx.value();
                self.stats.commits += 1;
                if !self.engine.materialization_bus().is_empty() {
                    return viol("bus_not_empty_after_commit", "commit left emissions on the bus: they would join the next tick".into());
                }
                let lm = self.engine.last_materialization().to_vec();
                let errs = self.engine.last_materialization_errors().to_vec();
                if lm.windows(2).any(|w| w[0].channel >= w[1].channel) || errs.windows(2).any(|w| w[0].channel >= w[1].channel) {
                    return viol("last_materialization_not_in_channel_order",
                                format!("finalized channels / conflicts are not strictly ascending by ChannelId: {:?} / {:?}",
                                        lm.iter().map(|c| self.t.ch_ix(&c.channel)).collect::<Vec<_>>(),
                                        errs.iter().map(|c| self.t.ch_ix(&c.channel)).collect::<Vec<_>>()));
                }
                let okc: BTreeSet<usize> = lm.iter().map(|c| self.t.ch_ix(&c.channel)).collect();
                let erc: BTreeSet<usize> = errs.iter().map(|c| self.t.ch_ix(&c.channel)).collect();
                let both: BTreeSet<usize> = okc.union(&erc).copied().collect();
                if okc.intersection(&erc).next().is_some() || both != self.emitted_chs {
                    return viol("tick_channels_not_those_emitted",
                                format!("finalized {okc:?} + conflicting {erc:?} channels are not a partition of the channels emitted in this transaction {:?}", self.emitted_chs));
                }
                self.stats.conflicts += errs.len() as u64;
                let digest = compute_emissions_digest(&lm);
                // provenance entry, built as SchedulerCoordinator::super_tick builds it
                let k = self.ticks.len() as u64;
                let parents: Vec<_> = match self.prov.tip_ref(wl()) {
                    Ok(p) => p.into_iter().collect(),
                    Err(e) => return tool(format!("tip_ref: {e:?}")),
                };
                let parent_t: Vec<Hash> = self.ticks.last().map(|p| vec![p.tcommit]).unwrap_or_default();
                let wp = WorldlineTickPatchV1 {
                    header: WorldlineTickHeaderV1 {
                        commit_global_tick: GlobalTick::from_raw(k + 1),
                        policy_id: patch.policy_id(),
                        rule_pack_id: patch.rule_pack_id(),
                        plan_digest: snap.plan_digest,
                        decision_digest: snap.decision_digest,
                        rewrites_digest: snap.rewrites_digest,
                    },
                    warp_id: snap.root.warp_id,
                    ops: patch.ops().to_vec(),
                    in_slots: patch.in_slots().to_vec(),
                    out_slots: patch.out_slots().to_vec(),
                    patch_digest: patch.digest(),
                };
                let outputs = lm.iter().map(|c| (c.channel, c.data.clone())).collect();
                let entry = ProvenanceEntry::local_commit(
                    wl(),
                    c07::wt(k),
                    GlobalTick::from_raw(k + 1),
                    c07::head_key(wl(), 0),
                    parents,
                    HashTriplet { state_root: snap.state_root, patch_digest: snap.patch_digest, commit_hash: snap.hash },
                    wp,
                    outputs,
                    Vec::new(),
                );
                // (the tick receipt is not attached: provenance ties a retained receipt's tx number to the tick index,
                // which an aborted transaction in between breaks on the plain engine path)
                let _ = receipt;
                if let Err(e) = self.prov.append_local_commit(entry) {
                    return tool(format!("append_local_commit: {e:?}"));
                }
                // the TTD-level tick commit hash a host would derive (pure function of the digests)
                let tcommit = compute_tick_commit_hash_v2(&[0x5c; 32], &wl(), k + 1, &parent_t, &snap.patch_digest, Some(&snap.state_root), &digest, None);
                self.ticks.push(TickReal {
                    channels: lm.iter().map(|c| (self.t.ch_ix(&c.channel), c.data.clone())).collect(),
                    errors: errs.iter().map(|c| (self.t.ch_ix(&c.channel), c.emission_count, format!("{:?}", c.kind))).collect(),
                    digest,
                    commit: snap.hash,
                    root: snap.state_root,
                    patch: snap.patch_digest,
                    raw: lm.iter().map(|c| (c.channel, c.data.clone())).collect(),
                    tcommit,
                });
                Ok("ok".into())
            }
            Op::Abort => {
                let Some(tx) = self.tx else { return tool("abort without a transaction".into()) };
                if let Err(p) = util::catch(|| self.engine.abort(tx)) {
                    return viol("panic_in_abort", format!("abort panicked: {p}"));
                }
                self.tx = None;
                self.dead_tx = tx.value();
                self.stats.aborts += 1;
                if !self.seen.is_empty() {
                    self.stats.aborts_with_emissions += 1;
                }
                if !self.engine.materialization_bus().is_empty() {
                    return viol("abort_keeps_emissions", "after abort the engine's bus still holds the aborted transaction's emissions".into());
                }
                if !self.engine.last_materialization().is_empty() || !self.engine.last_materialization_errors().is_empty() {
                    self.drift.push("abort no longer clears last_materialization / last_materialization_errors".into());
                }
                Ok("ok".into())
            }
            Op::BadCommit => {
                // a TxId that is not live: the last closed one, or one never handed out
                let dead = if self.dead_tx != 0 { self.dead_tx } else { 9_999 };
                let lm_before = lm_pairs(self.engine.last_materialization());
                let er_before = self.engine.last_materialization_errors().to_vec();
                let empty_before = self.engine.materialization_bus().is_empty();
                let r = util::catch(|| self.engine.commit_with_receipt(TxId::from_raw(dead)));
                self.stats.failed_commits += 1;
                match r {
                    Err(p) => return viol("panic_in_commit", format!("commit_with_receipt(dead tx) panicked: {p}")),
                    Ok(Ok(_)) => return viol("dead_tx_committed", format!("commit_with_receipt of the non-live tx {dead} produced a tick")),
                    Ok(Err(_)) => {}
                }
                if self.engine.materialization_bus().is_empty() != empty_before {
                    return viol("failed_commit_touches_bus", "a failed commit changed the bus: the open transaction's emissions were dropped or emissions appeared".into());
                }
                if lm_pairs(self.engine.last_materialization()) != lm_before || self.engine.last_materialization_errors() != er_before.as_slice() {
                    return viol("failed_commit_touches_last_materialization", "a failed commit changed last_materialization".into());
                }
                Ok("unknown_tx".into())
            }
            Op::Sub(s, ch) => {
                let c = self.t.chans[*ch];
                self.sessions.get_mut(s).ok_or_else(|| Viol { verdict: "tool_error", kind: "tool".into(), detail: format!("no session {s}") })?.subscribe(c);
                Ok("ok".into())
            }
            Op::Unsub(s, ch) => {
                let c = self.t.chans[*ch];
                self.sessions.get_mut(s).ok_or_else(|| Viol { verdict: "tool_error", kind: "tool".into(), detail: format!("no session {s}") })?.unsubscribe(c);
                Ok("ok".into())
            }
            Op::SetCur(s, c) => {
                let before = self.sessions.get(s).map(|x| x.subscriptions.clone());
                let sess = self.sessions.get_mut(s).ok_or_else(|| Viol { verdict: "tool_error", kind: "tool".into(), detail: format!("no session {s}") })?;
                sess.set_active_cursor(cid(c));
                if Some(&sess.subscriptions) != before.as_ref() {
                    return viol("set_active_cursor_changes_subscriptions", format!("session {s}: subscriptions changed by set_active_cursor"));
                }
                Ok("ok".into())
            }
            Op::Seek(c, t) => {
                let (prov, u0) = (&self.prov, &self.t.u0);
                let cur = self.cursors.get_mut(c).ok_or_else(|| Viol { verdict: "tool_error", kind: "tool".into(), detail: format!("no cursor {c}") })?;
                self.stats.seeks += 1;
                match util::catch(|| cur.seek_to(c07::wt(*t), prov, u0)) {
                    Ok(Ok(())) if cur.current_tick().as_u64() == *t => Ok("ok".into()),
                    other => viol("seek_failed", format!("cursor {c} seek_to({t}) over the engine's own commits: {other:?}, tick now {}", cur.current_tick().as_u64())),
                }
            }
            Op::Step(c) => {
                let (prov, u0) = (&self.prov, &self.t.u0);
                let cur = self.cursors.get_mut(c).ok_or_else(|| Viol { verdict: "tool_error", kind: "tool".into(), detail: format!("no cursor {c}") })?;
                let before = cur.current_tick().as_u64();
                cur.mode = PlaybackMode::StepForward;
                self.stats.seeks += 1;
                match util::catch(|| cur.step(prov, u0)) {
                    Ok(Ok(StepResult::Advanced)) if cur.current_tick().as_u64() == before + 1 => Ok("ok".into()),
                    other => viol("step_failed", format!("cursor {c} step from {before}: {other:?}, tick now {}", cur.current_tick().as_u64())),
                }
            }
            Op::Publish(s) => self.publish(s),
            Op::ClearSession(s) => {
                let before = self.snap_sink();
                let id = self.sessions.get(s).map(|x| x.session_id).ok_or_else(|| Viol { verdict: "tool_error", kind: "tool".into(), detail: format!("no session {s}") })?;
                self.sink.clear_session(id);
                let after = self.snap_sink();
                for (n, v) in &after {
                    if n == s {
                        if !v.0.is_empty() || v.1.is_some() {
                            return viol("clear_session_incomplete", format!("session {s} still has frames or a receipt after clear_session"));
                        }
                    } else if Some(v) != before.get(n) {
                        return viol("clear_session_touches_other_session", format!("clear_session({s}) changed session {n}"));
                    }
                }
                Ok("ok".into())
            }
            Op::Clear => {
                self.sink.clear();
                if self.snap_sink().values().any(|v| !v.0.is_empty() || v.1.is_some()) {
                    return viol("clear_incomplete", "frames or receipts survive TruthSink::clear".into());
                }
                Ok("ok".into())
            }
        }
    }

    /// What publish must append for tick `t` (>= 1): the outputs the LIVE engine finalized at that tick,
    /// restricted to the subscriptions, in finalized order, stamped with the live commit id.
    fn expected_frames(&self, sess: &ViewSession, cursor_id: CursorId, t: u64) -> Option<(CursorReceipt, Vec<TruthFrame>)> {
        let live = self.ticks.get(t as usize - 1)?;
        let receipt = CursorReceipt {
            session_id: sess.session_id,
            cursor_id,
            worldline_id: wl(),
            warp_id: ids::warp("w0"),
            worldline_tick: c07::wt(t),
            commit_global_tick: Some(GlobalTick::from_raw(t)),
            commit_hash: live.commit,
        };
        let frames = live
            .raw
            .iter()
            .filter(|c| sess.subscriptions.contains(&c.0))
            .map(|c| TruthFrame { cursor: receipt, channel: c.0, value: c.1.clone(), value_hash: compute_value_hash(&c.1) })
            .collect();
        Some((receipt, frames))
    }

    fn publish(&mut self, s: &str) -> Result<String, Viol> {
        let sess = self.sessions.get(s).cloned().ok_or_else(|| Viol { verdict: "tool_error", kind: "tool".into(), detail: format!("no session {s}") })?;
        let cname = self.cursor_name(sess.active_cursor).ok_or_else(|| Viol { verdict: "tool_error", kind: "tool".into(), detail: "active cursor unknown".into() })?;
        let cur = self.cursors.remove(&cname).ok_or_else(|| Viol { verdict: "tool_error", kind: "tool".into(), detail: "cursor".into() })?;
        let r = self.publish_with(s, &sess, &cname, &cur);
        self.cursors.insert(cname, cur);
        r
    }

    fn publish_with(&mut self, s: &str, sess: &ViewSession, cname: &str, cur: &PlaybackCursor) -> Result<String, Viol> {
        let t = cur.current_tick().as_u64();
        let before = self.snap_sink();
        let r = util::catch(|| sess.publish_truth(cur, &self.prov, &mut self.sink));
        self.stats.publishes += 1;
        match r {
            Err(p) => return viol("panic_in_publish", format!("publish_truth panicked: {p}")),
            Ok(Err(e)) => return viol("publish_failed", format!("publish_truth(session {s}, cursor {cname} at tick {t} of {}) failed: {e:?}", self.ticks.len())),
            Ok(Ok(())) => {}
        }
        let after = self.snap_sink();
        for (n, v) in &after {
            if n != s && Some(v) != before.get(n) {
                return viol("publish_touches_other_session", format!("publish for session {s} changed the frames or the receipt of session {n}"));
            }
        }
        let (b, a) = (&before[s], &after[s]);
        if a.0.len() < b.0.len() || a.0[..b.0.len()] != b.0[..] {
            return viol("publish_rewrites_sink_history", format!("publish for session {s} changed frames that were already in the sink"));
        }
        let added = &a.0[b.0.len()..];
        if t == 0 {
            if !added.is_empty() || a.1 != b.1 {
                return viol("tick0_publishes", format!("publish at cursor tick 0 produced {} frames / a receipt", added.len()));
            }
            return Ok("nothing".into());
        }
        let Some((want_receipt, want)) = self.expected_frames(sess, cur.cursor_id, t) else {
            return tool(format!("cursor at tick {t} beyond {} live ticks", self.ticks.len()));
        };
        self.stats.frames += added.len() as u64;
        if added != want.as_slice() {
            let chans = |f: &[TruthFrame]| f.iter().map(|x| (self.t.ch_ix(&x.channel), x.value.clone())).collect::<Vec<_>>();
            if let Some(f) = added.iter().find(|f| !sess.subscriptions.contains(&f.channel)) {
                return viol("publish_unsubscribed_channel", format!("session {s} subscribed to {:?} received a frame on channel {}",
                    sess.subscriptions.iter().map(|c| self.t.ch_ix(c)).collect::<Vec<_>>(), self.t.ch_ix(&f.channel)));
            }
            if chans(added) != chans(&want) {
                for (k, _) in self.ticks.iter().enumerate() {
                    if k as u64 + 1 != t {
                        if let Some((_, other)) = self.expected_frames(sess, cur.cursor_id, k as u64 + 1) {
                            if chans(added) == chans(&other) {
                                return viol("publish_wrong_tick", format!("cursor at tick {t}: published the outputs finalized live at tick {} : {:?}, live tick {t} had {:?}", k + 1, chans(added), chans(&want)));
                            }
                        }
                    }
                }
                return viol("publish_not_live_outputs", format!("cursor at tick {t}: published {:?}, the live engine finalized {:?} (restricted to the subscriptions)", chans(added), chans(&want)));
            }
            if added.iter().any(|f| f.cursor.commit_hash != want_receipt.commit_hash) {
                return viol("receipt_wrong_commit", format!("frames at tick {t} carry commit {} but the live commit id of that tick is {}",
                    hex::encode(added[0].cursor.commit_hash), hex::encode(want_receipt.commit_hash)));
            }
            return viol("publish_frame_fields", format!("frames at tick {t} differ from the expected ones in receipt / hash fields: {:?} vs {:?}", added.first(), want.first()));
        }
        if a.1 != Some(want_receipt) {
            if a.1.map(|r| r.commit_hash) != Some(want_receipt.commit_hash) {
                return viol("receipt_wrong_commit", format!("receipt at tick {t}: {:?}, live commit id {}", a.1, hex::encode(want_receipt.commit_hash)));
            }
            return viol("receipt_fields", format!("last receipt {:?}, expected {:?}", a.1, want_receipt));
        }
        // purity: again into a scratch copy of the sink; and through fresh cursors that took other paths
        let mut scratch = self.sink.clone();
        if let Ok(Ok(())) = util::catch(|| sess.publish_truth(cur, &self.prov, &mut scratch)) {
            let again = scratch.collect_frames(sess.session_id);
            if again.len() != a.0.len() + want.len() || again[a.0.len()..] != want[..] {
                return viol("publish_not_repeatable", format!("publishing twice at tick {t} gave different frames the second time"));
            }
        } else {
            return viol("publish_not_repeatable", "second publish failed".into());
        }
        for route in 0..2 {
            let mut fresh = Self::fresh_cursor(self.t, cname);
            let ok = if route == 0 {
                fresh.seek_to(c07::wt(t), &self.prov, &self.t.u0).is_ok()
            } else {
                // to the end, then back
                fresh.seek_to(c07::wt(self.ticks.len() as u64), &self.prov, &self.t.u0).is_ok() && fresh.seek_to(c07::wt(t), &self.prov, &self.t.u0).is_ok()
            };
            if !ok {
                return viol("seek_failed", format!("fresh cursor could not reach tick {t} (route {route})"));
            }
            let mut sink2 = TruthSink::new();
            match util::catch(|| sess.publish_truth(&fresh, &self.prov, &mut sink2)) {
                Ok(Ok(())) if sink2.collect_frames(sess.session_id) == want.as_slice() && sink2.last_receipt(sess.session_id) == Some(want_receipt) => {}
                other => return viol("publish_depends_on_cursor_path", format!("a fresh cursor brought to tick {t} by route {route} publishes other frames than the session's cursor ({other:?})")),
            }
        }
        Ok("ok".into())
    }
}

// --------------------------------------------------------------------------- twins

/// The life calls of a path, regrouped per transaction with the arrival order of the accepted emissions
/// permuted (`perm`: 0 as given, 1 reversed, 2 rotated left) and rejected repeats moved behind them;
/// `skip_dead` leaves out aborted transactions and failed commits.
fn twin_path(path: &[Op], perm: u8, skip_dead: bool) -> Vec<Op> {
    let mut out = Vec::new();
    let mut cur: Vec<Em> = Vec::new();
    for op in path.iter().filter(|o| o.is_life()) {
        match op {
            Op::Begin => cur.clear(),
            Op::Emit(e) => cur.push(e.clone()),
            Op::BadCommit => {
                if !skip_dead {
                    // a failed commit in the middle of a transaction is replayed before the emissions; it must not matter
                    out.push(Op::BadCommit);
                }
            }
            Op::Commit | Op::Abort => {
                if matches!(op, Op::Abort) && skip_dead {
                    cur.clear();
                    continue;
                }
                let mut first: Vec<Em> = Vec::new();
                let mut rest: Vec<Em> = Vec::new();
                for e in cur.drain(..) {
                    if first.iter().any(|f| f.ch == e.ch && f.key == e.key) {
                        rest.push(e);
                    } else {
                        first.push(e);
                    }
                }
                match perm {
                    1 => first.reverse(),
                    2 if !first.is_empty() => first.rotate_left(1),
                    _ => {}
                }
                out.push(Op::Begin);
                out.extend(first.into_iter().map(Op::Emit));
                out.extend(rest.into_iter().map(Op::Emit));
                out.push(op.clone());
            }
            _ => {}
        }
    }
    out
}

struct Twin {
    name: &'static str,
    kind: SchedulerKind,
    workers: usize,
    perm: u8,
    skip_dead: bool,
    key: &'static str,
}

const TWINS: [Twin; 4] = [
    Twin { name: "reversed arrival (Radix, 1 worker)", kind: SchedulerKind::Radix, workers: 1, perm: 1, skip_dead: false, key: "arrival_order_changes_" },
    Twin { name: "rotated arrival (Legacy, 4 workers)", kind: SchedulerKind::Legacy, workers: 4, perm: 2, skip_dead: false, key: "arrival_order_or_scheduler_changes_" },
    Twin { name: "same arrival (Radix, 4 workers)", kind: SchedulerKind::Radix, workers: 4, perm: 0, skip_dead: false, key: "worker_count_changes_" },
    Twin { name: "aborted transactions and failed commits left out", kind: SchedulerKind::Radix, workers: 1, perm: 0, skip_dead: true, key: "aborted_tx_changes_" },
];

fn run_twins(t: &Tables, pol: &[Option<ChannelPolicy>], path: &[Op], main: &[TickReal], stats: &mut Stats) -> Result<(), Viol> {
    let has_dead = path.iter().any(|o| matches!(o, Op::Abort | Op::BadCommit));
    for tw in &TWINS {
        if tw.skip_dead && !has_dead {
            continue;
        }
        let ops = twin_path(path, tw.perm, tw.skip_dead);
        let mut w = World::new(t, pol, tw.kind, tw.workers, &[], &[], "c1")?;
        for op in &ops {
            if let Err(v) = w.apply(op) {
                if v.verdict == "tool_error" {
                    return Err(v);
                }
                return viol(&format!("twin:{}", v.kind), format!("on the twin engine [{}]: {}", tw.name, v.detail));
            }
        }
        stats.twins += 1;
        if w.ticks.len() != main.len() {
            return tool(format!("twin [{}] committed {} ticks, main {}", tw.name, w.ticks.len(), main.len()));
        }
        for (k, (a, b)) in main.iter().zip(w.ticks.iter()).enumerate() {
            if let Some(field) = a.diff(b) {
                return viol(&format!("{}{}", tw.key, field),
                            format!("tick {} differs in {field} between the path as given and its twin [{}]: {} vs {}", k + 1, tw.name, a.json(), b.json()));
            }
        }
    }
    Ok(())
}

// --------------------------------------------------------------------------- model comparison (drift)

fn cmp_pred(w: &World<'_>, pred: &Value, drift: &mut Vec<String>) {
    let mut note = |s: String| {
        if drift.len() < 6 {
            drift.push(s);
        }
    };
    if pred["open"].as_bool() != Some(w.tx.is_some()) {
        note("open flag differs".into());
    }
    let bus_empty = pred["bus"].as_array().map(|a| a.is_empty());
    if bus_empty != Some(w.engine.materialization_bus().is_empty()) {
        note(format!("bus emptiness: model {:?}, real {}", bus_empty, w.engine.materialization_bus().is_empty()));
    }
    let chj = |v: &Value| -> Vec<(usize, Vec<u8>)> {
        v.as_array().map(|a| a.iter().map(|c| (c["ch"].as_u64().unwrap_or(99) as usize,
            c["data"].as_array().map(|d| d.iter().filter_map(Value::as_u64).map(|b| b as u8).collect()).unwrap_or_default())).collect()).unwrap_or_default()
    };
    let erj = |v: &Value| -> Vec<(usize, usize, String)> {
        v.as_array().map(|a| a.iter().map(|c| (c["ch"].as_u64().unwrap_or(99) as usize, c["count"].as_u64().unwrap_or(0) as usize,
            c["kind"].as_str().unwrap_or("").to_string())).collect()).unwrap_or_default()
    };
    let lm: Vec<(usize, Vec<u8>)> = w.engine.last_materialization().iter().map(|c| (w.t.ch_ix(&c.channel), c.data.clone())).collect();
    let le: Vec<(usize, usize, String)> =
        w.engine.last_materialization_errors().iter().map(|c| (w.t.ch_ix(&c.channel), c.emission_count, format!("{:?}", c.kind))).collect();
    if chj(&pred["lm"]["channels"]) != lm || erj(&pred["lm"]["errors"]) != le {
        note(format!("last_materialization: model {} real {:?} / {:?}", pred["lm"], lm, le));
    }
    let pt = pred["ticks"].as_array().cloned().unwrap_or_default();
    if pt.len() != w.ticks.len() {
        note(format!("{} real ticks, model {}", w.ticks.len(), pt.len()));
    }
    for (k, (p, r)) in pt.iter().zip(w.ticks.iter()).enumerate() {
        if chj(&p["channels"]) != r.channels || erj(&p["errors"]) != r.errors {
            note(format!("tick {}: model channels {} errors {}, real {:?} / {:?}", k + 1, p["channels"], p["errors"], r.channels, r.errors));
        }
    }
    for (n, s) in &w.sessions {
        let subs: BTreeSet<usize> = s.subscriptions.iter().map(|c| w.t.ch_ix(c)).collect();
        let want: BTreeSet<usize> = pred["subs"][n].as_array().map(|a| a.iter().filter_map(Value::as_u64).map(|x| x as usize).collect()).unwrap_or_default();
        if subs != want {
            note(format!("session {n}: subscriptions {subs:?}, model {want:?}"));
        }
        if w.cursor_name(s.active_cursor).as_deref() != pred["active"][n].as_str() {
            note(format!("session {n}: active cursor differs"));
        }
        let real: Vec<(u64, usize, Vec<u8>, usize)> = w.sink.collect_frames(s.session_id).iter().map(|f| {
            (f.cursor.worldline_tick.as_u64(), w.t.ch_ix(&f.channel), f.value.clone(),
             w.ticks.iter().position(|t| t.commit == f.cursor.commit_hash).map_or(0, |p| p + 1))
        }).collect();
        let model: Vec<(u64, usize, Vec<u8>, usize)> = pred["frames"][n].as_array().map(|a| a.iter().map(|f| {
            (f["tick"].as_u64().unwrap_or(0), f["ch"].as_u64().unwrap_or(99) as usize,
             f["data"].as_array().map(|d| d.iter().filter_map(Value::as_u64).map(|b| b as u8).collect()).unwrap_or_default(),
             f["commit"].as_u64().unwrap_or(0) as usize)
        }).collect()).unwrap_or_default();
        if real != model {
            note(format!("session {n}: frames (tick, channel, bytes, commit index) real {real:?} model {model:?}"));
        }
        let rr = w.sink.last_receipt(s.session_id).map_or((0, 0, String::new()), |r| {
            (r.worldline_tick.as_u64(), w.ticks.iter().position(|t| t.commit == r.commit_hash).map_or(0, |p| p + 1) as u64, w.cursor_name(r.cursor_id).unwrap_or_default())
        });
        let mr = (pred["receipt"][n]["tick"].as_u64().unwrap_or(0), pred["receipt"][n]["commit"].as_u64().unwrap_or(0),
                  pred["receipt"][n]["cursor"].as_str().unwrap_or("").to_string());
        if rr != mr {
            note(format!("session {n}: last receipt (tick, commit index, cursor) real {rr:?} model {mr:?}"));
        }
    }
    for (n, c) in &w.cursors {
        if pred["ctick"][n].as_u64() != Some(c.current_tick().as_u64()) {
            note(format!("cursor {n}: tick {} model {}", c.current_tick().as_u64(), pred["ctick"][n]));
        }
    }
}

// --------------------------------------------------------------------------- one case

fn check_case(t: &Tables, case: &Value) -> Value {
    let fail = |v: Viol, step: usize, op: &Value, drift: &[String]| json!({"verdict": v.verdict, "kind": v.kind, "detail": v.detail, "step": step, "op": op, "drift": drift});
    let pol: Vec<Option<ChannelPolicy>> = match case["pol"].as_array().map(|a| a.iter().map(|p| policy(p.as_str().unwrap_or(""))).collect::<Result<Vec<_>, _>>()) {
        Some(Ok(p)) => p,
        other => return json!({"verdict":"tool_error","detail":format!("bad pol: {other:?}")}),
    };
    let raw_ops = case["path"].as_array().cloned().unwrap_or_default();
    let ops: Vec<Op> = match raw_ops.iter().map(|o| parse_op(t, o)).collect::<Result<Vec<_>, _>>() {
        Ok(o) => o,
        Err(e) => return json!({"verdict":"tool_error","detail":e}),
    };
    let names = |f: &str| -> Vec<String> { case["pred"][f].as_object().map(|o| o.keys().cloned().collect()).unwrap_or_default() };
    let (sessions, cursors) = (names("subs"), names("ctick"));
    let act0 = case["act0"].as_str().unwrap_or("c1");
    let mut w = match World::new(t, &pol, SchedulerKind::Radix, 1, &sessions, &cursors, act0) {
        Ok(w) => w,
        Err(v) => return fail(v, 0, &Value::Null, &[]),
    };
    let mut last_res = String::new();
    for (i, op) in ops.iter().enumerate() {
        match w.apply(op) {
            Ok(r) => last_res = r,
            Err(v) => return fail(v, i, &raw_ops[i], &w.drift),
        }
    }
    let mut drift = std::mem::take(&mut w.drift);
    if Some(last_res.as_str()) != case["res"].as_str() {
        drift.push(format!("result of the last call: real {last_res}, model {}", case["res"]));
    }
    cmp_pred(&w, &case["pred"], &mut drift);
    let mut stats = w.stats.clone();
    if matches!(ops.last(), Some(Op::Commit)) {
        if let Err(v) = run_twins(t, &pol, &ops, &w.ticks, &mut stats) {
            return fail(v, ops.len() - 1, &raw_ops[ops.len() - 1], &drift);
        }
    }
    // the model's abstract keys, passed through for the runner's hash relations
    let mticks: Vec<Value> = case["pred"]["ticks"].as_array().map(|a| a.iter().map(|m| {
        let mut em: Vec<String> = m["emitted"].as_array().map(|e| e.iter().map(Value::to_string).collect()).unwrap_or_default();
        em.sort();
        json!({"set": em.join(","), "channels": m["channels"].to_string(), "ckey": m["ckey"]})
    }).collect()).unwrap_or_default();
    json!({"verdict": "ok", "drift": drift, "last": raw_ops.last().map(|o| o["a"].clone()), "res": case["res"], "pol": case["pol"].to_string(), "mticks": mticks,
           "ticks": w.ticks.iter().map(TickReal::json).collect::<Vec<_>>(),
           "stats": {"commits": stats.commits, "aborts": stats.aborts, "aborts_with_emissions": stats.aborts_with_emissions, "failed_commits": stats.failed_commits,
                     "emits": stats.emits, "dups": stats.dups, "conflicts": stats.conflicts, "publishes": stats.publishes, "frames": stats.frames,
                     "twins": stats.twins, "seeks": stats.seeks}})
}

// --------------------------------------------------------------------------- probes

fn probe(t: &Tables) -> Vec<Value> {
    let mut out = Vec::new();
    let pol = vec![Some(ChannelPolicy::StrictSingle), Some(ChannelPolicy::Reduce(ReduceOp::Concat))];
    let key = EmitKey::with_subkey([0u8; 32], 1, 0);
    // ---- (1) the runtime commit path with a host emission waiting on the engine's bus
    let r = util::catch(|| -> Result<Value, String> {
        let mut world = c07::World::new(&t.u0, 77 << 20)?;
        world.engine = {
            let mut e = build_engine(t, &pol, SchedulerKind::Radix, 1)?;
            e.register_rule(c07::rule()).map_err(|e| format!("register rule: {e:?}"))?;
            e
        };
        // a plain engine tick first, so that the engine's OWN last_materialization is not empty
        let tx = world.engine.begin();
        world.engine.materialization_bus().emit(t.chans[1], key, vec![1, 2, 3]).map_err(|e| format!("emit: {e:?}"))?;
        world.engine.commit_with_receipt(tx).map_err(|e| format!("commit: {e:?}"))?;
        let own_before = lm_pairs(world.engine.last_materialization());
        // host emission, then a runtime tick with a real graph effect
        world.engine.materialization_bus().emit(t.chans[1], EmitKey::with_subkey([0u8; 32], 2, 0), vec![9]).map_err(|e| format!("emit: {e:?}"))?;
        let mut ops = BTreeMap::new();
        ops.insert("n1".to_string(), "p1".to_string());
        world.ingest(wl(), 0, &c07::micro_ops(&ops))?;
        let recs = world.super_tick()?;
        let entry = world.prov.entry(wl(), c07::wt(0)).map_err(|e| format!("entry: {e:?}"))?;
        let live = world.live(wl());
        let recorded: Vec<(ChannelId, Vec<u8>)> = entry.outputs.clone();
        let live_lm: Vec<(ChannelId, Vec<u8>)> = live.last_materialization().iter().map(|c| (c.channel, c.data.clone())).collect();
        Ok(json!({
            "probe": "runtime_commit",
            "step_records": recs.len(),
            "entry_outputs": recorded.len(),
            "worldline_last_materialization": live_lm.len(),
            "recorded_equals_live": recorded == live_lm,
            "bus_empty_after_runtime_commit": world.engine.materialization_bus().is_empty(),
            "engine_own_outputs_before": own_before.len(),
            "engine_own_last_materialization_preserved": lm_pairs(world.engine.last_materialization()) == own_before,
        }))
    });
    out.push(match r {
        Ok(Ok(v)) => v,
        Ok(Err(e)) => json!({"probe": "runtime_commit", "error": e}),
        Err(p) => json!({"probe": "runtime_commit", "error": format!("panic: {p}")}),
    });
    // ---- (2) emissions outside a transaction; abort of a dead tx
    let r = util::catch(|| -> Result<Value, String> {
        let mut e = build_engine(t, &pol, SchedulerKind::Radix, 1)?;
        e.materialization_bus().emit(t.chans[1], key, vec![5]).map_err(|e| format!("emit: {e:?}"))?;
        let tx = e.begin();
        let joined = !e.materialization_bus().is_empty();
        e.commit_with_receipt(tx).map_err(|e| format!("commit: {e:?}"))?;
        let in_tick = e.last_materialization().len();
        let tx2 = e.begin();
        e.materialization_bus().emit(t.chans[1], EmitKey::with_subkey([0u8; 32], 3, 0), vec![6]).map_err(|e| format!("emit: {e:?}"))?;
        e.abort(TxId::from_raw(4242)); // not the live transaction
        let wiped = e.materialization_bus().is_empty();
        let still_live = e.commit_with_receipt(tx2).is_ok();
        Ok(json!({"probe": "outside_tx", "emission_before_begin_survives_begin": joined, "emission_before_begin_lands_in_next_tick": in_tick == 1,
                  "abort_of_unknown_tx_wipes_open_tx_emissions": wiped, "open_tx_still_commits_after_foreign_abort": still_live,
                  "that_tick_has_outputs": e.last_materialization().len()}))
    });
    out.push(match r {
        Ok(Ok(v)) => v,
        Ok(Err(e)) => json!({"probe": "outside_tx", "error": e}),
        Err(p) => json!({"probe": "outside_tx", "error": format!("panic: {p}")}),
    });
    out.push(match util::catch(|| probe_failed_commit(t, &pol)) {
        Ok(Ok(v)) => v,
        Ok(Err(e)) => json!({"probe": "failed_commit", "error": e}),
        Err(p) => json!({"probe": "failed_commit", "error": format!("panic: {p}")}),
    });
    out
}

// a rule whose executor panics: the public way to make commit_with_receipt fail AFTER the transaction emitted
fn boom_match(_: GraphView<'_>, _: &NodeId) -> bool {
    true
}
fn boom_exec(_: GraphView<'_>, _: &NodeId, _: &mut TickDelta) {
    panic!("truth/boom executor");
}
fn boom_fp(_: GraphView<'_>, _: &NodeId) -> Footprint {
    Footprint::default()
}
fn boom_rule() -> RewriteRule {
    RewriteRule {
        id: *blake3::hash(b"rule:truth/boom").as_bytes(),
        name: "truth/boom",
        left: PatternGraph { nodes: vec![] },
        matcher: boom_match,
        executor: boom_exec,
        compute_footprint: boom_fp,
        factor_mask: 1,
        conflict_policy: ConflictPolicy::Abort,
        join_fn: None,
    }
}

/// (3) a commit that fails after the transaction emitted (a rule executor panics), then the host's possible reactions
fn probe_failed_commit(t: &Tables, pol: &[Option<ChannelPolicy>]) -> Result<Value, String> {
    let key = |r: u32| EmitKey::with_subkey([0u8; 32], r, 0);
    let start = || -> Result<(Engine, TxId, String), String> {
        let mut e = build_engine(t, pol, SchedulerKind::Radix, 1)?;
        e.register_rule(boom_rule()).map_err(|e| format!("register: {e:?}"))?;
        let tx = e.begin();
        e.materialization_bus().emit(t.chans[1], key(1), vec![0xA1]).map_err(|e| format!("emit: {e:?}"))?;
        let root = t.u0.root().local_id;
        let applied = e.apply(tx, "truth/boom", &root).map_err(|e| format!("apply: {e:?}"))?;
        let how = match util::catch(|| e.commit_with_receipt(tx)) {
            Err(p) => format!("panic: {p}"),
            Ok(Err(err)) => format!("error: {err:?}"),
            Ok(Ok(_)) => format!("committed (apply = {applied:?})"),
        };
        Ok((e, tx, how))
    };
    // (a) what the failed commit leaves behind
    let (e, _, how) = start()?;
    let bus_keeps = !e.materialization_bus().is_empty();
    // (b) the host begins the next transaction without aborting the failed one
    let (mut e, _, _) = start()?;
    let tx2 = e.begin();
    e.materialization_bus().emit(t.chans[1], key(2), vec![0xB2]).map_err(|e| format!("emit: {e:?}"))?;
    let next = match util::catch(|| e.commit_with_receipt(tx2)) {
        Ok(Ok(_)) => e.last_materialization().iter().map(|c| c.data.clone()).collect::<Vec<_>>(),
        other => return Ok(json!({"probe": "failed_commit", "failed_commit": how, "next_commit": format!("{:?}", other.map(|r| r.map(|_| ())))})),
    };
    // (c) the host aborts the failed transaction first
    let (mut e, tx, _) = start()?;
    e.abort(tx);
    let clean_after_abort = e.materialization_bus().is_empty();
    let tx3 = e.begin();
    e.materialization_bus().emit(t.chans[1], key(2), vec![0xB2]).map_err(|e| format!("emit: {e:?}"))?;
    let after_abort = match util::catch(|| e.commit_with_receipt(tx3)) {
        Ok(Ok(_)) => e.last_materialization().iter().map(|c| c.data.clone()).collect::<Vec<_>>(),
        _ => vec![vec![0xEE]],
    };
    // (d) the host retries the commit of the failed transaction
    let (mut e, tx, _) = start()?;
    let retry = match util::catch(|| e.commit_with_receipt(tx)) {
        Ok(Ok(_)) => format!("committed with outputs {:?}", e.last_materialization().iter().map(|c| c.data.clone()).collect::<Vec<_>>()),
        Ok(Err(err)) => format!("error: {err:?}"),
        Err(p) => format!("panic: {p}"),
    };
    Ok(json!({"probe": "failed_commit", "failed_commit": how, "bus_keeps_emissions_of_failed_commit": bus_keeps,
              "next_tx_tick_outputs": next, "failed_tx_emission_leaks_into_next_tick": next.iter().any(|d| d.contains(&0xA1)),
              "clean_after_abort": clean_after_abort, "tick_after_abort_outputs": after_abort, "retry_of_failed_commit": retry}))
}

pub fn run(args: &[String]) -> i32 {
    if args.len() < 2 {
        eprintln!("usage: echo-verif truth <cases.ndjson> <results.ndjson> | truth probe <results.ndjson>");
        return 2;
    }
    let t = Tables::new();
    let mut out = util::Out::create(&args[1]);
    if args[0] == "probe" {
        for v in probe(&t) {
            out.line(&v);
        }
        out.finish();
        return 0;
    }
    let prev = std::panic::take_hook();
    std::panic::set_hook(Box::new(|_| {}));
    for (_, case) in util::read_lines(&args[0]) {
        let v = match std::panic::catch_unwind(std::panic::AssertUnwindSafe(|| check_case(&t, &case))) {
            Ok(v) => v,
            Err(p) => json!({"verdict": "violation", "kind": "panic_outside_commit", "detail": format!("panic: {}", util::panic_message(&p)), "drift": []}),
        };
        out.line(&v);
    }
    std::panic::set_hook(prev);
    out.finish();
    0
}
