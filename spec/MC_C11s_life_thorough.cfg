SPECIFICATION LSpec
CONSTANTS
  None = None
  Subs = {}
  MaxTx = 0
  MaxFrames = 0
  MaxCycles = 0
  RewriteAtomic = TRUE
  EpochGapRepaired = TRUE
  Mutant = "none"
  Repaired = TRUE
  LifeMaxSeg = 4
  LifeMaxTx = 5
  LifeMaxEp = 3
  LifeNF = 2
INVARIANTS Inv_LifeRecovers Inv_LifeOpens Inv_LifeManifest Inv_LifeProjection
CHECK_DEADLOCK FALSE
