\* C20 thorough, export: every memory-tier behaviour of 5 calls (2 blobs, 1 coordinate; reads not own steps)
SPECIFICATION Spec
CONSTANTS
  Blobs = {"a", "b"}
  Coords = {"k0"}
  Tiers = {"mem"}
  Faults = {}
  MaxFaults = 0
  Size <- MC_Size
  MaxBytes = 2
  MemFastPath = FALSE
  ReadOps = FALSE
  WithIndex = TRUE
  Export = TRUE
  MaxLen = 5
INVARIANTS TypeOK Inv_GetIntact Inv_MemWellFormed Inv_CorruptionDetected Inv_HasMeansGet Inv_LoadIntact Inv_Export
PROPERTIES P_MismatchRefused P_PutIdempotent P_PinKeepsContent P_ReadsReadOnly P_Reopen P_IndexStable
CONSTRAINT DepthBound
CHECK_DEADLOCK FALSE
