#!/bin/sh
# Builds the framework from files on disk only (offline): harness binary + syntax check of every spec.
set -e
cd "$(dirname "$0")"
mkdir -p work evidence replays
cp /repo/Cargo.lock harness/Cargo.lock
(cd harness && CARGO_NET_OFFLINE=true cargo build --offline --target-dir target)
for m in spec/*.tla; do
  b=$(basename "$m" .tla)
  (cd spec && java -cp /opt/veriftools/tla/tla2tools.jar:/opt/veriftools/tla/CommunityModules-deps.jar tla2sany.SANY "$b.tla" > ../work/sany_$b.out 2>&1) || { echo "SANY failed on $b"; cat work/sany_$b.out | tail -20; exit 1; }
  if grep -q -E 'Semantic errors|Parse Error|Fatal errors' work/sany_$b.out; then echo "SANY errors in $b"; tail -20 work/sany_$b.out; exit 1; fi
done
echo "setup ok"
