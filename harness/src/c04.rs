//! C04: replay of model-enumerated (before, after) pairs into the real
//! `diff_state` + `WarpTickPatchV1::apply_to_state`.
//!
//! Per case the harness decides the property itself on the real code (the applied
//! delta must yield exactly `b` — projection, per-store canonical hash and state
//! root — or fail with a typed error) and reports where the real ops / outcome
//! differ from the model's prediction ("drift").

use serde::Deserialize;
use serde_json::{json, Value};
use warp_core::{TickCommitStatus, WarpTickPatchV1};

use crate::absgraph::{self, OpJ, StateJ};
use crate::ids::Inverse;
use crate::util;

#[derive(Deserialize)]
struct Case {
    a: StateJ,
    b: StateJ,
    ops: Vec<OpJ>,
    ok: bool,
    errs: Vec<String>,
    #[allow(dead_code)]
    same: bool,
}

pub fn check_case(inv: &Inverse, v: &Value) -> Value {
    let case: Case = match serde_json::from_value(v.clone()) {
        Ok(c) => c,
        Err(e) => return json!({"verdict":"tool_error","detail":format!("case parse: {e}")}),
    };
    let a_abs = case.a.clone().normalized();
    let b_abs = case.b.clone().normalized();
    let a_real = absgraph::build_state(&case.a);
    let b_real = absgraph::build_state(&case.b);
    // abstraction round trip (guards the harness itself)
    match (absgraph::project_state(inv, &a_real), absgraph::project_state(inv, &b_real)) {
        (Ok(pa), Ok(pb)) if pa == a_abs && pb == b_abs => {}
        (pa, pb) => {
            return json!({"verdict":"tool_error","detail":format!("projection round trip failed: {pa:?} / {pb:?}")})
        }
    }
    let root = absgraph::nkey("w0", "n0");
    let real_ops = match util::catch(|| warp_core::verif::diff_state(&a_real, &b_real)) {
        Ok(o) => o,
        Err(p) => return json!({"verdict":"violation","kind":"diff_panicked","detail":p}),
    };
    let mut drift: Vec<String> = Vec::new();
    let abs_ops: Result<Vec<OpJ>, String> = real_ops.iter().map(|o| absgraph::op_to_abs(inv, o)).collect();
    match &abs_ops {
        Ok(ops) if *ops == case.ops => {}
        Ok(ops) => drift.push(format!(
            "diff ops differ: real={} model={}",
            serde_json::to_string(ops).unwrap_or_default(),
            serde_json::to_string(&case.ops).unwrap_or_default()
        )),
        Err(e) => drift.push(format!("diff ops not projectable: {e}")),
    }
    // the engine's own path: canonicalising patch constructor + apply_to_state
    let patch = WarpTickPatchV1::new(0, [0u8; 32], TickCommitStatus::Committed, vec![], vec![], real_ops.clone());
    let mut replayed = a_real.clone();
    let applied = util::catch(|| patch.apply_to_state(&mut replayed));
    let outcome = match applied {
        Err(p) => return json!({"verdict":"violation","kind":"apply_panicked","detail":p}),
        Ok(r) => r,
    };
    match outcome {
        Ok(()) => {
            let got = absgraph::project_state(inv, &replayed);
            let root_got = warp_core::verif::legacy_state_root(&replayed, &root);
            let root_want = warp_core::verif::legacy_state_root(&b_real, &root);
            let stores_equal = warp_core::verif::store_ids(&b_real).iter().all(|w| {
                match (replayed.store(w), b_real.store(w)) {
                    (Some(x), Some(y)) => x.canonical_state_hash() == y.canonical_state_hash(),
                    _ => false,
                }
            });
            match got {
                Ok(g) if g == b_abs && root_got == root_want && stores_equal => {
                    if !case.ok {
                        drift.push(format!("model predicted failure {:?}, real apply succeeded", case.errs));
                    }
                    // accumulator agreement on the same delta (C06 facet)
                    let (acc_root, _) = warp_core::verif::accumulator_apply(&a_real, real_ops, &root);
                    if acc_root != root_want {
                        return json!({"verdict":"violation","kind":"accumulator_root_differs",
                            "detail":format!("accumulator={} legacy={}", util::hex32(&acc_root), util::hex32(&root_want)),
                            "drift":drift});
                    }
                    json!({"verdict":"ok","outcome":"same","nops":patch.ops().len(),"drift":drift})
                }
                Ok(g) => json!({"verdict":"violation","kind":"third_state",
                    "detail":format!("apply returned Ok but state differs: got={} want={} root_equal={} stores_equal={}",
                        serde_json::to_string(&g).unwrap_or_default(),
                        serde_json::to_string(&b_abs).unwrap_or_default(), root_got == root_want, stores_equal),
                    "drift":drift}),
                Err(e) => json!({"verdict":"violation","kind":"replayed_state_malformed","detail":e,"drift":drift}),
            }
        }
        Err(e) => {
            let class = absgraph::err_class(&e);
            if case.ok {
                drift.push(format!("model predicted success, real apply failed with {class}"));
            } else if !case.errs.iter().any(|c| c == class) {
                drift.push(format!("error class differs: real={class} model={:?}", case.errs));
            }
            json!({"verdict":"ok","outcome":format!("err:{class}"),"nops":patch.ops().len(),"drift":drift})
        }
    }
}

pub fn run(args: &[String]) -> i32 {
    if args.len() < 2 {
        eprintln!("usage: echo-verif c04 <cases.ndjson> <results.ndjson>");
        return 2;
    }
    let inv = Inverse::new();
    let mut out = util::Out::create(&args[1]);
    let (mut n, mut viol, mut drift, mut tool) = (0u64, 0u64, 0u64, 0u64);
    for (i, v) in util::read_lines(&args[0]) {
        let mut r = check_case(&inv, &v);
        r["i"] = json!(i);
        n += 1;
        match r["verdict"].as_str() {
            Some("violation") => viol += 1,
            Some("tool_error") => tool += 1,
            _ => {}
        }
        if r["drift"].as_array().is_some_and(|d| !d.is_empty()) {
            drift += 1;
        }
        out.line(&r);
    }
    out.finish();
    println!("{}", json!({"cases":n,"violations":viol,"drift":drift,"tool_errors":tool}));
    if tool > 0 { 2 } else { 0 }
}
