//! C04, ledger leg: replay of model-enumerated multi-tick HISTORIES on ONE real `Engine`.
//!
//! A history (spec/Ledger.tla, spec/MC_C04l.tla) is a script of macro steps
//!   tick(S)  = begin; apply every candidate of S; commit_with_receipt
//!   abort(S) = begin; apply every candidate of S; abort
//!   jump(k)  = jump_to_tick(k) with the history continuing afterwards (rewind cfgs only)
//!   fail(S)  = begin; apply S; commit_with_receipt must fail; abort (failed cfgs only)
//! The harness runs the script on one engine per configuration (Radix / Legacy x 1 / 4 workers) and decides the
//! property on the REAL outcome:
//!   * after every tick: the emitted patch applied to the state the tick started from (`apply_to_state`, and
//!     `WorldlineTickPatchV1::apply_to_worldline_state`) gives exactly the live state (projection + state root);
//!     the ledger grew by exactly this (snapshot, receipt, patch); `parents` = [hash of the previous snapshot];
//!     the snapshot's state root is the root of the live state, its commit id is recomputable;
//!   * an aborted transaction left nothing: state, root, ledger, `snapshot()` unchanged, the tx is dead;
//!   * after the last tick: `jump_to_tick(k)` for every k, forward, backward and repeated, reproduces the
//!     projected state AND state root recorded live after tick k, and does not touch the ledger;
//!   * `slice_worldline_indices` on the real patches, and the slice theorem on the real states (replay of only
//!     the sliced patches from U0 gives the final value of the slot).
//! Everything the model predicted (post-state, patch ops, in/out slots, tx numbers, slices, jump outcomes) is
//! compared as well; a mismatch that keeps the property is reported as drift.

use serde::Deserialize;
use serde_json::{json, Value};
use warp_core::{
    compute_commit_hash_v2, slice_worldline_indices, ApplyResult, Engine, GlobalTick, SchedulerKind, SlotId, Snapshot,
    WarpState, WarpTickPatchV1, WorldlineState, WorldlineTickHeaderV1, WorldlineTickPatchV1,
};

use crate::absgraph::{self, KeyJ, OpJ, StateJ};
use crate::c01::{self, CandJ, Descent};
use crate::ids::Inverse;
use crate::programs::{self, Program};
use crate::util;

#[derive(Deserialize, Clone, Debug, PartialEq, Eq, PartialOrd, Ord)]
struct SlotJ {
    k: String,
    #[serde(default)]
    o: String,
    w: String,
    id: String,
}

#[derive(Deserialize)]
struct StepJ {
    kind: String,
    cands: Vec<CandJ>,
    #[serde(default)]
    k: usize,
}

#[derive(Deserialize)]
struct TickJ {
    tx: u64,
    post: StateJ,
    patch: Vec<OpJ>,
    ins: Vec<SlotJ>,
    outs: Vec<SlotJ>,
    #[serde(rename = "jumpOk")]
    jump_ok: bool,
    #[serde(rename = "jumpSame")]
    jump_same: bool,
}

#[derive(Deserialize)]
struct SliceJ {
    slot: SlotJ,
    ticks: Vec<usize>,
    ok: bool,
    same: bool,
}

#[derive(Deserialize)]
struct Case {
    pre: StateJ,
    prog: Vec<Program>,
    #[serde(default)]
    descent: Descent,
    steps: Vec<StepJ>,
    ticks: Vec<TickJ>,
    slices: Vec<SliceJ>,
}

fn slot_to_real(s: &SlotJ) -> Option<SlotId> {
    match s.k.as_str() {
        "node" => Some(SlotId::Node(absgraph::nkey(&s.w, &s.id))),
        "edge" => Some(SlotId::Edge(absgraph::ekey(&s.w, &s.id))),
        "att" => absgraph::key_to_real(&KeyJ { o: s.o.clone(), w: s.w.clone(), id: s.id.clone() }).map(SlotId::Attachment),
        _ => None,
    }
}

fn slot_to_abs(inv: &Inverse, s: &SlotId) -> Result<SlotJ, String> {
    Ok(match s {
        SlotId::Node(k) => SlotJ { k: "node".into(), o: String::new(), w: inv.warp(&k.warp_id)?.into(), id: inv.node(&k.local_id)?.into() },
        SlotId::Edge(k) => SlotJ { k: "edge".into(), o: String::new(), w: inv.warp(&k.warp_id)?.into(), id: inv.edge(&k.local_id)?.into() },
        SlotId::Attachment(a) => {
            let k = absgraph::key_to_abs(inv, Some(a))?;
            SlotJ { k: "att".into(), o: k.o, w: k.w, id: k.id }
        }
        SlotId::Port(_) => return Err("port slot".into()),
    })
}

fn slots_abs(inv: &Inverse, slots: &[SlotId]) -> Result<Vec<SlotJ>, String> {
    let mut v: Vec<SlotJ> = slots.iter().map(|s| slot_to_abs(inv, s)).collect::<Result<_, _>>()?;
    v.sort();
    v.dedup();
    Ok(v)
}

/// The value a slot holds in a (projected) state, as a comparable string; "none" = absent.
fn slot_value(p: &StateJ, s: &SlotJ) -> String {
    match s.k.as_str() {
        "node" => p.node.iter().find(|n| n.w == s.w && n.n == s.id).map(|n| format!("ty={}", n.ty)).unwrap_or_else(|| "none".into()),
        "edge" => p.edge.iter().find(|e| e.w == s.w && e.e == s.id).map(|e| format!("{}->{}:{}", e.from, e.to, e.ty)).unwrap_or_else(|| "none".into()),
        _ => {
            let att = if s.o == "n" {
                p.node.iter().find(|n| n.w == s.w && n.n == s.id).map(|n| n.att.clone())
            } else {
                p.edge.iter().find(|e| e.w == s.w && e.e == s.id).map(|e| e.att.clone())
            };
            match att {
                Some(a) if a.k != "none" => format!("{}:{}{}", a.k, a.p, a.w),
                _ => "none".into(),
            }
        }
    }
}

struct Viol {
    kind: &'static str,
    detail: String,
}

fn viol<T>(kind: &'static str, detail: String) -> Result<T, Viol> {
    Err(Viol { kind, detail })
}

/// What one configuration recorded while running the script.
struct Run {
    commits: Vec<String>,
    roots: Vec<String>,
    patches: Vec<String>,
    receipts: Vec<String>,
    slice_holds: usize,
    slice_failed: Vec<Value>,
    slice_unpredicted: usize,
    slices_checked: usize,
    jumps: usize,
    wl_applied: usize,
}

fn snap_view(s: &Snapshot) -> (warp_core::Hash, Vec<warp_core::Hash>, warp_core::Hash, warp_core::Hash) {
    (s.hash, s.parents.clone(), s.state_root, s.patch_digest)
}

fn project(inv: &Inverse, st: &WarpState, what: &str) -> Result<StateJ, Viol> {
    absgraph::project_state(inv, st).map_err(|e| Viol { kind: "state_malformed", detail: format!("{what}: {e}") })
}

#[allow(clippy::too_many_lines)]
fn run_history(
    inv: &Inverse,
    case: &Case,
    pre: &WarpState,
    kind: SchedulerKind,
    workers: usize,
    full: bool,
    reverse: bool,
    drift: &mut Vec<String>,
    cfg: &str,
) -> Result<Result<Run, Viol>, String> {
    let root = absgraph::nkey("w0", "n0");
    let sroot = |st: &WarpState| warp_core::verif::legacy_state_root(st, &root);
    let mut engine: Engine = c01::build_engine(pre, case.prog.len(), kind, workers)?;
    let mut note = |d: String| {
        if drift.len() < 6 {
            drift.push(format!("{cfg}: {d}"));
        }
    };
    // recorded live: state / projection / root AFTER tick k (index 0 = U0)
    let mut states: Vec<WarpState> = vec![pre.clone()];
    let mut projs: Vec<StateJ> = vec![match project(inv, pre, "U0") {
        Ok(p) => p,
        Err(v) => return Ok(Err(v)),
    }];
    let mut roots: Vec<warp_core::Hash> = vec![sroot(pre)];
    let mut snaps: Vec<Snapshot> = Vec::new();
    let mut patches: Vec<WarpTickPatchV1> = Vec::new();
    let mut run = Run { commits: vec![], roots: vec![], patches: vec![], receipts: vec![], slice_holds: 0, slice_failed: vec![], slice_unpredicted: 0, slices_checked: 0, jumps: 0, wl_applied: 0 };

    let res: Result<(), Viol> = (|| {
        if !engine.get_ledger().is_empty() || !engine.snapshot().parents.is_empty() {
            return viol("fresh_engine_has_history", format!("{cfg}: a fresh engine has a ledger entry or a parent"));
        }
        let apply_all = |engine: &mut Engine, tx, cands: &[CandJ], must_match: bool| -> Result<(), String> {
            let mut order: Vec<&CandJ> = cands.iter().collect();
            if reverse {
                order.reverse();
            }
            for c in order {
                let res = engine
                    .apply_in_warp(tx, crate::ids::warp(&c.w), programs::rule_name(c.r), &crate::ids::node(&c.n), &c01::descent_stack(&case.descent, &c.w))
                    .map_err(|e| format!("apply failed: {e:?}"))?;
                if must_match && !matches!(res, ApplyResult::Applied) {
                    return Err(format!("candidate {c:?} did not match in the real engine"));
                }
            }
            Ok(())
        };
        for (si, step) in case.steps.iter().enumerate() {
            match step.kind.as_str() {
                "tick" => {
                    let k = snaps.len(); // 0-based index of the tick being committed
                    let want = case.ticks.get(k).ok_or_else(|| Viol { kind: "tool", detail: "more tick steps than predicted ticks".into() })?;
                    let before = engine.state().clone();
                    let before_proj = project(inv, &before, "pre-tick state")?;
                    let pre_snap = engine.snapshot();
                    let tx = engine.begin();
                    apply_all(&mut engine, tx, &step.cands, true).map_err(|e| Viol { kind: "tool", detail: e })?;
                    let (snap, receipt, patch) = match util::catch(|| engine.commit_with_receipt(tx)) {
                        Err(p) => return viol("tick_failed", format!("{cfg}: step {si}: commit panicked: {}", &p[..p.len().min(300)])),
                        Ok(Err(e)) => return viol("tick_failed", format!("{cfg}: step {si}: the model predicts a committed tick, commit_with_receipt returned {e:?}")),
                        Ok(Ok(t)) => t,
                    };
                    // ---- the ledger grew by exactly this tick
                    let ledger = engine.get_ledger();
                    if ledger.len() != k + 1 {
                        return viol("ledger_length", format!("{cfg}: {} ledger entries after {} committed ticks", ledger.len(), k + 1));
                    }
                    let (ls, lr, lp) = &ledger[k];
                    if *ls != snap || lr.digest() != receipt.digest() || lp.digest() != patch.digest() || lp.ops() != patch.ops() {
                        return viol("ledger_entry_differs", format!("{cfg}: ledger entry {k} is not the (snapshot, receipt, patch) commit returned"));
                    }
                    // ---- commit chain
                    let want_parents: Vec<warp_core::Hash> = snaps.last().map(|s| vec![s.hash]).unwrap_or_default();
                    if snap.parents != want_parents {
                        return viol("parents_chain", format!("{cfg}: tick {k}: parents {:?} but the previous snapshot is {:?}",
                            snap.parents.iter().map(util::hex32).collect::<Vec<_>>(), want_parents.iter().map(util::hex32).collect::<Vec<_>>()));
                    }
                    if pre_snap.parents != want_parents {
                        return viol("snapshot_parents", format!("{cfg}: snapshot() before tick {k} does not name the previous commit as parent"));
                    }
                    let live_root = sroot(engine.state());
                    if snap.state_root != live_root {
                        return viol("state_root_not_of_state", format!("{cfg}: tick {k}: snapshot.state_root is not the root of the live state"));
                    }
                    if snap.patch_digest != patch.digest() || patch.validate_digest().is_err() {
                        return viol("patch_digest_not_of_patch", format!("{cfg}: tick {k}: snapshot.patch_digest is not the digest of the emitted patch"));
                    }
                    if snap.hash != compute_commit_hash_v2(&snap.state_root, &snap.parents, &snap.patch_digest, snap.policy_id) {
                        return viol("commit_hash_not_recomputable", format!("{cfg}: tick {k}: commit id is not H(state_root, parents, patch_digest, policy)"));
                    }
                    if snaps.iter().any(|s| s.hash == snap.hash) {
                        return viol("commit_id_repeated", format!("{cfg}: tick {k}: commit id equals the id of an earlier tick"));
                    }
                    // model: snapshot() is the commit id an empty tick would get
                    if step.cands.is_empty() && pre_snap.hash != snap.hash {
                        note(format!("empty tick {k}: commit id differs from snapshot().hash taken just before"));
                    }
                    if snap.tx.value() != want.tx {
                        note(format!("tick {k}: tx {} but the model counts {}", snap.tx.value(), want.tx));
                    }
                    // ---- C04: the patch applied to the state the tick started from is the live state
                    let after_proj = project(inv, engine.state(), "post-tick state")?;
                    let mut replayed = before.clone();
                    match util::catch(|| patch.apply_to_state(&mut replayed)) {
                        Ok(Ok(())) => {
                            let same = project(inv, &replayed, "replayed state")? == after_proj;
                            if !same || sroot(&replayed) != live_root {
                                return viol("patch_replay_differs", format!("{cfg}: tick {k}: patch.apply_to_state(pre) != post (projection equal: {same}, roots equal: {})", sroot(&replayed) == live_root));
                            }
                        }
                        other => return viol("patch_replay_failed", format!("{cfg}: tick {k}: {other:?}")),
                    }
                    if full {
                        if let Ok(mut ws) = WorldlineState::new(before.clone(), root) {
                            let wp = WorldlineTickPatchV1 {
                                header: WorldlineTickHeaderV1 {
                                    commit_global_tick: GlobalTick::from_raw(k as u64 + 1),
                                    policy_id: patch.policy_id(),
                                    rule_pack_id: patch.rule_pack_id(),
                                    plan_digest: snap.plan_digest,
                                    decision_digest: snap.decision_digest,
                                    rewrites_digest: snap.rewrites_digest,
                                },
                                warp_id: root.warp_id,
                                ops: patch.ops().to_vec(),
                                in_slots: patch.in_slots().to_vec(),
                                out_slots: patch.out_slots().to_vec(),
                                patch_digest: patch.digest(),
                            };
                            match util::catch(|| wp.apply_to_worldline_state(&mut ws)) {
                                Ok(Ok(())) => {
                                    let same = project(inv, ws.warp_state(), "worldline state")? == after_proj;
                                    if !same || ws.state_root() != snap.state_root {
                                        return viol("worldline_patch_replay_differs", format!("{cfg}: tick {k}: apply_to_worldline_state(pre) != post (projection equal: {same}, roots equal: {})", ws.state_root() == snap.state_root));
                                    }
                                    run.wl_applied += 1;
                                }
                                other => return viol("worldline_patch_replay_failed", format!("{cfg}: tick {k}: {other:?}")),
                            }
                        }
                    }
                    // ---- model predictions (drift)
                    if after_proj != want.post.clone().normalized() {
                        note(format!("tick {k}: post-state differs from the model: got {} want {}", serde_json::to_string(&after_proj).unwrap_or_default(), serde_json::to_string(&want.post).unwrap_or_default()));
                    }
                    if full {
                        match patch.ops().iter().map(|o| absgraph::op_to_abs(inv, o)).collect::<Result<Vec<OpJ>, String>>() {
                            Ok(ops) if ops == want.patch => {}
                            other => note(format!("tick {k}: patch ops differ from the model's Diff: {other:?}")),
                        }
                        let mut wi = want.ins.clone();
                        wi.sort();
                        let mut wo = want.outs.clone();
                        wo.sort();
                        match (slots_abs(inv, patch.in_slots()), slots_abs(inv, patch.out_slots())) {
                            (Ok(i), Ok(o)) if i == wi && o == wo => {}
                            other => note(format!("tick {k}: in/out slots differ from the model: {other:?}")),
                        }
                    }
                    let _ = before_proj;
                    run.commits.push(util::hex32(&snap.hash));
                    run.roots.push(util::hex32(&snap.state_root));
                    run.patches.push(util::hex32(&snap.patch_digest));
                    run.receipts.push(util::hex32(&receipt.digest()));
                    states.push(engine.state().clone());
                    projs.push(after_proj);
                    roots.push(live_root);
                    snaps.push(snap);
                    patches.push(patch);
                }
                "abort" => {
                    let before_proj = project(inv, engine.state(), "pre-abort state")?;
                    let before_root = sroot(engine.state());
                    let before_len = engine.get_ledger().len();
                    let before_snap = snap_view(&engine.snapshot());
                    let before_tip = engine.get_ledger().last().map(|(s, _, p)| (s.clone(), p.digest()));
                    let tx = engine.begin();
                    apply_all(&mut engine, tx, &step.cands, false).map_err(|e| Viol { kind: "tool", detail: e })?;
                    engine.abort(tx);
                    // the transaction is dead: it can neither be extended nor committed
                    let dead_apply = step.cands.first().map(|c| {
                        engine.apply_in_warp(tx, crate::ids::warp(&c.w), programs::rule_name(c.r), &crate::ids::node(&c.n), &c01::descent_stack(&case.descent, &c.w))
                    });
                    if let Some(Ok(r)) = dead_apply {
                        return viol("aborted_tx_alive", format!("{cfg}: step {si}: apply on an aborted transaction returned Ok({r:?})"));
                    }
                    match util::catch(|| engine.commit_with_receipt(tx)) {
                        Ok(Err(_)) => {}
                        other => return viol("aborted_tx_alive", format!("{cfg}: step {si}: commit of an aborted transaction: {:?}", other.map(|r| r.map(|_| "Ok"))) ),
                    }
                    let after_proj = project(inv, engine.state(), "post-abort state")?;
                    let after_tip = engine.get_ledger().last().map(|(s, _, p)| (s.clone(), p.digest()));
                    if after_proj != before_proj || sroot(engine.state()) != before_root || engine.get_ledger().len() != before_len
                        || snap_view(&engine.snapshot()) != before_snap || after_tip != before_tip
                    {
                        return viol("abort_left_trace", format!("{cfg}: step {si}: state equal {}, root equal {}, ledger {} -> {}, snapshot() equal {}",
                            after_proj == before_proj, sroot(engine.state()) == before_root, before_len, engine.get_ledger().len(), snap_view(&engine.snapshot()) == before_snap));
                    }
                }
                "fail" => {
                    // the model predicts that the merged ops of this transaction do not apply: commit must return an
                    // error (or panic) and, like an aborted transaction, leave nothing behind
                    let before_proj = project(inv, engine.state(), "pre-fail state")?;
                    let before_root = sroot(engine.state());
                    let before_len = engine.get_ledger().len();
                    let before_snap = snap_view(&engine.snapshot());
                    let tx = engine.begin();
                    apply_all(&mut engine, tx, &step.cands, true).map_err(|e| Viol { kind: "tool", detail: e })?;
                    let outcome = match util::catch(|| engine.commit_with_receipt(tx)) {
                        Ok(Ok(_)) => return viol("tool", format!("{cfg}: step {si}: the model predicts a failing commit, the real commit succeeded")),
                        Ok(Err(e)) => format!("{e:?}"),
                        Err(p) => format!("panic: {}", &p[..p.len().min(120)]),
                    };
                    engine.abort(tx);
                    let after_proj = project(inv, engine.state(), "post-fail state")?;
                    if after_proj != before_proj || sroot(engine.state()) != before_root || engine.get_ledger().len() != before_len
                        || snap_view(&engine.snapshot()) != before_snap
                    {
                        return viol("failed_commit_left_trace", format!("{cfg}: step {si}: commit returned {outcome}; afterwards state equal {}, root equal {}, ledger {} -> {}, snapshot() equal {}; state now {}",
                            after_proj == before_proj, sroot(engine.state()) == before_root, before_len, engine.get_ledger().len(), snap_view(&engine.snapshot()) == before_snap,
                            serde_json::to_string(&after_proj).unwrap_or_default()));
                    }
                }
                "jump" => {
                    // rewind: jump_to_tick(k) and keep committing (the ledger is not truncated by the code)
                    let k = step.k;
                    match util::catch(|| engine.jump_to_tick(k - 1)) {
                        Ok(Ok(())) => {}
                        other => return viol("jump_failed", format!("{cfg}: step {si}: jump_to_tick({}) : {other:?}", k - 1)),
                    }
                    let p = project(inv, engine.state(), "jumped state")?;
                    if p != projs[k] || sroot(engine.state()) != roots[k] {
                        return viol("jump_differs", format!("{cfg}: step {si}: jump_to_tick({}) is not the state recorded after that tick", k - 1));
                    }
                }
                other => return viol("tool", format!("unknown step kind {other}")),
            }
        }
        // ------------------------------------------------------------------ after the last step
        let n = snaps.len();
        let ledger_view = |e: &Engine| -> Vec<(warp_core::Hash, warp_core::Hash)> { e.get_ledger().iter().map(|(s, _, p)| (s.hash, p.digest())).collect() };
        let ledger_before = ledger_view(&engine);
        if ledger_before.len() != n || ledger_before.iter().zip(snaps.iter()).any(|(l, s)| l.0 != s.hash || l.1 != s.patch_digest) {
            return viol("ledger_entry_differs", format!("{cfg}: the final ledger is not the sequence of committed (snapshot, patch)"));
        }
        // jump_to_tick(k) for every k: forward, backward, repeated, and back to the tip
        let mut order: Vec<usize> = (0..n).collect();
        order.extend((0..n).rev());
        for k in 0..n {
            order.push(k);
            order.push(k);
        }
        if n > 0 {
            order.push(n - 1);
        }
        for k in order {
            let want = &case.ticks[k];
            match util::catch(|| engine.jump_to_tick(k)) {
                Ok(Ok(())) => {
                    let p = project(inv, engine.state(), "jumped state")?;
                    let r = sroot(engine.state());
                    let same = p == projs[k + 1];
                    if !same || r != roots[k + 1] || r != snaps[k].state_root {
                        return viol("jump_differs", format!("{cfg}: jump_to_tick({k}) is not the state recorded live after tick {k} (projection equal: {same}, root equal: {}; model predicted ok={} same={})",
                            r == roots[k + 1], want.jump_ok, want.jump_same));
                    }
                    if !want.jump_same {
                        note(format!("jump_to_tick({k}) reproduces the recorded state, the model predicted it would not"));
                    }
                }
                other => return viol("jump_failed", format!("{cfg}: jump_to_tick({k}): {other:?} (model predicted ok={})", want.jump_ok)),
            }
            run.jumps += 1;
            if ledger_view(&engine) != ledger_before {
                return viol("jump_changed_ledger", format!("{cfg}: jump_to_tick({k}) changed the ledger"));
            }
        }
        match engine.jump_to_tick(n) {
            Err(warp_core::EngineError::InvalidTickIndex(_, _)) => {}
            other => return viol("jump_out_of_range", format!("{cfg}: jump_to_tick({n}) on a ledger of {n}: {other:?}")),
        }
        if n > 0 && (project(inv, engine.state(), "state after rejected jump")? != projs[n] || engine.snapshot().parents != vec![snaps[n - 1].hash]) {
            return viol("jump_out_of_range", format!("{cfg}: a rejected jump changed the state or the tip"));
        }
        // ------------------------------------------------------------------ slices
        if full {
            let real_patches: Vec<WarpTickPatchV1> = engine.get_ledger().iter().map(|(_, _, p)| p.clone()).collect();
            let final_proj = &projs[n];
            for sl in &case.slices {
                let Some(slot) = slot_to_real(&sl.slot) else {
                    return viol("tool", format!("bad slot {:?}", sl.slot));
                };
                let real: Vec<usize> = match util::catch(|| slice_worldline_indices(&real_patches, slot)) {
                    Ok(v) => v,
                    Err(p) => return viol("slice_panicked", format!("{cfg}: slice_worldline_indices({:?}) panicked: {p}", sl.slot)),
                };
                let mut want: Vec<usize> = sl.ticks.iter().map(|t| t - 1).collect();
                want.sort_unstable();
                if real != want {
                    note(format!("slice of {:?}: real {real:?}, model {want:?} (0-based)", sl.slot));
                }
                if real.windows(2).any(|w| w[0] >= w[1]) || real.iter().any(|t| *t >= n) {
                    return viol("slice_not_ascending_ticks", format!("{cfg}: slice of {:?} = {real:?}", sl.slot));
                }
                // the slice theorem on the real states
                let mut st = pre.clone();
                let mut failed: Option<String> = None;
                for t in &real {
                    match util::catch(|| real_patches[*t].apply_to_state(&mut st)) {
                        Ok(Ok(())) => {}
                        other => {
                            failed = Some(format!("patch {t}: {other:?}"));
                            break;
                        }
                    }
                }
                run.slices_checked += 1;
                let want_val = slot_value(final_proj, &sl.slot);
                match failed {
                    Some(why) => {
                        if sl.ok {
                            run.slice_unpredicted += 1;
                            note(format!("slice of {:?}: sliced replay fails on the real code ({why}), the model predicted it applies", sl.slot));
                        }
                        if run.slice_failed.len() < 3 {
                            run.slice_failed.push(json!({"slot": format!("{:?}", sl.slot), "slice": real, "why": why, "predicted": !sl.ok}));
                        } else {
                            run.slice_failed.push(Value::Null);
                        }
                    }
                    None => {
                        let got = slot_value(&project(inv, &st, "sliced replay")?, &sl.slot);
                        if got != want_val {
                            return viol("slice_value_differs", format!("{cfg}: slot {:?}: replaying only ticks {real:?} from U0 gives {got}, the full history gives {want_val} (model predicted ok={} same={})", sl.slot, sl.ok, sl.same));
                        }
                        if !sl.ok || !sl.same {
                            note(format!("slice of {:?}: holds on the real code, the model predicted ok={} same={}", sl.slot, sl.ok, sl.same));
                        }
                        run.slice_holds += 1;
                    }
                }
            }
        }
        Ok(())
    })();
    Ok(res.map(|()| run))
}

pub fn check_case(inv: &Inverse, v: &Value) -> Value {
    let case: Case = match serde_json::from_value(v.clone()) {
        Ok(c) => c,
        Err(e) => return json!({"verdict":"tool_error","detail":format!("case parse: {e}")}),
    };
    programs::install(&case.prog);
    let pre = absgraph::build_state(&case.pre);
    let mut drift: Vec<String> = Vec::new();
    let mut reference: Option<(String, Vec<String>, Vec<String>, Vec<String>, Vec<String>)> = None;
    let mut out = serde_json::Map::new();
    let mut first = true;
    for (kind, kname) in [(SchedulerKind::Radix, "radix"), (SchedulerKind::Legacy, "legacy")] {
        for workers in [1usize, 4] {
            let cfg = format!("{kname}/{workers}");
            // the order of the apply calls within one transaction is reversed on every other configuration
            let reverse = workers == 4;
            let r = match run_history(inv, &case, &pre, kind, workers, first, reverse, &mut drift, &cfg) {
                Err(e) => return json!({"verdict":"tool_error","detail":format!("{cfg}: {e}")}),
                Ok(Err(v)) if v.kind == "tool" => return json!({"verdict":"tool_error","detail":format!("{cfg}: {}", v.detail)}),
                Ok(Err(v)) => return json!({"verdict":"violation","kind":v.kind,"detail":v.detail,"cfg":cfg}),
                Ok(Ok(r)) => r,
            };
            match &reference {
                None => reference = Some((cfg.clone(), r.commits.clone(), r.roots.clone(), r.patches.clone(), r.receipts.clone())),
                Some((c0, commits, roots, patches, receipts)) => {
                    if *commits != r.commits || *roots != r.roots || *patches != r.patches || *receipts != r.receipts {
                        return json!({"verdict":"violation","kind":"history_depends_on_config",
                            "detail":format!("{cfg} vs {c0}: commits equal {}, roots equal {}, patch digests equal {}, receipt digests equal {}",
                                *commits == r.commits, *roots == r.roots, *patches == r.patches, *receipts == r.receipts)});
                    }
                }
            }
            if first {
                out.insert("commits".into(), json!(r.commits));
                out.insert("roots".into(), json!(r.roots));
                out.insert("patches".into(), json!(r.patches));
                out.insert("slices".into(), json!(r.slices_checked));
                out.insert("slice_holds".into(), json!(r.slice_holds));
                out.insert("slice_failed".into(), json!(r.slice_failed.len()));
                out.insert("slice_unpredicted".into(), json!(r.slice_unpredicted));
                out.insert("slice_failed_samples".into(), json!(r.slice_failed.iter().filter(|v| !v.is_null()).collect::<Vec<_>>()));
                out.insert("wl_applied".into(), json!(r.wl_applied));
            }
            let j = out.get("jumps").and_then(Value::as_u64).unwrap_or(0) + r.jumps as u64;
            out.insert("jumps".into(), json!(j));
            first = false;
        }
    }
    out.insert("verdict".into(), json!("ok"));
    out.insert("drift".into(), json!(drift));
    Value::Object(out)
}

pub fn run(args: &[String]) -> i32 {
    if args.len() < 2 {
        eprintln!("usage: echo-verif c04l <cases.ndjson> <results.ndjson>");
        return 2;
    }
    let inv = Inverse::new();
    let mut out = util::Out::create(&args[1]);
    let (mut n, mut viol, mut tool) = (0u64, 0u64, 0u64);
    for (i, v) in util::read_lines(&args[0]) {
        let mut r = check_case(&inv, &v);
        r["i"] = json!(i);
        n += 1;
        match r["verdict"].as_str() {
            Some("violation") => viol += 1,
            Some("tool_error") => tool += 1,
            _ => {}
        }
        out.line(&r);
    }
    out.finish();
    println!("{}", json!({"cases":n,"violations":viol,"tool_errors":tool}));
    if tool > 0 { 2 } else { 0 }
}
