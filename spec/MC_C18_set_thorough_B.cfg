SPECIFICATION Spec
CONSTANTS
  Channels = {0, 1, 2}
  Mode = "set"
  NTok <- MC_SetB_N
  TokAt <- MC_SetB_At
  PolSeq <- MC_Pol11x3
  RegisterFirst = FALSE
  MinN = 5
  MaxN = 7
  Export = TRUE
  CheckRekeyDirect = FALSE
  None = None
INVARIANTS Inv_TypeOK Inv_Pending Inv_Dup Inv_Oracle Inv_OracleNow Inv_Partition Inv_Rekey Inv_NoRepeatAllOk Inv_Export
PROPERTIES Prop_Rejected Prop_Accepted
CHECK_DEADLOCK FALSE
