------------------------------ MODULE MC_C04 ------------------------------
(***************************************************************************)
(* C04 model: two graph states `a` and `b`, each evolving independently by *)
(* well-formedness-preserving ops, so that TLC visits every ORDERED PAIR   *)
(* of reachable well-formed states of the bounded universe.  At every pair *)
(* the patch law is checked on the model and (GEN configs) the pair is     *)
(* exported for replay into the real diff_state / apply_to_state.          *)
(***************************************************************************)
EXTENDS GraphGen

VARIABLES a, b
vars == <<a, b>>

Init == a = S0 /\ b = S0
Next == \/ StepOf(a, a') /\ UNCHANGED b
        \/ StepOf(b, b') /\ UNCHANGED a
Spec == Init /\ [][Next]_vars

\* ---- properties ---------------------------------------------------------
Inv_WellFormed == WellFormed(a) /\ WellFormed(b)
Inv_DiffLaw    == DiffLaw(a, b)
\* the delta of well-formed states always applies in the model (stronger than C04;
\* reported separately: a model-level Err is legal for C04 but worth knowing)
Inv_DiffApplies == ApplyOps(a, Diff(a, b)).ok
\* a delta between equal states is empty
Inv_DiffIdentity == (a = b) => Diff(a, b) = <<>>

CaseJson ==
  LET d == Diff(a, b)  r == ApplyOps(a, d)
  IN [a |-> StateJson(a), b |-> StateJson(b), ops |-> OpsJson(d), ok |-> r.ok,
      errs |-> r.errs, same |-> (r.ok /\ r.s = b)]

Inv_Export == Export => PrintT(<<"CASE", ToJson(CaseJson)>>)
=============================================================================
