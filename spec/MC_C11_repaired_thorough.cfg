SPECIFICATION Spec11
CONSTANTS
  None = None
  Subs = {}
  MaxTx = 0
  MaxFrames = 0
  MaxCycles = 0
  RewriteAtomic = TRUE
  EpochGapRepaired = TRUE
  Mutant = "none"
  Repaired = TRUE
  NT = 4
  NF = 3
  Export = FALSE
INVARIANTS Inv_C11
CHECK_DEADLOCK FALSE
