----------------------------- MODULE SuffixStore -----------------------------
(***************************************************************************)
(* The fixed three-worldline store, the single-entry alteration catalogue  *)
(* and the store export of MC_C05.tla (tamper mode), re-exported for the   *)
(* transport leg (MC_C05s.tla).  A module of its own because MC_C05 has a  *)
(* constant named Export and SuffixTransport an action of that name.       *)
(***************************************************************************)
EXTENDS Provenance

\* the fixed store, the entry alteration catalogue and the store export of MC_C05.tla (tamper mode)
M == INSTANCE MC_C05 WITH Mode <- "transport", MaxEntries <- 3, Export <- FALSE, tc <- 0, log <- <<>>
MC_Slots == M!MC_Slots
MC_U0 == M!MC_U0
A == "a"   F == "f"   B == "b"
EA == M!EA
EF == M!EF
EB == M!EB
Others == M!Others
AlterVariants == M!AlterVariants
Alter(e, fv) == M!Alter(e, fv)
Applicable(e, fv) == M!Applicable(e, fv)
StoreJson == M!StoreJson

=============================================================================
