------------------------------ MODULE MC_C10 ------------------------------
(***************************************************************************)
(* C10 model-checking instance of Wal.tla: every interleaving of host      *)
(* calls (submit / tick transactions of 1..MaxFrames frames), store faults *)
(* at every position, crashes at every abstract byte position (before /    *)
(* inside / at the end of every record) with every ledger version that can *)
(* be on disk, and up to MaxCycles crash-recover-continue cycles.          *)
(***************************************************************************)
EXTENDS Wal

SubSymmetry == Permutations(Subs)

\* a crash state that cuts a record exists (vacuity witness, checked with -coverage)
TornCrashStates == pc = "down" /\ Len(seg) > 0 /\ seg[Len(seg)].kind = "torn"
=============================================================================
