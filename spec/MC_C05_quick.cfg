SPECIFICATION Spec
CONSTANTS
  Slots <- MC_Slots
  U0 <- MC_U0
  None = None
  Mode = "tamper"
  MaxEntries = 3
  Export = TRUE
INVARIANTS Inv_Untampered Inv_BoundFieldsEvident Inv_RewrittenTransplantIsDonorHistory Inv_Export
CHECK_DEADLOCK FALSE
