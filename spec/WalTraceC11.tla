---------------------------- MODULE WalTraceC11 ----------------------------
(***************************************************************************)
(* Trace validation for C11 (impl -> spec).  The harness (c11.rs) applies  *)
(* corruption edits to the REAL segment / ledger / manifest bytes of logs  *)
(* written by a real host and runs every recovery entry point on them.     *)
(*   log   : the committed history of the pristine log (one identity +     *)
(*           content digest per transaction, in order) and the view        *)
(*           fingerprint of the writing host after each commit             *)
(*   edit  : one edited log; per entry point the result class and the      *)
(*           recovered history (same digests)                              *)
(* Oracle (Wal.tla: IsPrefix):  Recover(corrupted) is an error or a        *)
(* prefix - identity AND content - of the committed history.               *)
(* Every edit event is judged; failures are printed as <<"BAD", line,      *)
(* reasons>>.                                                              *)
(***************************************************************************)
EXTENDS Wal, Json, IOUtils

Rec == ndJsonDeserialize(IOEnv.TRACE)

VARIABLES l, committed, hostFps, bad
tvars == <<l, committed, hostFps, bad>>
allvars == <<vars, tvars>>

IsEvent(e) == l <= Len(Rec) /\ Rec[l].event = e /\ l' = l + 1

TInit == Init /\ l = 1 /\ committed = <<>> /\ hostFps = <<>> /\ bad = 0

TLog ==
  /\ IsEvent("log")
  /\ committed' = Rec[l].committed /\ hostFps' = Rec[l].fps
  /\ UNCHANGED <<vars, bad>>

ScanOk(o) == o.class = "err" \/ (o.class = "ok" /\ IsPrefix(o.h, committed))

TEdit ==
  /\ IsEvent("edit")
  /\ LET e == Rec[l]
         reasons ==
              (IF ScanOk(e.bytes) THEN {} ELSE {"recover_wal_segment_bytes"})
         \cup (IF ScanOk(e.fs) THEN {} ELSE {"recover_filesystem_store"})
         \cup (IF e.doctor.class = "err" \/ (e.doctor.class = "ok" /\ e.fs.class = "ok" /\ e.doctor.n = Len(e.fs.h) /\ IsPrefix(e.fs.h, committed))
               THEN {} ELSE {"doctor_filesystem_store"})
         \* manifest validation is not a recovery: it may only accept a manifest whose meaning (last
         \* committed LSN, last commit digest, sealed segment count) is the published one
         \cup (IF e.manifest.class \in {"none", "err"} \/ (e.manifest.class = "ok" /\ e.manifest.meaning_same)
               THEN {} ELSE {"validate_filesystem_manifest"})
         \cup (IF e.host.class \in {"err", "skipped"}
                  \/ (e.host.class = "ok" /\ e.host.k + 1 <= Len(hostFps) /\ hostFps[e.host.k + 1] = e.host.fp)
               THEN {} ELSE {"enable_runtime_wal"})
         \cup (IF e.ro_pure THEN {} ELSE {"read_only_recovery_mutated_files"})
         \cup (IF e.cb THEN {} ELSE {"recovery_ran_application_callback"})
     IN IF reasons = {} THEN UNCHANGED bad ELSE PrintT(<<"BAD", l, reasons>>) /\ bad' = bad + 1
  /\ UNCHANGED <<vars, committed, hostFps>>

TNext == TLog \/ TEdit
TSpec == TInit /\ [][TNext]_allvars

Accepted ==
  LET d == TLCGet("stats").diameter
  IN IF d - 1 = Len(Rec) THEN TRUE
     ELSE Print(<<"REJECTED_AT", d, IF d <= Len(Rec) THEN Rec[d].event ELSE "eof">>, FALSE)
=============================================================================
