//! C02 / C14: scripted worker schedules replayed into the real `execute_work_queue`
//! (through `Engine::commit_with_receipt`) with the claim-script hook, and unscripted
//! racing runs whose claim logs are validated by ParallelExecTrace.tla.

use serde::Deserialize;
use serde_json::{json, Value};
use warp_core::{ApplyResult, SchedulerKind};

use crate::absgraph::{self, StateJ};
use crate::c01::{build_engine, CandJ};
use crate::ids::{self, Inverse};
use crate::programs::{self, Program};
use crate::util;

#[derive(Deserialize)]
struct Case {
    pre: StateJ,
    #[serde(rename = "preName")]
    pre_name: String,
    seq: Vec<CandJ>,
    workers: usize,
    wreq: usize,
    script: Vec<Vec<usize>>,
    fail: bool,
    poison: Vec<String>,
    post: StateJ,
    prog: Vec<Program>,
    units: Vec<Vec<CandJ>>,
    #[serde(default)]
    descent: crate::c01::Descent,
}

pub fn check_case(inv: &Inverse, v: &Value) -> Value {
    let case: Case = match serde_json::from_value(v.clone()) {
        Ok(c) => c,
        Err(e) => return json!({"verdict":"tool_error","detail":format!("case parse: {e}")}),
    };
    programs::install(&case.prog);
    let pre = absgraph::build_state(&case.pre);
    let pre_abs = case.pre.clone().normalized();
    let want_post = case.post.clone().normalized();
    let mut set: Vec<String> = case.seq.iter().map(|c| format!("{}|{}|{}", c.r, c.w, c.n)).collect();
    set.sort();
    let group = format!("{}#{}", case.pre_name, set.join(","));
    let mut engine = match build_engine(&pre, case.prog.len(), SchedulerKind::Radix, case.wreq) {
        Ok(e) => e,
        Err(e) => return json!({"verdict":"tool_error","detail":e}),
    };
    let tx = engine.begin();
    for c in &case.seq {
        match engine.apply_in_warp(tx, ids::warp(&c.w), programs::rule_name(c.r), &ids::node(&c.n), &crate::c01::descent_stack(&case.descent, &c.w)) {
            Ok(ApplyResult::Applied) => {}
            other => return json!({"verdict":"tool_error","detail":format!("apply {c:?}: {other:?}")}),
        }
    }
    warp_core::verif::set_claim_script(Some(case.script.clone()));
    let committed = util::catch(|| engine.commit_with_receipt(tx));
    let log = warp_core::verif::take_claim_log();
    // the script must have been followed exactly (binds the model's unit structure to the code's)
    let mut rows: Vec<Vec<usize>> = vec![Vec::new(); case.script.len().max(case.workers)];
    for (w, _seq, unit) in &log {
        if *w >= rows.len() {
            rows.resize(*w + 1, Vec::new());
        }
        rows[*w].push(*unit);
    }
    rows.truncate(case.script.len().max(1));
    let mut drift: Vec<String> = Vec::new();
    if rows != case.script {
        drift.push(format!("claim log {rows:?} differs from script {:?} (units predicted: {})", case.script, case.units.len()));
    }
    let state_now = absgraph::project_state(inv, engine.state());
    match committed {
        Ok(Ok((snap, receipt, patch))) => {
            if case.fail {
                let has_violator = case.poison.first().map(String::as_str) != Some("none");
                if has_violator {
                    return json!({"verdict":"violation","kind":"undeclared_access_committed","group":group,
                        "detail":format!("model: tick must fail with {:?}; the real commit succeeded", case.poison),"drift":drift});
                }
                drift.push("model predicted a failing apply, real commit succeeded".into());
            }
            match state_now {
                Ok(p) if p == want_post => {}
                other => {
                    return json!({"verdict":"violation","kind":"scheduled_outcome_differs_from_serial","group":group,
                        "detail":format!("post-state under script {:?}: {other:?} want {want_post:?}", case.script),"drift":drift})
                }
            }
            let mut replayed = pre.clone();
            if patch.apply_to_state(&mut replayed).is_err()
                || absgraph::project_state(inv, &replayed).ok() != Some(want_post.clone())
            {
                return json!({"verdict":"violation","kind":"patch_replay_differs","group":group,"detail":"patch does not replay to post","drift":drift});
            }
            json!({"verdict":"ok","group":group,"outcome":"committed","drift":drift,
                "hashes":{"state_root":util::hex32(&snap.state_root),"commit":util::hex32(&snap.hash),"patch":util::hex32(&snap.patch_digest),
                          "decision":util::hex32(&snap.decision_digest),"rewrites":util::hex32(&snap.rewrites_digest),"receipt":util::hex32(&receipt.digest())}})
        }
        failed => {
            let what = match &failed {
                Ok(Err(e)) => format!("error:{e:?}"),
                Err(p) => format!("panic:{p}"),
                _ => String::new(),
            };
            // nothing of the tick may be visible
            match state_now {
                Ok(p) if p == pre_abs => {}
                other => {
                    return json!({"verdict":"violation","kind":"failed_tick_left_visible_state","group":group,
                        "detail":format!("{what}; state after failure: {other:?}"),"drift":drift})
                }
            }
            if !case.fail {
                return json!({"verdict":"violation","kind":"honest_tick_failed","group":group,
                    "detail":format!("model: all rewrites honest and applicable; real: {what} (script {:?})", case.script),"drift":drift});
            }
            if let Some(kind) = case.poison.get(1) {
                if !what.contains(kind.as_str()) {
                    drift.push(format!("violation kind: real `{what}` vs model {:?}", case.poison));
                }
            } else if case.poison.first().map(String::as_str) == Some("panic") && !what.contains("injected executor panic") {
                drift.push(format!("expected the injected panic, real `{what}`"));
            }
            json!({"verdict":"ok","group":group,"outcome":"failed","what":what,"drift":drift})
        }
    }
}

pub fn run(args: &[String]) -> i32 {
    if args.len() < 2 {
        eprintln!("usage: echo-verif c02 <cases.ndjson> <results.ndjson>");
        return 2;
    }
    let inv = Inverse::new();
    let mut out = util::Out::create(&args[1]);
    let (mut n, mut viol, mut tool) = (0u64, 0u64, 0u64);
    for (i, v) in util::read_lines(&args[0]) {
        let mut r = check_case(&inv, &v);
        r["i"] = json!(i);
        n += 1;
        match r["verdict"].as_str() {
            Some("violation") => viol += 1,
            Some("tool_error") => tool += 1,
            _ => {}
        }
        out.line(&r);
    }
    out.finish();
    println!("{}", json!({"cases":n,"violations":viol,"tool_errors":tool}));
    if tool > 0 { 2 } else { 0 }
}

// --------------------------------------------------------------------------- racing threads + policy matrix

use rand::rngs::StdRng;
use rand::{Rng, SeedableRng};
use std::num::NonZeroUsize;
use warp_core::{
    execute_parallel_with_policy, execute_serial, AttachmentKey, AttachmentValue, EngineBuilder, ExecItem, GraphStore,
    GraphView, NodeKey, NodeRecord, OpOrigin, ParallelExecutionPolicy, TickCommitStatus, WarpInstance, WarpState,
    WarpTickPatchV1,
};

fn big_state(n_per_warp: usize, warps: usize) -> (WarpState, Vec<(String, String)>) {
    // w0 holds x0..; extra warps hang off portal nodes q1, q2 of w0
    let mut state = WarpState::new();
    let mut scopes = Vec::new();
    let names = ["w0", "w1", "w2"];
    let mut root_store = GraphStore::new(ids::warp("w0"));
    root_store.insert_node(ids::node("n0"), NodeRecord { ty: ids::ty("tA") });
    for k in 1..warps {
        let q = ids::node(&format!("q{k}"));
        root_store.insert_node(q, NodeRecord { ty: ids::ty("tA") });
        root_store.set_node_attachment(q, Some(AttachmentValue::Descend(ids::warp(names[k]))));
    }
    for i in 0..n_per_warp {
        let lbl = format!("x{i}");
        root_store.insert_node(ids::node(&lbl), NodeRecord { ty: ids::ty("tA") });
        scopes.push(("w0".to_string(), lbl));
    }
    warp_core::verif::upsert_instance(&mut state, WarpInstance { warp_id: ids::warp("w0"), root_node: ids::node("n0"), parent: None }, root_store);
    for k in 1..warps {
        let mut st = GraphStore::new(ids::warp(names[k]));
        st.insert_node(ids::node("n0"), NodeRecord { ty: ids::ty("tA") });
        for i in 0..n_per_warp {
            let lbl = format!("x{i}");
            st.insert_node(ids::node(&lbl), NodeRecord { ty: ids::ty("tB") });
            scopes.push((names[k].to_string(), lbl));
        }
        let parent = AttachmentKey::node_alpha(NodeKey { warp_id: ids::warp("w0"), local_id: ids::node(&format!("q{k}")) });
        warp_core::verif::upsert_instance(&mut state, WarpInstance { warp_id: ids::warp(names[k]), root_node: ids::node("n0"), parent: Some(parent) }, st);
    }
    (state, scopes)
}

fn race_programs() -> Vec<Program> {
    let p = |kind: &str, a: &str, b: &str, ty: &str, ty2: &str, pp: &str| Program {
        kind: kind.into(), a: a.into(), b: b.into(), e: "e0".into(), ty: ty.into(), ty2: ty2.into(), p: pp.into(), ..Default::default()
    };
    vec![p("SetAtom", "S", "S", "tA", "tA", "p0"), p("RetypeByAtt", "S", "S", "tB", "tA", "p0"), p("SetAtom", "S", "S", "tA", "tA", "p1"),
         p("DoubleSet", "S", "S", "tA", "tA", "p0")]
}

fn race_tick(state: &WarpState, picks: &[(usize, String, String)], workers: usize, record: bool)
    -> Result<(Value, Vec<(usize, usize, usize)>), String> {
    let root = NodeKey { warp_id: ids::warp("w0"), local_id: ids::node("n0") };
    let mut engine = EngineBuilder::from_state(state.clone(), root).workers(workers).build().map_err(|e| format!("{e:?}"))?;
    for r in 1..=4 {
        engine.register_rule(programs::rule(r)).map_err(|e| format!("{e:?}"))?;
    }
    let tx = engine.begin();
    for (r, w, n) in picks {
        engine.apply_in_warp(tx, ids::warp(w), programs::rule_name(*r), &ids::node(n), &[]).map_err(|e| format!("apply: {e:?}"))?;
    }
    if record {
        warp_core::verif::set_claim_script(None);
    }
    let res = util::catch(|| engine.commit_with_receipt(tx));
    let log = if record { warp_core::verif::take_claim_log() } else { Vec::new() };
    match res {
        Ok(Ok((snap, receipt, _patch))) => Ok((json!({"state_root":util::hex32(&snap.state_root),"commit":util::hex32(&snap.hash),
            "patch":util::hex32(&snap.patch_digest),"receipt":util::hex32(&receipt.digest()),"rewrites":util::hex32(&snap.rewrites_digest)}), log)),
        other => Err(format!("commit failed: {other:?}")),
    }
}

pub fn run_race(args: &[String]) -> i32 {
    if args.len() < 3 {
        eprintln!("usage: echo-verif c02-race <trace.ndjson> <seed> <runs>");
        return 2;
    }
    let seed: u64 = args[1].parse().unwrap_or(1);
    let runs: usize = args[2].parse().unwrap_or(20);
    let mut rng = StdRng::seed_from_u64(seed);
    let mut out = util::Out::create(&args[0]);
    programs::install(&race_programs());
    let mut violations: Vec<Value> = Vec::new();
    let (mut total_units, mut max_workers, mut failed_consistently) = (0usize, 0usize, 0usize);
    for run in 0..runs {
        let warps = 1 + run % 3;
        let n = [24usize, 64, 150, 400, 700][run % 5];
        let (state, scopes) = big_state(n, warps);
        // every scope gets rule 1 or rule 2 (independent per node); some also get rule 3 (conflicts with rule 1 -> rejected)
        let mut picks: Vec<(usize, String, String)> = Vec::new();
        for (w, lbl) in &scopes {
            // every 4th run: a few rewrites write their own slot twice with different values (the merge must
            // refuse the tick under every schedule, never pick a winner that depends on the schedule)
            let r = if run % 4 == 3 && rng.gen_bool(0.05) { 4 } else if rng.gen_bool(0.5) { 1 } else { 2 };
            picks.push((r, w.clone(), lbl.clone()));
            if rng.gen_bool(0.1) {
                picks.push((3, w.clone(), lbl.clone()));
            }
        }
        let serial = race_tick(&state, &picks, 1, false).map(|(h, _)| h);
        let workers = 1 + (run * 7 + rng.gen_range(0..4)) % 32;
        max_workers = max_workers.max(workers);
        // the parallel run is repeated: different real interleavings of the same tick
        for rep in 0..2 {
            let par = {
                warp_core::verif::set_claim_script(None);
                let r = race_tick(&state, &picks, workers, true);
                if r.is_err() { let _ = warp_core::verif::take_claim_log(); }
                r
            };
            match (&serial, par) {
                (Ok(sh), Ok((h, log))) => {
                    let units = log.len();
                    total_units += units;
                    let w_eff = log.iter().map(|(w, _, _)| *w + 1).max().unwrap_or(1);
                    out.line(&json!({"event":"run","workers":workers,"units":units,"nworkers_seen":w_eff}));
                    let mut per: Vec<Vec<(usize, usize)>> = vec![Vec::new(); w_eff];
                    for (w, seq, u) in &log {
                        per[*w].push((*seq, *u));
                    }
                    for (w, mut claims) in per.into_iter().enumerate() {
                        claims.sort();
                        out.line(&json!({"event":"claims","w":w + 1,"units":claims.iter().map(|(_, u)| *u).collect::<Vec<_>>()}));
                    }
                    let same = h == *sh;
                    out.line(&json!({"event":"end","same":same}));
                    if !same {
                        violations.push(json!({"kind":"racing_outcome_differs_from_serial","detail":format!("run {run}.{rep}: workers={workers} units={units}: {h} vs serial {sh}")}));
                    }
                }
                (Err(_), Err(_)) => {
                    // the tick is refused under both schedules (e.g. conflicting ops of one rewrite): consistent
                    failed_consistently += 1;
                }
                (Ok(_), Err(e)) => violations.push(json!({"kind":"racing_tick_failed_but_serial_committed","detail":format!("run {run}.{rep}: workers={workers}: {e}")})),
                (Err(e), Ok(_)) => violations.push(json!({"kind":"racing_tick_committed_but_serial_failed","detail":format!("run {run}.{rep}: workers={workers}: serial {e}")})),
            }
        }
    }
    // policy matrix through the public execute_parallel_with_policy
    let policies = [("DYNAMIC_PER_WORKER", ParallelExecutionPolicy::DYNAMIC_PER_WORKER), ("DYNAMIC_PER_SHARD", ParallelExecutionPolicy::DYNAMIC_PER_SHARD),
        ("STATIC_PER_WORKER", ParallelExecutionPolicy::STATIC_PER_WORKER), ("STATIC_PER_SHARD", ParallelExecutionPolicy::STATIC_PER_SHARD),
        ("DEDICATED_PER_SHARD", ParallelExecutionPolicy::DEDICATED_PER_SHARD)];
    let mut policy_runs = 0usize;
    for n in [0usize, 1, 5, 300] {
        let (state, scopes) = big_state(n.max(1), 1);
        let store = state.store(&ids::warp("w0")).cloned().unwrap_or_else(|| GraphStore::new(ids::warp("w0")));
        let items: Vec<ExecItem> = scopes.iter().take(n).enumerate().map(|(i, (_, lbl))| {
            let r = programs::rule(1 + i % 2);
            ExecItem::new(r.executor, ids::node(lbl), OpOrigin { intent_id: 0, rule_id: (1 + i % 2) as u32, match_ix: i as u32, op_ix: 0 })
        }).collect();
        let canon = |deltas: Vec<warp_core::TickDelta>| -> [u8; 32] {
            let ops: Vec<_> = deltas.into_iter().flat_map(warp_core::TickDelta::into_ops_unsorted).collect();
            WarpTickPatchV1::new(0, [0u8; 32], TickCommitStatus::Committed, vec![], vec![], ops).digest()
        };
        let serial = canon(vec![execute_serial(GraphView::new(&store), &items)]);
        for (pname, pol) in &policies {
            for workers in [1usize, 2, 3, 4, 5, 6, 7, 8, 16, 63, 64, 65, 100, 128, 255, 256, 300] {
                let deltas = execute_parallel_with_policy(GraphView::new(&store), &items, NonZeroUsize::new(workers).unwrap_or(NonZeroUsize::MIN), *pol);
                policy_runs += 1;
                if canon(deltas) != serial {
                    violations.push(json!({"kind":"policy_outcome_differs_from_serial","detail":format!("{pname} workers={workers} items={n}")}));
                }
            }
        }
    }
    out.finish();
    println!("{}", json!({"runs":runs,"units":total_units,"max_workers":max_workers,"policy_runs":policy_runs,"refused_under_every_schedule":failed_consistently,"violations":violations}));
    0
}
