"""C03 - admission is the canonical greedy independent set with exact blocking witnesses.

MC : MC_C03.tla (Footprint.tla + Scheduler.tla): every K-tuple of footprint classes is reserved
     by the transcribed Radix and Legacy schedulers in lock-step; invariants: Radix = declarative
     GreedyAdmit on every prefix, a rejected candidate marks nothing, blockers exact and non-empty,
     Legacy = Radix whenever masks are sound, the three conflict predicates are one relation.
RP : every enumerated tuple is driven through Engine::verif_enqueue_raw / verif_drain_reserve into
     the real DeterministicScheduler (both kinds, forward and reverse enqueue order) and the real
     reserve_for_receipt; decisions and blocked_by must equal the model's (= the oracle's).
TV : adversarial sort-key sets drained by the real queue; SchedulerTrace.tla accepts iff the drain
     order is the strictly increasing lexicographic order of the last-wins de-duplicated key set.
"""
import os
from lib import *

TRACE_JAVA = "-Xss1g -Dtlc2.tool.queue.IStateQueue=StateDeque"


def run(tier, replay=None):
    ck = Check("C03", tier)
    binp = build_harness()
    extra = ["MC_C03_two_nodes.cfg", "MC_C03_two_edges.cfg", "MC_C03_two_atts.cfg", "MC_C03_two_ports.cfg", "MC_C03_two_ticks.cfg", "MC_C03_two_ticks_ap.cfg"]
    cfgs = ["MC_C03_pairs_q.cfg", "MC_C03_triples_small.cfg", "MC_C03_masks.cfg"] + extra
    if tier == "thorough":
        cfgs = ["MC_C03_pairs.cfg", "MC_C03_triples_small.cfg", "MC_C03_masks.cfg", "MC_C03_triples.cfg",
                "MC_C03_triples_edge.cfg", "MC_C03_quads.cfg"] + extra
    total = with_rej = 0
    if replay:
        obj = json.load(open(replay))["case"]
        groups = [("replay", [obj["case"]])] if "case" in obj else []
    else:
        groups = []
        for cfg in cfgs:
            res = tlc("MC_C03", cfg, workers=8, timeout=7200, tags=("CASE",))
            ck.add_tlc(res)
            if res.violation:
                ck.violation(f"spec:{cfg}:{res.violation}", "TLC invariant violated on the model:\n" + res.error_text[:3000],
                             {"cfg": cfg, "invariant": res.violation, "trace": res.error_text[:20000]})
                continue
            if not res.lines:
                raise ToolError(f"{cfg}: nothing exported")
            groups.append((cfg, [c for _, c in res.lines]))
    for cfg, cases in groups:
        cin = write_ndjson(os.path.join(WORK, f"c03_{cfg}.cases"), cases)
        cout = os.path.join(WORK, f"c03_{cfg}.results")
        summ = json.loads(harness(binp, ["c03", cin, cout], timeout=7200).strip().splitlines()[-1])
        total += summ["cases"]
        with_rej += summ["with_rejection"]
        for r in read_ndjson(cout):
            c = cases[r["i"]]
            if r["verdict"] == "violation":
                ck.violation(f"{r['kind']}:{c['c']}", r.get("detail", ""), {"case": c, "result": r})
            elif r.get("drift"):
                ck.notes.append({"drift": r["drift"], "case": c["c"]}) if len(ck.notes) < 5 else None
        ck.sample({"cfg": cfg, "case": cases[len(cases) // 3]})
    # --- TV: drain order ---------------------------------------------------
    traces = 0
    if not replay or "trace" in json.load(open(replay))["case"]:
        trace = os.path.join(WORK, "c03_keys.ndjson")
        if replay:
            trace = json.load(open(replay))["case"]["trace"]
        else:
            ksum = json.loads(harness(binp, ["c03-keys", trace, str(ck.seed), tier], timeout=3600).strip().splitlines()[-1])
            traces = ksum["runs"]
            ck.cov["key_trace_events"] = ksum["events"]
        res = tlc("SchedulerTrace", "SchedulerTrace.cfg", workers=1, env={"TRACE": trace}, java_opts=TRACE_JAVA,
                  timeout=7200, tags=(), out_name="c03_trace")
        ck.add_tlc(res)
        if res.postcondition_failed or res.violation:
            keep = os.path.join(REPLAYS, f"C03-{ck.seed}-keys.ndjson")
            shutil.copy(trace, keep)
            m = re.search(r'"REJECTED_AT", (\d+)', open(res.stdout_path).read())
            ck.violation("drain_order_not_canonical", f"SchedulerTrace rejected the drain trace at line {m.group(1) if m else '?'}",
                         {"trace": keep})
        else:
            with open(trace) as f:
                head = [json.loads(next(f)) for _ in range(3)]
            ck.sample({"key_trace_head": [{k: (v if k != "k" else v[:6] + ["..."]) for k, v in e.items()} for e in head]})
    ck.cov["traces_validated_against_impl"] = total + traces
    ck.cov["evaluations"] = total * 4 + traces
    ck.cov["distinct_nontrivial"] = with_rej
    ck.cov["rule"] = ("every K-tuple of footprint classes of the cfgs %s (distinct TLC states), each run through both real scheduler kinds in forward and "
                      "reverse enqueue order; non-trivial = at least one candidate rejected; plus %d drained key-set runs validated by SchedulerTrace.tla" % (cfgs, traces))
    ck.cov["exhaustive"] = replay is None
    ck.assumptions += ["one resource per class (node, edge, attachment, port) and two instances: conflicts depend only on key equality",
                       "raw rule ids are big-endian compact ids so Radix (compact id) and Legacy (32-byte id) orders coincide, as through the engine API",
                       "hooks Engine::verif_enqueue_raw / verif_drain_reserve call the real scheduler and reserve_for_receipt"]
    return ck.finish()
