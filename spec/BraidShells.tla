---------------------------- MODULE BraidShells ----------------------------
(***************************************************************************)
(* C15, braid-shell leg - the retained theta_braid shells that settlement  *)
(* produces (conflict / plural / derived artifacts), their audit, replay   *)
(* and collapse.                                                           *)
(*                                                                         *)
(* Transcribed from /repo/crates/warp-core/src:                            *)
(*   settlement.rs       settle_with_policy_internal (shell = last fallible*)
(*                       step), build_braid_shell (one member per act,     *)
(*                       verdict precedence plural > conflict > derived),  *)
(*                       compute_plural_artifact_id                        *)
(*   braid_shell.rs      BraidShell::assemble / validate (member set,      *)
(*                       outcome/member coherence, policy identity),       *)
(*                       replay_braid_shell, audit_braid_shell,            *)
(*                       validated_shell_for_replay (lineage parent),      *)
(*                       collapse_braid_shell (Derived / Obstructed /      *)
(*                       refusals), COLLAPSE_WITHOUT_POLICY_REASON         *)
(*   provenance_store.rs ProvenanceService::append_braid_shell (idempotent,*)
(*                       plural_shell_index, PluralArtifactAlreadyBound),  *)
(*                       checkpoint_for / restore (shell keys pruned)      *)
(*                                                                         *)
(* Abstraction.  A digest is the content it commits to, so a shell IS its  *)
(* record and the registry (BTreeMap digest -> shell) is a SET of shell    *)
(* records; a lineage reference (collapsed_from / obstructed_from) is the  *)
(* parent shell record itself.  A provenance ref is <<lane, tick>>.        *)
(* A member carries what its digests commit to: support pins, fork basis,  *)
(* realized parent frontier, contended slots, ordered claims, ordered      *)
(* per-claim decisions.                                                    *)
(*                                                                         *)
(* As built, collapse is a RECORD-LEVEL act: collapse_braid_shell is a     *)
(* pure function from (records, plural digest, selected result refs,       *)
(* policy) to a new shell that the caller may retain; nothing is ever      *)
(* written to a lane.  "Which member wins" is exactly the caller-selected  *)
(* result refs, recorded verbatim next to the unchanged member list.       *)
(***************************************************************************)
EXTENDS Strands

CONSTANT ModelMutant  \* "" = the model as built.  Vacuity guards (each must be REJECTED by TLC): "no_policy_derives" (collapse
                      \* without a policy yields a derived shell), "collapse_any" (non-plural shells collapse), "rebind" (a bound
                      \* plural id migrates to a newer shell), "replay_forgets" (replay answers from a registry without the shell)

VARIABLES store,      \* ProvenanceService.braid_shells: the set of retained shells
          pidx,       \* ProvenanceService.plural_shell_index: plural artifact id -> shell
          born,       \* history: every shell with what replay said about it when it was retained
          blast       \* what the last shell-level call did (for the action-shaped invariants)
bvars == <<store, pidx, born, blast>>

\* policy identities: settlement "refused" / "plural", the N-member weave "J", collapse policies (any other
\* non-empty name), "zero" = the all-zero id (refused by check_policy_id), "absent" = the fixed id of a
\* collapse attempted without a policy
EmptyPolicy == "zero"
AbsentPolicy == "absent"
JointPolicy == "J"
CollapseWithoutPolicyReason == 1

\* ---- plural artifact ids (compute_plural_artifact_id) -------------------------
Pid(target, child, t, eo, pol) == [target |-> target, child |-> child, t |-> t, eo |-> eo, pol |-> pol, joint |-> FALSE]
JPid(p) == [p EXCEPT !.joint = TRUE, !.pol = JointPolicy]     \* the id the same alternative gets under the weave policy

\* ---- outcomes ------------------------------------------------------------------
NoOut == [k |-> "none", alts |-> {}, refs |-> <<>>, codes |-> <<>>, cpol |-> None, from |-> None, code |-> 0]
OutDerived(refs, cpol, from) == [NoOut EXCEPT !.k = "derived", !.refs = refs, !.cpol = cpol, !.from = from]
OutPlural(alts) == [NoOut EXCEPT !.k = "plural", !.alts = alts]
OutConflict(codes) == [NoOut EXCEPT !.k = "conflict", !.codes = codes]
OutObstruction(code, from) == [NoOut EXCEPT !.k = "obstruction", !.code = code, !.from = from]

VerdictOf(kinds) ==
  IF \E i \in 1..Len(kinds) : kinds[i] = "plural" THEN "Plural"
  ELSE IF \E i \in 1..Len(kinds) : kinds[i] = "conflict" THEN "Conflict" ELSE "Derived"

\* ---- settlement.rs build_braid_shell: x = the settlement in progress at its shell step
ShellOfSettlement(x) ==
  LET st == reg[x.sid]
      child == st.child
      tgt == x.target
      n == Len(x.dec)
      n0 == Len(x.ck.w[tgt].hist)
      kinds == [i \in 1..n |-> x.dec[i].kind]
      pidOf(i) == Pid(tgt, child, x.dec[i].t, x.dec[i].eo, x.pol)
      imps == SelectSeq([i \in 1..n |-> i], LAMBDA i : kinds[i] = "import")
      cfs == SelectSeq([i \in 1..n |-> i], LAMBDA i : kinds[i] = "conflict")
      pls == {i \in 1..n : kinds[i] = "plural"}
      why(i) == CASE kinds[i] = "plural" -> pidOf(i) [] kinds[i] = "conflict" -> x.dec[i].reason [] OTHER -> "import"
      m == [ref |-> x.sid,
            verdict |-> VerdictOf(kinds),
            claims |-> [i \in 1..n |-> <<child, x.dec[i].t>>],
            decs |-> [i \in 1..n |-> [kind |-> kinds[i], why |-> why(i)]],
            pins |-> st.pins,
            fbasis |-> <<st.src, st.ft>>,
            frontier |-> <<tgt, n0 - 1>>,                       \* realized_parent_ref: the parent tip that was judged
            eo |-> BasisOf(x.ck.w, st).overlap,                 \* settlement_basis_overlap_slots
            posture |-> "Shared"]
      out == IF pls # {} THEN OutPlural({pidOf(i) : i \in pls})
             ELSE IF Len(cfs) > 0 THEN OutConflict([j \in 1..Len(cfs) |-> x.dec[cfs[j]].reason])
             ELSE OutDerived([j \in 1..Len(imps) |-> <<tgt, n0 + imps[j] - 1>>], None, None)
  IN [wl |-> tgt, basis |-> <<st.src, st.ft>>, members |-> {m}, pol |-> x.pol, out |-> out, posture |-> "Shared"]

\* ---- braid_shell.rs BraidShell::assemble (the refusals reachable with well-formed members) ----
AssembleErr(mseq, pol, out) ==
  LET ms == {mseq[i] : i \in 1..Len(mseq)}
      anyP == \E m \in ms : m.verdict = "Plural"
      anyC == \E m \in ms : m.verdict = "Conflict"
      coherent == CASE out.k = "derived" -> (out.from # None) \/ (~anyP /\ ~anyC)
                    [] out.k = "plural" -> anyP
                    [] out.k = "conflict" -> anyC /\ ~anyP
                    [] OTHER -> TRUE
  IN IF Len(mseq) = 0 THEN "EmptyMembers"
     ELSE IF pol = EmptyPolicy THEN "EmptyPolicyId"
     ELSE IF out.k = "derived" /\ out.cpol # None /\ out.cpol # pol THEN "IncoherentCollapsePolicy"
     ELSE IF \E i, j \in 1..Len(mseq) : i < j /\ mseq[i].ref = mseq[j].ref THEN "DuplicateMemberStrand"
     ELSE IF ~coherent THEN "OutcomeMemberMismatch"
     ELSE ""
Assembled(w, basis, mseq, pol, out) ==
  [wl |-> w, basis |-> basis, members |-> {mseq[i] : i \in 1..Len(mseq)}, pol |-> pol, out |-> out, posture |-> "Shared"]

\* ---- provenance_store.rs append_braid_shell ----------------------------------------
AppendRes(st, px, s) ==
  IF s \in st THEN [ok |-> TRUE, err |-> "", store |-> st, pidx |-> px, new |-> FALSE]             \* idempotent
  ELSE IF ModelMutant # "rebind" /\ s.out.k = "plural" /\ (\E p \in s.out.alts : p \in DOMAIN px)
  THEN [ok |-> FALSE, err |-> "PluralArtifactAlreadyBound", store |-> st, pidx |-> px, new |-> FALSE]
  ELSE [ok |-> TRUE, err |-> "", store |-> st \cup {s}, new |-> TRUE,
        pidx |-> IF s.out.k = "plural" THEN [p \in DOMAIN px \cup s.out.alts |-> IF p \in DOMAIN px /\ p \notin s.out.alts THEN px[p] ELSE s] ELSE px]

\* ---- braid_shell.rs validated_shell_for_replay / replay_braid_shell / audit_braid_shell ----
LineageOk(st, d) == d.out.from = None \/ (d.out.from \in st /\ d.out.from.out.k = "plural")
LawOf(d) == IF d.out.k = "derived" /\ d.out.cpol # None THEN "Collapse" ELSE "Settlement"
ReplayRes(st0, d) ==
  LET st == IF ModelMutant = "replay_forgets" /\ Cardinality(st0) > 1 THEN st0 \ {d} ELSE st0 IN
  IF d \notin st THEN [ok |-> FALSE, err |-> "ShellNotFound"]
  ELSE IF ~LineageOk(st, d) THEN [ok |-> FALSE, err |-> "InvalidLineageParent"]
  ELSE [ok |-> TRUE, err |-> "", kind |-> d.out.k, verdicts |-> {[ref |-> m.ref, verdict |-> m.verdict] : m \in d.members},
        pol |-> d.pol, law |-> LawOf(d), posture |-> d.posture]
CoordinateOf(d) == <<d.basis, d.members, d.pol>>
AuditRes(st, d) ==
  LET r == ReplayRes(st, d)
  IN IF ~r.ok THEN r
     ELSE r @@ [shell |-> d, coordinate |-> CoordinateOf(d), facts |-> d.members, frontier |-> {m.ref : m \in d.members}]

\* ---- braid_shell.rs collapse_braid_shell --------------------------------------------
\* cpol = None: no policy.  sel = the caller-selected result refs (ignored without a policy).
CollapseRes(st, d, cpol, sel) ==
  IF d \notin st THEN [ok |-> FALSE, err |-> "ShellNotFound", class |-> "err"]
  ELSE IF d.out.k # "plural" /\ ModelMutant # "collapse_any" THEN [ok |-> FALSE, err |-> "InvalidLineageParent", class |-> "err"]
  ELSE IF cpol = None /\ ModelMutant # "no_policy_derives"
  THEN [ok |-> TRUE, err |-> "", class |-> "obstructed",
        shell |-> [wl |-> d.wl, basis |-> d.basis, members |-> d.members, pol |-> AbsentPolicy,
                   out |-> OutObstruction(CollapseWithoutPolicyReason, d), posture |-> d.posture]]
  ELSE IF cpol = EmptyPolicy THEN [ok |-> FALSE, err |-> "EmptyPolicyId", class |-> "err"]
  ELSE LET cp == IF cpol = None THEN "cA" ELSE cpol
       IN [ok |-> TRUE, err |-> "", class |-> "derived",
           shell |-> [wl |-> d.wl, basis |-> d.basis, members |-> d.members, pol |-> cp,
                      out |-> OutDerived(sel, cp, d), posture |-> d.posture]]

\* ---- actions ---------------------------------------------------------------------------
Pre == [store |-> store, pidx |-> pidx, w |-> wls, g |-> gtick, rg |-> reg, hd |-> heads]
Birth(s, st) == [shell |-> s, replay |-> ReplayRes(st, s)]

\* lane-level calls of Strands.tla: none of them touches the shell registry
BTick(w, pi) ==
  /\ Tick(w, pi)
  /\ blast' = [op |-> "tick", pre |-> Pre]
  /\ UNCHANGED <<store, pidx, born>>
BFork(sid, src, t, child) ==
  /\ Fork(sid, src, t, child)
  /\ blast' = [op |-> "fork", pre |-> Pre]
  /\ UNCHANGED <<store, pidx, born>>
BSettleBegin(sid, pol) ==
  /\ SettleBegin(sid, pol)
  /\ blast' = [op |-> "settle_begin", pre |-> Pre]
  /\ UNCHANGED <<store, pidx, born>>
BSettleStep == SettleStep /\ UNCHANGED bvars
\* provenance.restore: shells and index bindings retained after the checkpoint are pruned; the shell is the
\* last step, so there never is one
BSettleFail ==
  /\ SettleFail
  /\ blast' = [op |-> "settle_failed", pre |-> Pre]
  /\ UNCHANGED <<store, pidx, born>>
\* Retain(shell): the shell step of a settlement (append_braid_shell of build_braid_shell)
Retain ==
  /\ stl # None /\ stl.k = Len(stl.dec)
  /\ LET s == ShellOfSettlement(stl)
         a == AppendRes(store, pidx, s)
     IN /\ a.ok /\ a.new                       \* exactly when Strands!SettleShell is enabled (RetainAgreesWithStrands)
        /\ store' = a.store /\ pidx' = a.pidx
        /\ born' = Append(born, Birth(s, a.store))
        /\ blast' = [op |-> "retain", pre |-> Pre, shell |-> s, kinds |-> [i \in 1..Len(stl.dec) |-> stl.dec[i].kind],
                     target |-> stl.target, ckw |-> stl.ck.w]
  /\ SettleShell

\* RetainJoint: an N-member shell over the members of retained one-member shells a and b (BraidShell::assemble +
\* append_braid_shell; "data structures are N-capable").  mode "fresh": the alternatives get their ids under the
\* weave policy; mode "same": the ids already bound to a / b are claimed again.
JointMembers(a, b) == <<CHOOSE m \in a.members : TRUE, CHOOSE m \in b.members : TRUE>>
JointOut(a, b, mode) ==
  LET ms == JointMembers(a, b)
      alts == a.out.alts \cup b.out.alts
  IN IF \E i \in 1..2 : ms[i].verdict = "Plural" THEN OutPlural(IF mode = "same" THEN alts ELSE {JPid(p) : p \in alts})
     ELSE IF \E i \in 1..2 : ms[i].verdict = "Conflict" THEN OutConflict(a.out.codes \o b.out.codes)
     ELSE OutDerived(a.out.refs \o b.out.refs, None, None)
JointRes(st, px, a, b, mode) ==
  LET ms == JointMembers(a, b)
      out == JointOut(a, b, mode)
      err == AssembleErr(ms, JointPolicy, out)
      s == Assembled(a.wl, a.basis, ms, JointPolicy, out)
  IN IF err # "" THEN [ok |-> FALSE, err |-> err, store |-> st, pidx |-> px, new |-> FALSE, shell |-> s]
     ELSE AppendRes(st, px, s) @@ [shell |-> s]
RetainJoint(a, b, mode) ==
  /\ Idle /\ a \in store /\ b \in store
  /\ Cardinality(a.members) = 1 /\ Cardinality(b.members) = 1
  /\ LET r == JointRes(store, pidx, a, b, mode)
     IN /\ store' = r.store /\ pidx' = r.pidx
        /\ born' = IF r.new THEN Append(born, Birth(r.shell, r.store)) ELSE born
        /\ blast' = [op |-> "joint", pre |-> Pre, res |-> r]
  /\ UNCHANGED svars

AuditShell(d) ==
  /\ Idle
  /\ blast' = [op |-> "audit", pre |-> Pre, d |-> d, res |-> AuditRes(store, d)]
  /\ UNCHANGED <<svars, store, pidx, born>>
ReplayShell(d) ==
  /\ Idle
  /\ blast' = [op |-> "replay", pre |-> Pre, d |-> d, res |-> ReplayRes(store, d)]
  /\ UNCHANGED <<svars, store, pidx, born>>
\* Collapse(shell, policy): collapse_braid_shell, then (keep) append_braid_shell of the shell it returned
Collapse(d, cpol, sel, keep) ==
  /\ Idle
  /\ LET c == CollapseRes(store, d, cpol, sel)
         a == IF c.ok /\ keep THEN AppendRes(store, pidx, c.shell)
              ELSE [ok |-> TRUE, err |-> "", store |-> store, pidx |-> pidx, new |-> FALSE]
     IN /\ store' = a.store /\ pidx' = a.pidx
        /\ born' = IF a.new THEN Append(born, Birth(c.shell, a.store)) ELSE born
        /\ blast' = [op |-> "collapse", pre |-> Pre, d |-> d, cpol |-> cpol, sel |-> sel, keep |-> keep, res |-> c, app |-> a]
  /\ UNCHANGED svars

BInit ==
  /\ SInit
  /\ store = {} /\ pidx = [p \in {} |-> None] /\ born = <<>>
  /\ blast = [op |-> "init", pre |-> [store |-> {}, pidx |-> [p \in {} |-> None], w |-> wls, g |-> 0, rg |-> reg, hd |-> heads]]

\* ---- invariants (state predicates over the last call; every call yields a fresh state unless the
\*      model-checking module hides `blast` from the VIEW - then use the action forms below) -----------
ShellOps == {"audit", "replay", "collapse", "joint"}
LanesAsBefore == wls = blast.pre.w /\ gtick = blast.pre.g /\ reg = blast.pre.rg /\ heads = blast.pre.hd
RegistryAsBefore == store = blast.pre.store /\ pidx = blast.pre.pidx

\* a retained artifact never changes a lane: no shell-level call (audit, replay, collapse with or without a
\* policy, retention of the collapse result, the N-member weave) writes a slot value, a history entry, a head,
\* the strand registry or the global tick.  As built even a lawful collapse is record-only.
ShellCallsNeverTouchLanes == blast.op \in ShellOps => LanesAsBefore
\* ... and retention itself adds no lane change to what the settlement's entries did (the shell step is last)
RetainAddsNoLaneChange ==
  blast.op = "retain" => (wls = blast.pre.w /\ gtick = blast.pre.g /\ reg = blast.pre.rg /\ heads = blast.pre.hd)
\* the residue entries of a retained (non-import) decision are no-ops on the parent: slot values after the
\* settlement differ from the values before it only on slots written by imported entries
RetainedEntriesAreNoOps ==
  blast.op = "retain" =>
    LET tgt == blast.target
        n0 == Len(blast.ckw[tgt].hist)
    IN \A i \in 1..Len(blast.kinds) :
         blast.kinds[i] # "import" =>
           wls[tgt].hist[n0 + i].after = (IF n0 + i = 1 THEN InitVal ELSE wls[tgt].hist[n0 + i - 1].after)
\* audit and replay are pure
AuditReplayPure == blast.op \in {"audit", "replay"} => (LanesAsBefore /\ RegistryAsBefore)
\* lane ticks, forks and failed settlements leave the registry alone
LaneCallsNeverTouchShells == blast.op \in {"tick", "fork", "pin", "plan", "settle_begin", "settle_failed"} => RegistryAsBefore
\* collapse without a policy is refused with the documented reason: an obstruction shell naming the plural
\* parent, never a derived one; the selection is ignored
CollapseWithoutPolicyRefused ==
  (blast.op = "collapse" /\ blast.cpol = None /\ blast.res.ok) =>
     /\ blast.res.class = "obstructed"
     /\ blast.res.shell.out.k = "obstruction"
     /\ blast.res.shell.out.code = CollapseWithoutPolicyReason
     /\ blast.res.shell.out.from = blast.d
     /\ blast.res.shell.out.refs = <<>>
     /\ blast.res.shell = CollapseRes(blast.pre.store, blast.d, None, <<>>).shell
\* a lawful collapse records exactly the selected refs next to exactly the parent's members, under the named
\* policy, on the parent's lane and basis; only plural shells collapse
CollapseRecordsExactlyTheSelection ==
  (blast.op = "collapse" /\ blast.res.ok /\ blast.cpol # None) =>
     /\ blast.d \in blast.pre.store /\ blast.d.out.k = "plural"
     /\ blast.res.class = "derived"
     /\ blast.res.shell.out.refs = blast.sel
     /\ blast.res.shell.out.from = blast.d
     /\ blast.res.shell.out.cpol = blast.cpol /\ blast.res.shell.pol = blast.cpol
     /\ blast.res.shell.members = blast.d.members
     /\ blast.res.shell.wl = blast.d.wl /\ blast.res.shell.basis = blast.d.basis
\* collapse is all-or-nothing: either exactly the one new shell is retained, or nothing at all changes
CollapseAllOrNothing ==
  blast.op = "collapse" =>
     /\ pidx = blast.pre.pidx
     /\ IF blast.res.ok /\ blast.keep
        THEN store = blast.pre.store \cup {blast.res.shell}
        ELSE store = blast.pre.store
     /\ (~blast.res.ok => blast.res.class = "err")
JointAllOrNothing ==
  blast.op = "joint" =>
     IF blast.res.ok THEN /\ store = blast.pre.store \cup {blast.res.shell}
                          /\ \A p \in DOMAIN blast.pre.pidx : pidx[p] = blast.pre.pidx[p]
                     ELSE RegistryAsBefore
\* a retained plural artifact is bound to exactly one shell, forever
NoDoubleBinding ==
  /\ \A p \in DOMAIN pidx : pidx[p] \in store /\ pidx[p].out.k = "plural" /\ p \in pidx[p].out.alts
  /\ \A s \in store : s.out.k = "plural" => \A p \in s.out.alts : p \in DOMAIN pidx /\ pidx[p] = s
  /\ \A s1, s2 \in store : (s1 # s2 /\ s1.out.k = "plural" /\ s2.out.k = "plural") => s1.out.alts \cap s2.out.alts = {}
\* retained evidence is immutable: every shell ever retained is still there and replays to exactly what it
\* replayed to when it was retained (member verdicts, outcome arm, policy, law) - whatever ticks, settlements
\* and collapses came later
RetainedShellsImmutable ==
  \A i \in 1..Len(born) : born[i].shell \in store /\ born[i].replay.ok /\ ReplayRes(store, born[i].shell) = born[i].replay
\* a shell retained by a settlement replays to the member state of that settlement
ReplayMatchesSettlement ==
  blast.op = "retain" =>
    LET r == ReplayRes(store, blast.shell)
    IN /\ r.ok
       /\ r.verdicts = {[ref |-> last.w, verdict |-> VerdictOf(blast.kinds)]}
       /\ r.kind = (CASE VerdictOf(blast.kinds) = "Plural" -> "plural" [] VerdictOf(blast.kinds) = "Conflict" -> "conflict" [] OTHER -> "derived")
       /\ r.law = "Settlement"
       /\ Cardinality(blast.shell.out.alts) = Cardinality({i \in 1..Len(blast.kinds) : blast.kinds[i] = "plural"})
\* lineage: a collapse / obstruction shell names a retained plural parent and summarizes exactly its members
LineageSound ==
  \A s \in store : s.out.from # None =>
     /\ s.out.from \in store /\ s.out.from.out.k = "plural"
     /\ s.members = s.out.from.members /\ s.wl = s.out.from.wl /\ s.basis = s.out.from.basis
     /\ ~ReplayRes({s}, s).ok                   \* without its parent the shell does not replay
\* every retained shell is coherent (assemble / validate) and replays
StoreWellFormed ==
  \A s \in store :
     /\ s.members # {} /\ s.pol # EmptyPolicy
     /\ (s.out.k = "plural" => \E m \in s.members : m.verdict = "Plural")
     /\ (s.out.k = "conflict" => (\E m \in s.members : m.verdict = "Conflict") /\ ~\E m \in s.members : m.verdict = "Plural")
     /\ (s.out.k = "derived" /\ s.out.from = None => \A m \in s.members : m.verdict = "Derived")
     /\ \A m1, m2 \in s.members : m1.ref = m2.ref => m1 = m2
     /\ ReplayRes(store, s).ok
\* the abstract shell list of Strands.tla and this registry agree on what settlements retained
RetainAgreesWithStrands ==
  /\ Len(shells) = Cardinality({i \in 1..Len(born) : Cardinality(born[i].shell.members) = 1 /\ born[i].shell.out.from = None})
  /\ BoundPids = {<<p.target, p.child, p.t, p.eo>> : p \in {q \in DOMAIN pidx : ~q.joint}}

\* ---- the same laws as ACTION properties (checked on every transition, also on those whose successor is
\*      not a new state under a VIEW that hides `blast`) -----------------------------------------------
A_Op(ops) == blast'.op \in ops
A_LanesSame == wls' = wls /\ gtick' = gtick /\ reg' = reg /\ heads' = heads /\ shells' = shells
A_RegistrySame == store' = store /\ pidx' = pidx /\ born' = born
A_ShellCallsNeverTouchLanes == (A_Op(ShellOps) /\ blast' # blast) => A_LanesSame
A_AuditReplayPure == (A_Op({"audit", "replay"}) /\ blast' # blast) => (A_LanesSame /\ A_RegistrySame)
A_AuditReplayDeterministic ==
  (A_Op({"audit", "replay"}) /\ blast' # blast) =>
     blast'.res = (IF blast'.op = "audit" THEN AuditRes(store', blast'.d) ELSE ReplayRes(store', blast'.d))
A_StoreAppendOnly == (store \subseteq store') /\ (\A p \in DOMAIN pidx : p \in DOMAIN pidx' /\ pidx'[p] = pidx[p])
A_TicksKeepShells == (wls' # wls) => A_RegistrySame
=============================================================================
