"""C11 - the log rejects corruption instead of reinterpreting it.

MC : MC_C11.tla (Wal.tla): a committed log A of NT transactions x NF frames and a second log B with
     the same LSNs; ONE edit (damage of a record region {magic, kind, len up/down, payload, digest},
     truncation at every abstract byte position, delete / duplicate (every target position) / swap /
     transplant of a record, delete / transplant of a whole transaction); the recovery scan
     transcribed from read_segment_bytes + recover_from_frames_and_commits classifies the result as
     err / prefix / nonprefix for both entry-point orders (storage order, LSN-sorted).
     Repaired = TRUE (chain fields compared) is checked as an invariant (the proposed repair is
     sufficient in the model); Repaired = FALSE exports every case with the predicted class.
RP : every exported case is applied to the REAL bytes of logs written by a real host (3 frames +
     commit per submission transaction = the model's shape); prediction vs real class = drift.
TV : systematic mutation of a generated submit/stage/tick log: every record-level and
     transaction-level edit, seeded bit flips / zeroed ranges (thorough: every bit and every aligned
     8-byte range of a <=4 kB log), truncations, ledger and manifest edits, through
     recover_wal_segment_bytes, recover_filesystem_store, doctor_filesystem_store,
     validate_filesystem_manifest and enable_runtime_wal. WalTraceC11.tla applies the oracle
     Recover(corrupted) in Err \\/ Prefixes(committed) (identity and content) to every event.
"""
import collections
import os
from lib import *

TRACE_JAVA = "-Xss1g -Dtlc2.tool.queue.IStateQueue=StateDeque"

# normalised names of the structural edits (model cases and systematic edits share keys)
def edit_name(e, rec_kinds):
    k = e["edit"]["k"]
    if e["case"] >= 0:
        ed = e["edit"]
        kind = rec_kinds.get(ed.get("i"), "record")
        if k in ("delete", "transplant"):
            return f"{k}_{kind}"
        if k == "duplicate":
            return f"duplicate_{kind}"
        if k == "transplant_tx":
            return "transplant_transaction"
        if k == "delete_tx":
            return "delete_transaction"
        if k == "swap":
            return "swap_adjacent_records"
        if k == "damage":
            return "damage_" + ed["region"]
        return k
    return k.replace("_adjacent", "").replace("_at_end", "") if k.startswith("duplicate_") else k


KEY_ALIASES = {"duplicate_commit": "duplicate_commit_marker", "delete_commit": "delete_commit_marker"}


def sanitize(events, path):
    out, index = [], []
    for e in events:
        if e["event"] == "log":
            o = {"event": "log", "committed": e["committed"], "fps": e["fps"]}
        elif e["event"] == "edit":
            o = {"event": "edit",
                 "bytes": {"class": e["bytes"]["class"], "h": e["bytes"]["h"]},
                 "fs": {"class": e["fs"]["class"], "h": e["fs"]["h"]},
                 "doctor": {"class": e["doctor"]["class"], "n": e["doctor"]["n"]},
                 "manifest": {"class": e["manifest"]["class"], "meaning_same": e["manifest"].get("meaning_same", True)},
                 "host": {"class": e["host"]["class"], "k": e["host"].get("k", 0), "fp": e["host"].get("fp", "")},
                 "ro_pure": e["ro_pure"], "cb": e["cb"]}
        else:
            continue
        out.append(o)
        index.append(e)
    write_ndjson(path, out)
    return index


def run(tier, replay=None):
    ck = Check("C11", tier)
    binp = build_harness()
    os.makedirs(os.path.join(VERIF, "work", "agent_wal", "scratch"), exist_ok=True)
    cases = []
    htier = tier
    if replay:
        rp = json.load(open(replay))["case"]
        cases = rp.get("model_cases", [])
        htier = rp.get("tier", tier)
    else:
        cfg = "MC_C11_quick.cfg" if tier == "quick" else "MC_C11_thorough.cfg"
        res = tlc("MC_C11", cfg, workers=4, timeout=3600, tags=("CASE",))
        ck.add_tlc(res)
        if res.violation:
            raise ToolError(f"{cfg}: unexpected TLC violation {res.violation}")
        if not res.lines:
            raise ToolError(f"{cfg}: nothing exported")
        cases = [c for _, c in res.lines]
        # the proposed repair closes every predicted hole in the model
        rcfg = "MC_C11_repaired.cfg" if tier == "quick" else "MC_C11_repaired_thorough.cfg"
        r2 = tlc("MC_C11", rcfg, workers=4, timeout=3600, tags=())
        ck.add_tlc(r2)
        if r2.violation:
            ck.notes.append({"repair_insufficient_in_model": r2.error_text[:1500]})
        r3 = tlc("MC_C11", "MC_C11_asbuilt.cfg", workers=2, timeout=3600, tags=())
        ck.add_tlc(r3)
        ck.cov["model_asbuilt_violates_Inv_C11"] = bool(r3.violation)
    kinds = collections.Counter(c["e"]["k"] for c in cases)
    predicted_bad = [c for c in cases if "nonprefix" in (c["pred"]["bytes"], c["pred"]["fs"])]
    cin = write_ndjson(os.path.join(WORK, "c11_cases.ndjson"), cases)
    trace = os.path.join(WORK, "c11_trace.ndjson")
    summ = json.loads(harness(binp, ["c11", cin if cases else "-", trace, str(ck.seed), htier], timeout=6 * 3600).strip().splitlines()[-1])
    events = read_ndjson(trace)
    tpath = os.path.join(WORK, "c11.tlc.ndjson")
    index = sanitize(events, tpath)
    res = tlc("WalTraceC11", "WalTraceC11.cfg", workers=1, env={"TRACE": tpath}, java_opts=TRACE_JAVA, timeout=7200,
              tags=(), out_name="c11_trace")
    ck.add_tlc(res)
    txt = open(res.stdout_path).read()
    if res.postcondition_failed or res.violation or "REJECTED_AT" in txt:
        m = re.search(r'"REJECTED_AT", (\d+)', txt)
        raise ToolError(f"WalTraceC11 could not consume the trace (line {m.group(1) if m else '?'}): {res.error_text[:800]}")
    # record kinds of the model-shaped log: 3 frames + commit per transaction
    rec_kinds = {i: ("commit" if i % 4 == 0 else "frame") for i in range(1, 64)}
    groups = collections.OrderedDict()
    for m in re.finditer(r'<<\s*"BAD",\s*(\d+),\s*\{(.*?)\}\s*>>', txt, re.S):
        line = int(m.group(1))
        reasons = sorted(x.strip().strip('"') for x in m.group(2).split(",") if x.strip())
        e = index[line - 1]
        name = edit_name(e, rec_kinds)
        name = KEY_ALIASES.get(name, name)
        for r in reasons:
            groups.setdefault(f"{name}:{r}", []).append((line, e))
    edits = [e for e in events if e["event"] == "edit"]
    model_edits = [e for e in edits if e["case"] >= 0]
    # ---- RP: prediction vs real class -----------------------------------------------------
    log_committed = {}
    cur = None
    drift = collections.Counter()
    confirmed = 0
    for e in events:
        if e["event"] == "log":
            cur = e
            continue
        if e["event"] != "edit" or e["case"] < 0:
            continue
        com = cur["committed"]

        def cls(o):
            if o["class"] != "ok":
                return o["class"]
            return "prefix" if o["h"] == com[:len(o["h"])] else "nonprefix"
        real = (cls(e["bytes"]), cls(e["fs"]))
        pred = (e["pred"]["bytes"], e["pred"]["fs"])
        if real != pred:
            drift[(e["edit"]["k"], pred, real)] += 1
        elif "nonprefix" in real:
            confirmed += 1
    for (k, pred, real), n in drift.items():
        ck.notes.append({"drift": f"{n} model case(s) of edit '{k}': model predicts {pred}, real code gives {real} (bytes, fs)"})
    # ---- violations -----------------------------------------------------------------------------
    keep = os.path.join(REPLAYS, f"C11-{ck.seed}-trace.ndjson")
    if groups:
        shutil.copy(trace, keep)
    prio = ["duplicate_commit_marker", "delete_commit_marker", "transplant_transaction", "delete_transaction",
            "splice_suffix_from_other_log", "swap_adjacent_transactions"]
    entry_prio = ["recover_wal_segment_bytes", "recover_filesystem_store", "enable_runtime_wal", "doctor_filesystem_store"]

    def rank(key):
        n, r = key.split(":")
        return (prio.index(n) if n in prio else len(prio), entry_prio.index(r) if r in entry_prio else 9, key)
    for key in sorted(groups, key=rank):
        items = groups[key]
        line, e = items[0]
        entry = key.split(":")[1]
        field = {"recover_wal_segment_bytes": "bytes", "recover_filesystem_store": "fs", "doctor_filesystem_store": "doctor",
                 "validate_filesystem_manifest": "manifest", "enable_runtime_wal": "host"}.get(entry)
        got = e.get(field) if field else None
        desc = (f"{len(items)} edited log(s); first: log {e['log']}, edit {json.dumps(e['edit'])} ({e.get('what')}): {entry} returned "
                f"{json.dumps(got)[:500]} - a successful result that is not a prefix (identity and content) of the committed history")
        ck.violation(key, desc, {"tier": ck.tier, "model_cases": [cases[e["case"]]] if e["case"] >= 0 and e["case"] < len(cases) else [],
                                 "edit": e["edit"], "log": e["log"], "entry_point": entry, "result": got, "count": len(items),
                                 "trace": keep})
    # observations that are not violations of the property as stated
    silent = []
    cur = None
    for e in events:
        if e["event"] == "log":
            cur = e
        elif e["event"] == "edit" and e["edit"]["k"] in ("bit_flip", "damage", "zero_range") and e["fs"]["class"] == "ok" \
                and len(e["fs"]["h"]) < len(cur["committed"]):
            silent.append(e)
    if silent:
        ck.notes.append({"observation": f"{len(silent)} damaged logs (a flipped bit in a record's length field pointing past the end of the file) are "
                         "classified as an uncommitted tail and silently lose every later committed transaction; the result is a prefix, so the "
                         "property as stated holds", "example": silent[0]["edit"]})
    mflip_ok = [e for e in edits if e["edit"]["k"] == "manifest_bit_flip" and e["manifest"]["class"] == "ok"]
    if mflip_ok:
        ck.notes.append({"observation": f"{len(mflip_ok)} single-bit edits of manifest.ecwal (all inside manifest_digest) pass validate_filesystem_manifest: "
                         "the manifest carries no self-checksum; the segment history is unaffected"})
    ck.cov["traces_validated_against_impl"] = len(edits)
    ck.cov["evaluations"] = len(edits) * 5
    ck.cov["model_cases"] = len(model_edits)
    ck.cov["model_cases_by_kind"] = dict(kinds)
    ck.cov["model_predicted_nonprefix"] = len(predicted_bad)
    ck.cov["model_predictions_confirmed_on_real_code"] = confirmed
    ck.cov["drift_cases"] = sum(drift.values())
    ck.cov["distinct_nontrivial"] = sum(1 for e in edits if e["bytes"]["class"] == "ok" or e["fs"]["class"] == "ok" or e["host"]["class"] == "ok")
    ck.cov["harness_summary"] = summ
    ck.cov["rule"] = ("one edit per event applied to real segment/ledger/manifest bytes, evaluated through 5 entry points; non-trivial = at least one entry "
                      "point returned success (so the prefix oracle had something to decide); quick: every record- and transaction-level edit + seeded "
                      "bit flips/zero ranges; thorough: additionally every bit and every aligned 8-byte range of a <=4 kB log")
    ck.cov["exhaustive"] = (replay is None and tier == "thorough")
    if not replay and (len(model_edits) != len(cases) or summ["edits"] < 300):
        raise ToolError("C11 harness leg is vacuous")
    if edits:
        ok_edit = [e for e in edits if e["case"] >= 0]
        ck.sample({"model_case": cases[0] if cases else None})
        ck.sample({"edit_event": {k: (v if k not in ("bytes", "fs") else {"class": v["class"], "h": v["h"][:3]}) for k, v in edits[len(edits) // 3].items()}})
    ck.assumptions += [
        "hashes are abstract in the model: record identity = (source log, transaction, index); the harness compares BLAKE3 digests of the recovered transactions (identity + Debug content)",
        "a damaged length field is modelled as two cases (points past the end of the file / shorter than the record)",
        "log B = the same host calls with different payload bytes, hence equal LSNs, equal writer-epoch ids and different transaction ids/content",
        "trusted base: TLC, the harness' independent parser of the record framing, BLAKE3 collision-freeness",
    ]
    import c11s  # segmented leg: rotated logs, manifest, writer-epoch ledger (WalSeg.tla / MC_C11s.tla / c11s.rs)
    c11s.run_leg(ck, binp, tier, replay)
    return ck.finish()
