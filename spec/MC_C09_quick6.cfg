SPECIFICATION MC_Spec
CONSTANTS
  Worldlines <- MC_Worldlines
  Heads <- MC_Heads
  WlOf <- MC_WlOf
  HeadRank <- MC_HeadRank
  DefaultOf <- MC_DefaultOf
  NamedOf <- MC_NamedOf
  Intents = {}
  KindOf <- MC_KindOf
  BehOf <- MC_BehOf
  IdRank <- MC_IdRank
  None = None
  Topos <- Topos_six1
  NP = 3
  BgModes = {"all"}
  TktModes = {FALSE}
  SpecialKinds = {"panic", "badop", "tktdup", "tickmax", "provgap", "uwrite"}
  SpecialPasses = {2}
  RecoverModes = {"repair"}
  Export = TRUE
INVARIANTS FailedPassChangesOnlyFaultEvidence SuccessAdvancesByOne HeadOrderCanonical FaultedHeadSkipped UnrelatedHeadsProceed LawfulRejectionIsReceiptNotFault FaultIndexesConsistent AtMostOncePerHead CommittedIsLog PendingIsSet AdmittedInIdOrder CorrelationsSound Inv_Export
CHECK_DEADLOCK FALSE
