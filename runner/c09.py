"""C09 - a scheduler pass is all-or-nothing and strictly ordered.

MC : MC_C09.tla over Runtime.tla. SuperTick is transcribed operationally (refresh runnable, pre-flights,
     checkpoint of the runnable heads / their frontiers / global tick / provenance lengths, per-head
     admit + commit + provenance append + committed-ingress + tick advance + receipt correlations,
     rollback + restore on the first failure, fault record with the scope the code assigns, recovery).
     Invariants: FailedPassChangesOnlyFaultEvidence, SuccessAdvancesByOne, HeadOrderCanonical,
     FaultedHeadSkipped, UnrelatedHeadsProceed, LawfulRejectionIsReceiptNotFault, FaultIndexesConsistent
     (+ the C08 ledger invariants, which share the module).
RP : every behaviour of the bounded scenario generator (topology x special x failing pass x operator
     reaction) is replayed into the real WorldlineRuntime / SchedulerCoordinator / ProvenanceService /
     Engine with a failure-injecting command rule. After EVERY action the model-visible projection is
     compared; around every pass a full Debug fingerprint of runtime + provenance + engine scratch is
     taken and, after a failed pass, must equal the pre-pass one outside the masked fault-evidence fields.
     The property is decided on the real outcome; model disagreement where the property holds = drift.
"""
import os
from lib import *

RUNS = {
    "quick": [
        # (cfg, id salt, engine workers)
        ("MC_C09_quick.cfg", "", 1),
        ("MC_C09_quick6.cfg", "b", 4),
    ],
    "thorough": [
        ("MC_C09_thorough.cfg", "", 1),
        ("MC_C09_thorough_bg.cfg", "b", 4),
        ("MC_C09_quick6.cfg", "c", 4),
    ],
}

FAIL_KINDS = ["panic", "uwrite", "uread", "xwarp", "badop", "tktdup", "provgap", "tickmax", "gtmax"]


def rt_ranks(binp, salt):
    out = harness(binp, ["rt-ranks"], env={"VERIF_ID_SALT": salt})
    info = json.loads(out.strip().splitlines()[-1])
    path = os.path.join(WORK, f"rt_ranks_{salt or '0'}.json")
    with open(path, "w") as f:
        json.dump({"heads": info["heads"]}, f)
        f.write("\n")
    return path, info


def run(tier, replay=None):
    ck = Check("C09", tier)
    binp = build_harness()
    runs = []
    mask = None
    kernel_only = bool(replay) and str(json.load(open(replay))["case"].get("leg", "")).startswith("kernel")
    if kernel_only:
        pass                                     # a replay of the kernel-port leg (runner/kport.py): skip the main leg
    elif replay:
        obj = json.load(open(replay))["case"]
        _, info = rt_ranks(binp, obj.get("salt", ""))
        mask = info["mask"]
        runs.append((obj.get("cfg", "replay"), obj.get("salt", ""), obj.get("workers", 1), obj["cases"]))
    else:
        for cfg, salt, workers in RUNS[tier]:
            path, info = rt_ranks(binp, salt)
            mask = info["mask"]
            res = tlc("MC_C09", cfg, workers=6, env={"VERIF_RT_RANKS": path}, timeout=7200, tags=("CASE",),
                      out_name=f"c09_{cfg.replace('.cfg', '')}", heap="10g")
            ck.add_tlc(res)
            if res.violation:
                ck.violation(f"spec:{cfg}:{res.violation}", "TLC invariant violated on the model:\n" + res.error_text[:3000],
                             {"cfg": cfg, "salt": salt, "invariant": res.violation, "trace": res.error_text[:20000]})
                continue
            if not res.lines:
                raise ToolError(f"{cfg}: nothing exported")
            runs.append((cfg, salt, workers, [c for _, c in res.lines]))
    total = nontrivial = drift = actions = 0
    stats = {}
    fail_positions = set()      # (heads in topology, 1-based position of the failing head among the due heads)
    kinds_failed = {}           # special kind -> failed passes observed in the real runtime
    fail_pass = set()
    for cfg, salt, workers, cases in runs:
        tag = f"c09_{cfg.replace('.cfg', '')}"
        cin = write_ndjson(os.path.join(WORK, f"{tag}.cases"), cases)
        cout = os.path.join(WORK, f"{tag}.results")
        harness(binp, ["c09", cin, cout], timeout=7200, env={"VERIF_ID_SALT": salt, "VERIF_RT_WORKERS": str(workers)})
        results = read_ndjson(cout)
        if len(results) != len(cases):
            raise ToolError("harness result count mismatch")
        for c, r in zip(cases, results):
            total += 1
            actions += len(c["hist"])
            slim = {"cfg": cfg, "salt": salt, "workers": workers, "cases": [c]}
            if r["verdict"] == "tool_error":
                raise ToolError(f"harness: {r.get('detail')}")
            if r["verdict"] == "vacuous":
                raise ToolError(f"fault injection did not fire: {r.get('detail')}")
            if r["verdict"] == "violation":
                ck.violation(f"{r['kind']}:{c['sp'].get('kind')}", json.dumps(r.get("detail"))[:3000], slim)
                continue
            for k, v in r.get("stats", {}).items():
                stats[k] = stats.get(k, 0) + v
            if r.get("drift"):
                drift += 1
                if len(ck.notes) < 5:
                    ck.notes.append({"model_drift": r["drift"][:2], "sp": c["sp"], "topo": c["topo"]})
            for k, h in enumerate(c["hist"]):
                # a failing (not refused) pass that starts from a non-empty committed-ingress ledger: the rollback has to
                # reinstall frontiers WITH their ledger (every head is runnable, hence checkpointed, in these scenarios)
                if h["a"]["a"] == "tick" and not h["r"]["ok"] and h["r"]["err"] != "SchedulerRuntimeFaultActive" and k > 0 and c["hist"][k - 1]["s"]["comm"]:
                    stats["failed_passes_over_nonempty_ledger"] = stats.get("failed_passes_over_nonempty_ledger", 0) + 1
            failed = [h for h in c["hist"] if h["a"]["a"] == "tick" and not h["r"]["ok"]]
            if failed:
                nontrivial += 1
                kinds_failed[c["sp"]["kind"]] = kinds_failed.get(c["sp"]["kind"], 0) + 1
                fail_pass.add(c["sp"].get("pass"))
                for h in failed:
                    if h["r"]["failHead"] != "none":
                        due_before = len(h["r"]["steps"]) + 1
                        fail_positions.add((len(c["heads"]), due_before))
        if cases:
            mid = cases[len(cases) // 2]
            ck.sample({"cfg": cfg, "topo": mid["topo"], "sp": mid["sp"], "bg": mid["bg"], "tkt": mid["tkt"],
                       "actions": [h["a"] for h in mid["hist"]][:40],
                       "tick_results": [h["r"] for h in mid["hist"] if h["a"]["a"] == "tick"]})
    # vacuity guards: the failure kinds and positions the property quantifies over must have been exercised
    if not replay:
        missing = [k for k in FAIL_KINDS if not kinds_failed.get(k)]
        if missing:
            raise ToolError(f"no failing pass observed for failure kinds {missing}")
        if stats.get("head_faults", 0) == 0 or stats.get("runtime_faults", 0) == 0 or stats.get("panics", 0) == 0:
            raise ToolError(f"vacuous run: {stats}")
        if stats.get("failed_passes_over_nonempty_ledger", 0) == 0:
            raise ToolError(f"vacuous run: no failing pass started from a non-empty committed-ingress ledger: {stats}")
        if stats.get("rejections", 0) == 0 or stats.get("quarantine_skips", 0) == 0 or stats.get("refused", 0) == 0:
            raise ToolError(f"vacuous run (no lawful rejection / quarantine skip / refused pass): {stats}")
        if not {(6, k) for k in range(1, 7)} <= fail_positions or not {1, 2, 3} <= fail_pass:
            raise ToolError(f"vacuous run: fail positions {sorted(fail_positions)} passes {fail_pass}")
    ck.cov["traces_validated_against_impl"] = total
    ck.cov["evaluations"] = actions
    ck.cov["distinct_nontrivial"] = nontrivial
    ck.cov["rule"] = ("behaviours of the bounded generator MC_C09 (cfgs %s), each a distinct TLC behaviour replayed action by action; "
                      "non-trivial = at least one scheduler pass of the behaviour fails in the real runtime (rollback + fault evidence exercised)"
                      % [r[0] for r in RUNS.get(tier, [])])
    ck.cov["exhaustive"] = replay is None
    ck.cov["model_drift_cases"] = drift
    ck.cov["real_pass_stats"] = stats
    ck.cov["failing_kinds_observed"] = kinds_failed
    ck.cov["failing_positions_(heads,position)"] = sorted(fail_positions)
    ck.cov["fingerprint_mask"] = mask
    ck.assumptions += [
        "bounded generator: <=3 worldlines x <=4 heads (<=6 heads in the 6-head cfg), <=3 passes, at most one special per behaviour",
        "a head commit is abstracted to a function of the admitted set and per-intent behaviour class (bound by C01)",
        "fault injection through a table-driven command rule (panic / undeclared write / undeclared read / foreign-instance op => panics with enforcement compiled in; inapplicable DeleteNode => typed EngineError), "
        "verification seams for frontier/global tick MAX, a foreign provenance entry at the tip (append rejects), one ticket staged for two submissions (correlation index conflict)",
        "fingerprint = compact Debug rendering of WorldlineRuntime split into top-level fields + Debug of ProvenanceService + Engine::verif_fingerprint(); after a failed pass only %s may differ "
        "(fault evidence, the derived runnable index which is re-derived and cross-checked, and the host_test full-scan counter)" % mask,
        "transient faults: a pass that is not armed runs the faulty intent classes as honest work",
    ]
    import kport                                 # kernel-port leg: the host-facing WarpKernel (spec/KernelPort.tla)
    kport.run_leg(ck, binp, tier, replay)
    return ck.finish()
