"""C06 - the state root commits to exactly the reachable state.

MC : MC_C06.tla explores one graph state over a universe with reachable and unreachable
     content; invariants: well-formedness, the two transcribed definitions of the committed
     content (store-walking vs accumulator-style) agree, reachability is closed, edits
     confined to unreachable content leave Canon unchanged.
RP/MR: every explored state, with Canon(s, root) per candidate root, is built in the real
     store in five construction orders; the harness requires order independence of the root
     and of the WSC bytes, accumulator root = store-walking root, and WSC read-back = same
     state; the runner requires  root equal <=> Canon equal  over ALL explored states.
"""
import os
from lib import *


def norm(o):
    if isinstance(o, dict):
        return {k: norm(v) for k, v in sorted(o.items())}
    if isinstance(o, list):
        return sorted((norm(x) for x in o), key=lambda x: json.dumps(x, sort_keys=True))
    return o


def run(tier, replay=None):
    ck = Check("C06", tier)
    binp = build_harness()
    ids = id_ranks(binp)
    cfgs = ["MC_C06_quick.cfg"] if tier == "quick" else ["MC_C06_quick.cfg", "MC_C06_thorough.cfg"]
    all_cases = []
    if replay:
        obj = json.load(open(replay))["case"]
        all_cases = obj["cases"]
    else:
        for cfg in cfgs:
            res = tlc("MC_C06", cfg, workers=8, env={"VERIF_IDS": ids}, timeout=7200, tags=("CASE",))
            ck.add_tlc(res)
            if res.violation:
                ck.violation(f"spec:{cfg}:{res.violation}", "TLC property violated on the model:\n" + res.error_text[:3000],
                             {"cfg": cfg, "invariant": res.violation, "trace": res.error_text[:20000]})
                continue
            if not res.lines:
                raise ToolError(f"{cfg}: nothing exported")
            all_cases += [c for _, c in res.lines]
    cin = write_ndjson(os.path.join(WORK, "c06.cases"), all_cases)
    cout = os.path.join(WORK, "c06.results")
    harness(binp, ["c06", cin, cout], timeout=7200)
    results = read_ndjson(cout)
    if len(results) != len(all_cases):
        raise ToolError("harness result count mismatch")
    by_class = {}   # canon -> (root hex, case)
    by_root = {}    # root hex -> (canon, case)
    n_multi = 0
    for c, r in zip(all_cases, results):
        if r["verdict"] == "violation":
            ck.violation(r["kind"], r.get("detail", ""), {"cases": [c], "result": r})
            continue
        if len(c["s"]["inst"]) > 1 or any(n["att"]["k"] != "none" for n in c["s"]["node"]):
            n_multi += 1
        for canon, root in zip(c["canons"], r["roots"]):
            key = json.dumps(norm(canon), sort_keys=True)
            if key in by_class and by_class[key][0] != root:
                ck.violation("same_reachable_content_different_root",
                             "two states with identical reachable content have different state roots",
                             {"cases": [c, by_class[key][1]], "canon": canon})
            by_class.setdefault(key, (root, c))
            if root in by_root and by_root[root][0] != key:
                ck.violation("different_reachable_content_same_root",
                             "two states whose reachable content differs share a state root",
                             {"cases": [c, by_root[root][1]], "canon": canon, "other": json.loads(by_root[root][0])})
            by_root.setdefault(root, (key, c))
    if all_cases:
        ck.sample({"state": all_cases[len(all_cases) // 2]["s"], "canon": all_cases[len(all_cases) // 2]["canons"][0],
                   "roots": results[len(all_cases) // 2].get("roots")})
    ck.cov["traces_validated_against_impl"] = len(all_cases)
    ck.cov["evaluations"] = len(all_cases) * 5
    ck.cov["distinct_nontrivial"] = n_multi
    ck.cov["canon_classes"] = len(by_class)
    ck.cov["distinct_roots"] = len(by_root)
    ck.cov["rule"] = ("every state of the bounded universe(s) %s, each built in 5 construction orders and hashed for every candidate root; "
                      "non-trivial = more than one instance or at least one node attachment; classes = distinct Canon values" % cfgs)
    ck.cov["exhaustive"] = replay is None
    ck.assumptions += ["bounded universe (cfg constants)", "BLAKE3 collision-freeness for the 'different content => different root' direction",
                       "Canon transcribed from compute_state_root; hooks verif::legacy_state_root / accumulator_state_root"]
    return ck.finish()
