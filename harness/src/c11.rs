//! C11 - the log rejects corruption instead of reinterpreting it.
//!
//! Generated logs are written by a REAL `TrustedRuntimeHost` with a filesystem WAL (log A, and a
//! second log B produced by the same calls with different payloads, hence equal LSNs). Edits are
//! applied to the REAL segment bytes:
//!   * every case exported by MC_C11 (edit kind x record x region) - replay leg, the model's
//!     predicted class per entry point travels with the case;
//!   * systematic mutation - every record-level edit (delete / duplicate / swap / transplant a
//!     record, delete / duplicate / swap / transplant a whole transaction), bit flips and zeroed
//!     ranges (seeded sample in quick, every bit / every aligned range of a small log in
//!     thorough), truncations, ledger and manifest edits.
//! Each edited log goes through `recover_wal_segment_bytes`, `recover_filesystem_store`,
//! `doctor_filesystem_store`, `validate_filesystem_manifest` and `enable_runtime_wal`; the result
//! classes and recovered histories (identity + content digests) are logged as a trace and
//! WalTraceC11.tla applies the oracle  Recover(corrupted) in Err \/ Prefixes(committed).
//!
//! usage: echo-verif c11 <cases.ndjson|-> <trace.ndjson> <seed> <quick|thorough>

use std::collections::BTreeSet;
use std::fs;
use std::path::{Path, PathBuf};

use rand::rngs::StdRng;
use rand::{Rng, SeedableRng};
use serde_json::{json, Value};
use warp_core::causal_wal::{
    doctor_filesystem_store, recover_filesystem_store, recover_wal_segment_bytes, validate_filesystem_manifest,
    FilesystemWalStore, Lsn, RecoveryAccessMode, RecoveryScanReport, WalDoctorPosture, WalManifest, WalSegmentId,
    WalStorePort,
};
use warp_core::Hash;

use crate::c10::{gen_workload, run_ops, Op, RunLog, Sim, Workload};
use crate::util::{catch, read_lines, Out};
use crate::walfix_c10::*;

/// A generated log: final segment bytes, ledger, per-commit views of the writing host.
pub struct GenLog {
    pub name: String,
    pub seg: Vec<u8>,
    pub ledger: Vec<u8>,
    pub recs: Vec<DiskRec>,
    /// identity+content digest of every committed transaction, in order
    pub committed: Vec<String>,
    /// strict view fingerprint of the writing host after k commits
    pub fps: Vec<String>,
    pub ids: Vec<Hash>,
    pub manifest: Option<Vec<u8>>,
}

fn tx_digests(report: &RecoveryScanReport) -> Vec<String> {
    report
        .transactions
        .iter()
        .map(|t| format!("{}:{}", &hash_hex(&t.commit.transaction_id.as_hash())[..12], h(format!("{t:?}").as_bytes())))
        .collect()
}

fn build_log(name: &str, wk: &Workload, dir: &Path) -> Result<GenLog, String> {
    let _ = fs::remove_dir_all(dir);
    // dry run for ids
    let mut host = open_host(dir)?;
    host.register_contract_package(package()).map_err(|e| format!("{e:?}"))?;
    let mut sim = Sim { host, dir: dir.to_path_buf(), ids: vec![None; wk.n], staged: BTreeSet::new() };
    for op in &wk.ops {
        let o = sim.apply(wk, op);
        if o.res == "err" {
            return Err(format!("{name}: {op:?}: {}", o.detail));
        }
    }
    let ids: Vec<Hash> = sim.ids.iter().map(|x| x.ok_or("id")).collect::<Result<_, _>>()?;
    drop(sim);
    let _ = fs::remove_dir_all(dir);
    let mut host = open_host(dir)?;
    host.register_contract_package(package()).map_err(|e| format!("{e:?}"))?;
    let sim = Sim { host, dir: dir.to_path_buf(), ids: vec![None; wk.n], staged: BTreeSet::new() };
    let (log, sim): (RunLog, Sim) = run_ops(sim, wk, &ids, 0, None)?;
    drop(sim);
    let seg = log.seg_final.clone();
    let ledger = read_ledger(dir).ok_or("no ledger")?;
    let rep = recover_wal_segment_bytes(WalSegmentId::from_raw(1), &seg, RecoveryAccessMode::ReadOnly)
        .map_err(|e| format!("{name}: pristine log does not recover: {e:?}"))?;
    let committed = tx_digests(&rep.report);
    // a valid manifest for this log, published through the store API on a copy
    let mdir = dir.with_extension("m");
    materialise(&mdir, &seg, Some(&ledger), None);
    let manifest = (|| -> Result<Vec<u8>, String> {
        let mut store = FilesystemWalStore::open(&mdir, WalSegmentId::from_raw(1)).map_err(|e| format!("{e:?}"))?;
        let next = rep.report.last_committed_lsn().map(|l| l.as_u64() + 1).unwrap_or(0);
        let epoch = store.acquire_fresh_writer_epoch(Lsn::from_raw(next)).map_err(|e| format!("{e:?}"))?;
        store
            .publish_manifest(
                epoch.epoch_id,
                WalManifest {
                    manifest_digest: [9; 32],
                    last_committed_lsn: rep.report.last_committed_lsn(),
                    last_commit_digest: rep.report.last_commit_digest(),
                    sealed_segment_count: 1,
                },
            )
            .map_err(|e| format!("{e:?}"))?;
        fs::read(mdir.join("manifest.ecwal")).map_err(|e| e.to_string())
    })()
    .ok();
    let _ = fs::remove_dir_all(&mdir);
    let _ = fs::remove_dir_all(dir);
    Ok(GenLog {
        name: name.to_string(),
        recs: parse_records(&seg),
        seg,
        ledger,
        committed,
        fps: log.views.iter().map(|v| v.fp.clone()).collect(),
        ids,
        manifest,
    })
}

/// Outcome of one entry point: class + recovered history digests.
fn scan_outcome<E: std::fmt::Debug>(r: Result<Result<RecoveryScanReport, E>, String>) -> Value {
    match r {
        Ok(Ok(rep)) => json!({"class": "ok", "h": tx_digests(&rep), "tail": format!("{:?}", rep.tail_posture)}),
        Ok(Err(e)) => json!({"class": "err", "h": [], "tail": "", "err": format!("{e:?}").chars().take(160).collect::<String>()}),
        Err(p) => json!({"class": "panic", "h": [], "tail": "", "err": p}),
    }
}

pub struct Edited {
    pub seg: Vec<u8>,
    pub ledger: Option<Vec<u8>>,
    pub manifest: Option<Vec<u8>>,
}

/// Runs all entry points on one edited log.
fn evaluate(log: &GenLog, ed: &Edited, dir: &Path, with_host: bool) -> Value {
    let mut ev = json!({});
    let seg = ed.seg.clone();
    ev["bytes"] = scan_outcome(catch(|| {
        recover_wal_segment_bytes(WalSegmentId::from_raw(1), &seg, RecoveryAccessMode::ReadOnly).map(|r| r.report)
    }));
    materialise(dir, &ed.seg, ed.ledger.as_deref(), None);
    if let Some(m) = &ed.manifest {
        fs::write(dir.join("manifest.ecwal"), m).expect("manifest written");
    }
    ev["fs"] = scan_outcome(catch(|| recover_filesystem_store(dir, RecoveryAccessMode::ReadOnly)));
    ev["doctor"] = match catch(|| doctor_filesystem_store(dir)) {
        Ok(Ok(d)) => json!({"class": if d.posture == WalDoctorPosture::Obstructed { "err" } else { "ok" },
            "n": d.recovery_certificate.committed_transactions_replayed, "posture": format!("{:?}", d.posture)}),
        Ok(Err(e)) => json!({"class": "err", "n": 0, "posture": format!("{e:?}")}),
        Err(p) => json!({"class": "panic", "n": 0, "posture": p}),
    };
    // the manifest's first 32 bytes (manifest_digest) are caller-chosen and bound to nothing; everything
    // after them (last committed LSN, last commit digest, sealed segment count) is its meaning
    let meaning_same = match (&ed.manifest, &log.manifest) {
        (Some(m), Some(o)) => m.len() == o.len() && m.len() >= 32 && m[32..] == o[32..],
        _ => true,
    };
    ev["manifest"] = if ed.manifest.is_some() {
        match catch(|| validate_filesystem_manifest(dir)) {
            Ok(Ok(_)) => json!({"class": "ok", "meaning_same": meaning_same}),
            Ok(Err(e)) => json!({"class": "err", "meaning_same": meaning_same, "err": format!("{e:?}").chars().take(120).collect::<String>()}),
            Err(p) => json!({"class": "panic", "meaning_same": meaning_same, "err": p}),
        }
    } else {
        json!({"class": "none", "meaning_same": true})
    };
    ev["ro_pure"] = json!(read_segment(dir) == ed.seg);
    if with_host {
        let cb0 = callbacks();
        ev["host"] = match catch(|| open_host(dir)) {
            Ok(Ok(mut host)) => match crate::c10::view_of(&mut host, &log.ids) {
                Ok(v) => json!({"class": "ok", "k": v.k, "fp": v.fp, "subs": v.subs, "dec": v.dec,
                    "len_after": read_segment(dir).len()}),
                Err(e) => json!({"class": "err", "k": 0, "fp": "", "err": format!("view: {e}").chars().take(200).collect::<String>()}),
            },
            Ok(Err(e)) => json!({"class": "err", "k": 0, "fp": "", "err": e.chars().take(200).collect::<String>()}),
            Err(p) => json!({"class": "panic", "k": 0, "fp": "", "err": p}),
        };
        ev["cb"] = json!(callbacks() == cb0);
    } else {
        ev["host"] = json!({"class": "skipped", "k": 0, "fp": ""});
        ev["cb"] = json!(true);
    }
    ev
}

fn remove(seg: &[u8], a: usize, b: usize) -> Vec<u8> {
    let mut v = seg[..a].to_vec();
    v.extend_from_slice(&seg[b..]);
    v
}
fn insert_at(seg: &[u8], at: usize, what: &[u8]) -> Vec<u8> {
    let mut v = seg[..at].to_vec();
    v.extend_from_slice(what);
    v.extend_from_slice(&seg[at..]);
    v
}

fn tx_groups(recs: &[DiskRec]) -> Vec<(usize, usize)> {
    // contiguous record index ranges [first, last] per transaction, in file order
    let mut out: Vec<(usize, usize)> = Vec::new();
    for (i, r) in recs.iter().enumerate() {
        if let Some(last) = out.last_mut() {
            if recs[last.0].tx == r.tx {
                last.1 = i;
                continue;
            }
        }
        out.push((i, i));
    }
    out
}

/// Region byte range inside record i.
fn region_range(r: &DiskRec, region: &str) -> (usize, usize) {
    match region {
        "magic" => (r.start, r.start + 8),
        "kind" => (r.start + 8, r.start + 9),
        "len" | "len_big" | "len_small" => (r.start + 9, r.start + 17),
        "payload" => (r.start + 17, r.end - 32),
        _ => (r.end - 32, r.end),
    }
}

/// Applies a model edit (MC_C11 `e`) to the real bytes of log a (b = the other log).
fn apply_model_edit(a: &GenLog, b: &GenLog, e: &Value, rng: &mut StdRng) -> Result<(Vec<u8>, String), String> {
    let k = e["k"].as_str().ok_or("k")?;
    let i = e["i"].as_u64().unwrap_or(0) as usize;
    let j = e["j"].as_u64().unwrap_or(0) as usize;
    let t = e["t"].as_u64().unwrap_or(0) as usize;
    let recs = &a.recs;
    let groups = tx_groups(recs);
    let rec = |ix: usize| -> Result<&DiskRec, String> { recs.get(ix - 1).ok_or(format!("record {ix} out of range")) };
    Ok(match k {
        "damage" => {
            let r = rec(i)?;
            let region = e["region"].as_str().unwrap_or("payload");
            let (lo, hi) = region_range(r, region);
            let mut v = a.seg.clone();
            let what;
            match region {
                "len_big" => {
                    v[lo + 3] ^= 0x40; // + 2^30: points past the end of any generated log
                    what = format!("len byte 3 bit 6 of record {i}");
                }
                "len_small" => {
                    // clear the highest set bit of the length
                    let mut done = false;
                    for byte in (lo..hi).rev() {
                        if v[byte] != 0 {
                            let bit = 7 - v[byte].leading_zeros() as u8;
                            v[byte] ^= 1 << bit;
                            done = true;
                            break;
                        }
                    }
                    if !done {
                        return Err("zero length".into());
                    }
                    what = format!("highest length bit of record {i}");
                }
                _ => {
                    let pos = rng.gen_range(lo..hi);
                    let bit = rng.gen_range(0..8);
                    v[pos] ^= 1 << bit;
                    what = format!("bit {bit} of byte {pos} ({region} of record {i})");
                }
            }
            (v, what)
        }
        "truncate" => {
            // abstract offset: 2 units per record; odd = inside the record
            let whole = i / 2;
            let mut cut = if whole == 0 { 0 } else { recs[whole - 1].end };
            if i % 2 == 1 {
                let r = &recs[whole];
                cut = rng.gen_range(r.start + 1..r.end);
            }
            (a.seg[..cut].to_vec(), format!("cut at byte {cut}"))
        }
        "delete" => {
            let r = rec(i)?;
            (remove(&a.seg, r.start, r.end), format!("record {i} removed"))
        }
        "duplicate" => {
            let r = rec(i)?;
            let at = rec(j)?.end;
            (insert_at(&a.seg, at, &a.seg[r.start..r.end]), format!("copy of record {i} after record {j}"))
        }
        "swap" => {
            let r1 = rec(i)?;
            let r2 = rec(i + 1)?;
            let mut v = a.seg[..r1.start].to_vec();
            v.extend_from_slice(&a.seg[r2.start..r2.end]);
            v.extend_from_slice(&a.seg[r1.start..r1.end]);
            v.extend_from_slice(&a.seg[r2.end..]);
            (v, format!("records {i} and {} swapped", i + 1))
        }
        "transplant" => {
            let r = rec(i)?;
            let rb = b.recs.get(i - 1).ok_or("B shorter")?;
            let mut v = a.seg[..r.start].to_vec();
            v.extend_from_slice(&b.seg[rb.start..rb.end]);
            v.extend_from_slice(&a.seg[r.end..]);
            (v, format!("record {i} replaced by record {i} of log B"))
        }
        "transplant_tx" | "delete_tx" => {
            let (f, l) = *groups.get(t - 1).ok_or("tx out of range")?;
            let mut v = a.seg[..recs[f].start].to_vec();
            if k == "transplant_tx" {
                v.extend_from_slice(&b.seg[b.recs[f].start..b.recs[l].end]);
            }
            v.extend_from_slice(&a.seg[recs[l].end..]);
            (v, format!("transaction {t} (records {}..{}) {}", f + 1, l + 1, if k == "delete_tx" { "removed" } else { "replaced by log B's" }))
        }
        other => return Err(format!("unknown edit {other}")),
    })
}

fn same_shape(a: &GenLog, b: &GenLog) -> bool {
    a.recs.len() == b.recs.len()
        && a.recs.iter().zip(b.recs.iter()).all(|(x, y)| x.kind == y.kind && x.lsn == y.lsn && x.idx == y.idx && x.first == y.first)
}

fn log_event(l: &GenLog, other: &GenLog) -> Value {
    json!({"event": "log", "log": l.name, "committed": l.committed, "foreign": other.committed, "fps": l.fps,
        "bytes": l.seg.len(), "records": l.recs.len()})
}

pub fn run(args: &[String]) -> i32 {
    if args.len() < 4 {
        eprintln!("usage: echo-verif c11 <cases.ndjson|-> <trace.ndjson> <seed> <quick|thorough>");
        return 2;
    }
    let seed: u64 = args[2].parse().unwrap_or(1);
    let tier = args[3].as_str();
    let scratch = PathBuf::from(SCRATCH).join(format!("c11-{}", std::process::id()));
    let _ = fs::remove_dir_all(&scratch);
    fs::create_dir_all(&scratch).expect("scratch");
    let mut out = Out::create(&args[1]);
    let code = match main_leg(&args[0], seed, tier, &scratch, &mut out) {
        Ok(v) => {
            println!("{v}");
            0
        }
        Err(e) => {
            eprintln!("c11 harness error: {e}");
            2
        }
    };
    out.finish();
    let _ = fs::remove_dir_all(&scratch);
    code
}

fn submissions_log(n: usize, salt: &str) -> Workload {
    Workload { n, wl: vec![0; n], ops: (0..n).map(Op::Submit).collect(), salt: salt.to_string() }
}

fn main_leg(cases: &str, seed: u64, tier: &str, scratch: &Path, out: &mut Out) -> Result<Value, String> {
    let mut rng = StdRng::seed_from_u64(seed.wrapping_mul(7_919).wrapping_add(11));
    let pdir = scratch.join("e");
    let mut n_events = 0u64;
    let mut n_model = 0u64;
    // ---- replay leg: the model's cases on logs of NT submissions (3 frames + commit each) ----------
    if cases != "-" {
        let mut logs: std::collections::BTreeMap<usize, (GenLog, GenLog)> = Default::default();
        for (ci, c) in read_lines(cases) {
            let nt = c["nt"].as_u64().unwrap_or(3) as usize;
            if c["nf"].as_u64() != Some(3) {
                return Err("model cases must use NF = 3 (a submission-intake transaction has 3 frames)".into());
            }
            if !logs.contains_key(&nt) {
                let a = build_log(&format!("A{nt}"), &submissions_log(nt, ""), &scratch.join("la"))?;
                let b = build_log(&format!("B{nt}"), &submissions_log(nt, "x"), &scratch.join("lb"))?;
                if !same_shape(&a, &b) || a.recs.len() != nt * 4 || a.committed.len() != nt {
                    return Err(format!("logs A/B do not have the model's shape: {} records", a.recs.len()));
                }
                out.line(&log_event(&a, &b));
                logs.insert(nt, (a, b));
            }
            let (a, b) = logs.get(&nt).ok_or("log")?;
            let (seg, what) = apply_model_edit(a, b, &c["e"], &mut rng)?;
            let ed = Edited { seg, ledger: Some(a.ledger.clone()), manifest: a.manifest.clone() };
            let mut ev = evaluate(a, &ed, &pdir, true);
            ev["event"] = json!("edit");
            ev["log"] = json!(a.name);
            ev["case"] = json!(ci);
            ev["edit"] = c["e"].clone();
            ev["what"] = json!(what);
            ev["pred"] = c["pred"].clone();
            out.line(&ev);
            n_events += 1;
            n_model += 1;
        }
    }
    // ---- systematic mutation of generated workload logs --------------------------------------------------
    let n_subs = if tier == "thorough" { 5 } else { 4 };
    let wk = gen_workload(&mut rng, n_subs, 1, "");
    let wkb = Workload { salt: "x".into(), ..wk.clone() };
    let a = build_log("WA", &wk, &scratch.join("wa"))?;
    let b = build_log("WB", &wkb, &scratch.join("wb"))?;
    if !same_shape(&a, &b) {
        return Err("workload logs A/B differ in shape".into());
    }
    out.line(&json!({"event": "workload", "ops": wk.ops.iter().map(|o| format!("{o:?}")).collect::<Vec<_>>(), "bytes": a.seg.len(),
        "records": a.recs.len(), "transactions": a.committed.len()}));
    out.line(&log_event(&a, &b));
    let groups = tx_groups(&a.recs);
    let mut emit = |out: &mut Out, kind: &str, desc: Value, seg: Vec<u8>, ledger: Option<Vec<u8>>, manifest: Option<Vec<u8>>, host: bool, log: &GenLog| {
        let ed = Edited { seg, ledger, manifest };
        let mut ev = evaluate(log, &ed, &pdir, host);
        ev["event"] = json!("edit");
        ev["log"] = json!(log.name);
        ev["case"] = json!(-1);
        ev["edit"] = json!({"k": kind, "d": desc});
        ev["what"] = json!(kind);
        ev["pred"] = json!({"bytes": "", "fs": ""});
        out.line(&ev);
    };
    let led = || Some(a.ledger.clone());
    let man = || a.manifest.clone();
    // record-level edits: every record
    for (i, r) in a.recs.iter().enumerate() {
        let kindname = if r.kind == 1 { "frame" } else { "commit" };
        emit(out, &format!("delete_{kindname}"), json!({"i": i + 1}), remove(&a.seg, r.start, r.end), led(), man(), true, &a);
        emit(out, &format!("duplicate_{kindname}_adjacent"), json!({"i": i + 1}), insert_at(&a.seg, r.end, &a.seg[r.start..r.end]), led(), man(), true, &a);
        emit(out, &format!("duplicate_{kindname}_at_end"), json!({"i": i + 1}), insert_at(&a.seg, a.seg.len(), &a.seg[r.start..r.end]), led(), man(), true, &a);
        if i + 1 < a.recs.len() {
            let r2 = &a.recs[i + 1];
            let mut v = a.seg[..r.start].to_vec();
            v.extend_from_slice(&a.seg[r2.start..r2.end]);
            v.extend_from_slice(&a.seg[r.start..r.end]);
            v.extend_from_slice(&a.seg[r2.end..]);
            emit(out, "swap_adjacent_records", json!({"i": i + 1}), v, led(), man(), true, &a);
        }
        let rb = &b.recs[i];
        let mut v = a.seg[..r.start].to_vec();
        v.extend_from_slice(&b.seg[rb.start..rb.end]);
        v.extend_from_slice(&a.seg[r.end..]);
        emit(out, &format!("transplant_{kindname}"), json!({"i": i + 1}), v, led(), man(), true, &a);
        n_events += 5;
    }
    // transaction-level edits: every transaction
    for (t, (f, l)) in groups.iter().enumerate() {
        let (s0, s1) = (a.recs[*f].start, a.recs[*l].end);
        emit(out, "delete_transaction", json!({"t": t + 1}), remove(&a.seg, s0, s1), led(), man(), true, &a);
        emit(out, "duplicate_transaction_adjacent", json!({"t": t + 1}), insert_at(&a.seg, s1, &a.seg[s0..s1]), led(), man(), true, &a);
        emit(out, "duplicate_transaction_at_end", json!({"t": t + 1}), insert_at(&a.seg, a.seg.len(), &a.seg[s0..s1]), led(), man(), true, &a);
        let mut v = a.seg[..s0].to_vec();
        v.extend_from_slice(&b.seg[b.recs[*f].start..b.recs[*l].end]);
        v.extend_from_slice(&a.seg[s1..]);
        emit(out, "transplant_transaction", json!({"t": t + 1}), v, led(), man(), true, &a);
        if t + 1 < groups.len() {
            let (f2, l2) = groups[t + 1];
            let (t0, t1) = (a.recs[f2].start, a.recs[l2].end);
            let mut v = a.seg[..s0].to_vec();
            v.extend_from_slice(&a.seg[t0..t1]);
            v.extend_from_slice(&a.seg[s0..s1]);
            v.extend_from_slice(&a.seg[t1..]);
            emit(out, "swap_adjacent_transactions", json!({"t": t + 1}), v, led(), man(), true, &a);
        }
        // everything from log B after this transaction (a suffix spliced from another log)
        let mut v = a.seg[..s1].to_vec();
        v.extend_from_slice(&b.seg[b.recs[*l].end..]);
        emit(out, "splice_suffix_from_other_log", json!({"t": t + 1}), v, led(), man(), true, &a);
        n_events += 6;
    }
    // truncations at record boundaries and inside records
    for r in &a.recs {
        for cut in [r.start, r.start + (r.end - r.start) / 2] {
            emit(out, "truncate", json!({"b": cut}), a.seg[..cut].to_vec(), led(), man(), false, &a);
            n_events += 1;
        }
    }
    // bit flips and zeroed ranges
    let small = build_log("SA", &submissions_log(2, ""), &scratch.join("sa"))?;
    let small_b = build_log("SB", &submissions_log(2, "x"), &scratch.join("sb"))?;
    let mut flips = 0u64;
    if tier == "thorough" {
        out.line(&log_event(&small, &small_b));
        for pos in 0..small.seg.len() {
            for bit in 0..8 {
                let mut v = small.seg.clone();
                v[pos] ^= 1 << bit;
                emit(out, "bit_flip", json!({"pos": pos, "bit": bit}), v, Some(small.ledger.clone()), None, pos % 16 == 0, &small);
                flips += 1;
            }
        }
        for pos in (0..small.seg.len()).step_by(8) {
            let mut v = small.seg.clone();
            let hi = (pos + 8).min(v.len());
            if v[pos..hi].iter().all(|x| *x == 0) {
                continue;
            }
            v[pos..hi].iter_mut().for_each(|x| *x = 0);
            emit(out, "zero_range", json!({"pos": pos, "len": hi - pos}), v, Some(small.ledger.clone()), None, true, &small);
            flips += 1;
        }
        out.line(&log_event(&a, &b));
    }
    let n_flips = if tier == "thorough" { 1500 } else { 500 };
    for n in 0..n_flips {
        // half of the sample aims at the record headers (magic / kind / length), the rest anywhere
        let pos = if n % 2 == 0 {
            let r = &a.recs[rng.gen_range(0..a.recs.len())];
            rng.gen_range(r.start..r.start + REC_HEADER)
        } else {
            rng.gen_range(0..a.seg.len())
        };
        let bit = rng.gen_range(0..8);
        let mut v = a.seg.clone();
        v[pos] ^= 1 << bit;
        emit(out, "bit_flip", json!({"pos": pos, "bit": bit}), v, led(), None, n % 4 == 0, &a);
        flips += 1;
    }
    for _ in 0..(n_flips / 4) {
        let pos = rng.gen_range(0..a.seg.len() / 8) * 8;
        let len = [8usize, 16, 64, 512][rng.gen_range(0..4)];
        let hi = (pos + len).min(a.seg.len());
        let mut v = a.seg.clone();
        if v[pos..hi].iter().all(|x| *x == 0) {
            continue;
        }
        v[pos..hi].iter_mut().for_each(|x| *x = 0);
        emit(out, "zero_range", json!({"pos": pos, "len": hi - pos}), v, led(), None, true, &a);
        flips += 1;
    }
    n_events += flips;
    // ledger edits (segment intact): the history must stay the committed one or the open must fail
    let mut ledger_edits = 0u64;
    emit(out, "ledger_deleted", json!({}), a.seg.clone(), None, man(), true, &a);
    emit(out, "ledger_from_other_log", json!({}), a.seg.clone(), Some(b.ledger.clone()), man(), true, &a);
    emit(out, "ledger_truncated", json!({}), a.seg.clone(), Some(a.ledger[..a.ledger.len() / 2].to_vec()), man(), true, &a);
    emit(out, "ledger_empty", json!({}), a.seg.clone(), Some(Vec::new()), man(), true, &a);
    ledger_edits += 4;
    let lflips = if tier == "thorough" { a.ledger.len() * 8 } else { 120 };
    for n in 0..lflips {
        let (pos, bit) = if tier == "thorough" { (n / 8, n % 8) } else { (rng.gen_range(0..a.ledger.len()), rng.gen_range(0..8)) };
        let mut l = a.ledger.clone();
        l[pos] ^= 1 << bit;
        emit(out, "ledger_bit_flip", json!({"pos": pos, "bit": bit}), a.seg.clone(), Some(l), man(), true, &a);
        ledger_edits += 1;
    }
    // manifest edits (segment intact): validation must fail or the manifest is unchanged in meaning
    let mut manifest_edits = 0u64;
    if let Some(m) = &a.manifest {
        emit(out, "manifest_intact", json!({}), a.seg.clone(), led(), Some(m.clone()), false, &a);
        emit(out, "manifest_from_other_log", json!({}), a.seg.clone(), led(), b.manifest.clone(), false, &a);
        emit(out, "manifest_truncated", json!({}), a.seg.clone(), led(), Some(m[..m.len() - 3].to_vec()), false, &a);
        manifest_edits += 3;
        for pos in 0..m.len() {
            let bit = rng.gen_range(0..8);
            let mut mm = m.clone();
            mm[pos] ^= 1 << bit;
            emit(out, "manifest_bit_flip", json!({"pos": pos, "bit": bit}), a.seg.clone(), led(), Some(mm), false, &a);
            manifest_edits += 1;
        }
    }
    n_events += ledger_edits + manifest_edits;
    let _ = fs::remove_dir_all(&pdir);
    Ok(json!({"edits": n_events, "model_cases": n_model, "bit_or_range_edits": flips, "ledger_edits": ledger_edits,
        "manifest_edits": manifest_edits, "workload_log_bytes": a.seg.len(), "small_log_bytes": small.seg.len(),
        "records": a.recs.len(), "transactions": a.committed.len()}))
}
