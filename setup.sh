#!/bin/sh
# Builds the framework from files on disk only (offline): harness binary + syntax check of the specs
# that registered checks use (MANIFEST.json). Other spec files (work in progress) only warn.
set -e
cd "$(dirname "$0")"
mkdir -p work evidence replays
cp /repo/Cargo.lock harness/Cargo.lock
(cd harness && CARGO_NET_OFFLINE=true cargo build --offline --target-dir target)
fail=0
for m in spec/*.tla; do
  b=$(basename "$m" .tla)
  (cd spec && java -cp /opt/veriftools/tla/tla2tools.jar:/opt/veriftools/tla/CommunityModules-deps.jar tla2sany.SANY "$b.tla" > ../work/sany_$b.out 2>&1) || true
  if grep -q -E 'Semantic errors|Parse Error|Fatal errors|Could not' work/sany_$b.out; then
    if grep -q "\"$b\"" runner/spec_modules.json 2>/dev/null; then echo "SANY errors in registered module $b"; tail -20 work/sany_$b.out; fail=1; else echo "warning: SANY errors in unregistered module $b (ignored)"; fi
  fi
done
[ $fail -eq 0 ] || exit 1
echo "setup ok"
