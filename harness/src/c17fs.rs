//! C17, filesystem leg: the external-action lifecycle on the REAL `FilesystemWalStore` with a PHYSICAL crash.
//!
//! `c17fs <cases.ndjson> <results.ndjson>`; a case is either a behaviour exported by TLC from spec/MC_C17fs.tla
//! (`{"reqs":[..],"steps":[..]}`) or a byte sweep (`{"sweep":"<script name>","stride":n}`).
//!
//! A behaviour is run as three processes over one directory under /verif/work/c17fs/:
//!   1. the live process: `FilesystemWalStore::open` + `acquire_fresh_writer_epoch` + `ExternalActionCoordinatorV1::recover`,
//!      then the operations before the crash AND the operation the crash interrupts, run to completion; after every
//!      store call the segment length is recorded (real frame / commit-marker boundaries), after every operation a
//!      clone of the coordinator, what was returned to the caller and the non-segment files (writer-epoch ledger);
//!   2. the crash: a copy of the directory as it was BEFORE the interrupted operation whose segment is the live segment
//!      cut at the real byte offset the cut class maps to;
//!   3. the fresh process: read-only scan twice, bare coordinator recovery (refusal expected on an unclean tail),
//!      writable repair (twice: idempotent), new writer epoch, coordinator recovery, the remaining operations, and a
//!      final clean recovery by yet another process.
//! The property is decided on the real outcome: the recovered coordinator must EQUAL the live coordinator as it was after
//! the last transaction whose commit marker ends at or before the cut (index entries, merkle nodes, root digest, WAL
//! continuation), every authority returned before the crash must be reconstructible, at most one claim grant per
//! request across the crash, LSNs gap-free, a retry is answered with the retained settlement.  The model's predictions
//! (tail posture, bare refusal, result classes, postures) are compared separately: differences are drift.

use std::collections::{BTreeMap, BTreeSet, HashMap};
use std::fs;
use std::path::{Path, PathBuf};

use serde_json::{json, Value};
use warp_core::causal_wal::{
    recover_filesystem_store, ExternalActionCoordinatorCapability, FilesystemWalStore, InMemoryWalStore, Lsn, PayloadCodecId,
    PayloadSchemaId, RecoveryAccessMode, RecoveryScanReport, RecoveryTailPosture, WalDurabilityMode, WalFrame, WalManifest,
    WalSegmentId, WalSegmentSeal, WalStoreError, WalStorePort, WalStoreSnapshot, WalTransactionCommit, WalTransactionId,
    WriterEpoch, WriterEpochId, WriterEpochRequest,
};
use warp_core::external_action::{
    admit_external_action_settlement, claim_external_action, reconcile_external_action_settlement_retry,
    record_external_action_request, AdmittedExternalActionSettlementV1, DurablyRecordedExternalActionRequestV1,
    ExternalActionAdapterBindingV1, ExternalActionAdapterIdV1, ExternalActionAdapterRegistryV1, ExternalActionBudgetV1,
    ExternalActionClaimGrantV1, ExternalActionClaimV1, ExternalActionCoordinatorV1, ExternalActionOperationIdV1,
    ExternalActionProtocolErrorV1, ExternalActionRequestV1, ExternalActionSettlementCandidateV1, ExternalActionSettlementKindV1,
    ExternalActionTransactionContextV1, RecoveredExternalActionPostureV1, RecoveredExternalActionV1,
};
use warp_core::{Hash, WorldlineId};

use crate::util;

// ------------------------------------------------------------------ fixtures (same values as c17.rs)

fn digest(label: &str) -> Hash {
    blake3::hash(label.as_bytes()).into()
}
fn op_id() -> ExternalActionOperationIdV1 {
    ExternalActionOperationIdV1::from_hash(digest("c17.op@1"))
}
fn scope() -> Hash {
    digest("c17:scope")
}
fn request_for(name: &str) -> ExternalActionRequestV1 {
    ExternalActionRequestV1::new(
        WorldlineId::from_bytes([7; 32]),
        op_id(),
        digest("c17.op@1.input"),
        digest("c17.op@1.settlement"),
        scope(),
        digest(&format!("basis:{name}")),
        ExternalActionBudgetV1 { max_settlement_bytes: 8, max_attempts: 1 },
        digest(&format!("input:{name}")),
        digest("c17.op@1.reconcile"),
    )
    .expect("valid request fixture")
}
fn adapter(n: u8) -> ExternalActionAdapterIdV1 {
    ExternalActionAdapterIdV1::from_hash(digest(&format!("adapter:A{n}")))
}
fn registry() -> ExternalActionAdapterRegistryV1 {
    ExternalActionAdapterRegistryV1::new([
        ExternalActionAdapterBindingV1 { adapter_id: adapter(1), operation_id: op_id(), authority_scope_digest: scope() },
        ExternalActionAdapterBindingV1 { adapter_id: adapter(2), operation_id: op_id(), authority_scope_digest: scope() },
    ])
}
fn claim_args(v: &str) -> (ExternalActionAdapterIdV1, Hash) {
    match v {
        "ok2" => (adapter(2), digest("lease:l2")),
        _ => (adapter(1), digest("lease:l1")),
    }
}
fn stl_args(v: &str) -> (ExternalActionSettlementKindV1, Vec<u8>) {
    use ExternalActionSettlementKindV1 as K;
    match v {
        "s2" => (K::Succeeded, b"b2b2b2b2".to_vec()),
        "rej" => (K::Rejected, b"b1".to_vec()),
        "fail" => (K::Failed, b"b1".to_vec()),
        "unk" => (K::OutcomeUnknown, Vec::new()),
        _ => (K::Succeeded, b"b1".to_vec()),
    }
}
fn claim_name(c: &ExternalActionClaimV1) -> String {
    for v in ["ok", "ok2"] {
        let (a, l) = claim_args(v);
        if c.adapter_id == a && c.lease_evidence_digest == l {
            return v.to_string();
        }
    }
    "?".into()
}
fn stl_name(kind: ExternalActionSettlementKindV1, bytes: &[u8]) -> String {
    for v in ["s1", "s2", "rej", "fail", "unk"] {
        let (k, b) = stl_args(v);
        if k == kind && b == bytes {
            return v.to_string();
        }
    }
    format!("?{kind:?}")
}
fn posture_str(e: Option<&RecoveredExternalActionV1>) -> String {
    match e {
        None => "none".into(),
        Some(e) => match (&e.claim, &e.settlement, e.posture) {
            (None, None, RecoveredExternalActionPostureV1::Requested) => "requested".into(),
            (Some(c), None, RecoveredExternalActionPostureV1::Claimed) => format!("claimed:{}", claim_name(c)),
            (Some(c), Some(s), RecoveredExternalActionPostureV1::Settled(k)) if k == s.kind => {
                format!("settled:{}:{}", claim_name(c), stl_name(s.kind, &s.canonical_result_bytes))
            }
            _ => format!("INCONSISTENT({:?})", e.posture),
        },
    }
}
fn err_class(e: &ExternalActionProtocolErrorV1) -> String {
    format!("{e:?}").chars().take_while(|c| c.is_ascii_alphanumeric()).collect()
}
fn postures(c: &ExternalActionCoordinatorV1, names: &[String]) -> Vec<String> {
    names.iter().map(|n| posture_str(c.observed_index().get(request_for(n).request_id()))).collect()
}

fn context(epoch: WriterEpochId, label: &str) -> ExternalActionTransactionContextV1 {
    ExternalActionTransactionContextV1 {
        writer_epoch: epoch,
        segment_id: WalSegmentId::from_raw(1),
        transaction_id: WalTransactionId::from_hash(digest(label)),
        durability_mode: WalDurabilityMode::StrictFilesystem,
        payload_codec_id: PayloadCodecId::from_hash(digest("c17:codec")),
        payload_schema_id: PayloadSchemaId::from_hash(digest("c17:schema")),
        payload_schema_version: 1,
        canonical_encoding_version: 1,
        digest_domain: digest("c17:domain"),
    }
}

/// Foreign authorities for calls the model predicts to be rejected before they reach the log.
struct Scratch {
    req: ExternalActionCoordinatorV1,
    claim: ExternalActionCoordinatorV1,
}
impl Scratch {
    fn new(names: &[String]) -> Self {
        let mk = || {
            let mut s = InMemoryWalStore::new();
            let id = WriterEpochId::from_hash(digest("c17fs:scratch-epoch"));
            s.acquire_writer_epoch(WriterEpochRequest {
                epoch_id: id,
                storage_fencing_token: digest("c17:fencing"),
                process_identity: digest("c17:process"),
                host_identity: digest("c17:host"),
                started_at_lsn: Lsn::from_raw(0),
                previous_epoch_id: None,
                previous_epoch_final_commit_digest: None,
                lease_or_lock_evidence: digest("c17:lease"),
            })
            .expect("scratch epoch");
            (s, id)
        };
        let (mut s1, e1) = mk();
        let mut c1 = ExternalActionCoordinatorV1::recover(&s1).expect("scratch recover");
        let (mut s2, e2) = mk();
        let mut c2 = ExternalActionCoordinatorV1::recover(&s2).expect("scratch recover");
        let reg = registry();
        let mut ctx = |e, l: String| {
            let mut c = context(e, &l);
            c.durability_mode = WalDurabilityMode::Buffered;
            c
        };
        for n in names {
            let rq = request_for(n);
            record_external_action_request(&mut s1, &mut c1, ctx(e1, format!("s1:{n}")), rq).expect("scratch record");
            let tok = record_external_action_request(&mut s2, &mut c2, ctx(e2, format!("s2:r:{n}")), rq).expect("scratch record");
            let auth = reg.authorize(&rq, adapter(1)).expect("scratch auth");
            claim_external_action(&mut s2, &mut c2, ctx(e2, format!("s2:c:{n}")), tok, auth, rq.basis_digest, 0, digest("lease:lF")).expect("scratch claim");
        }
        Self { req: c1, claim: c2 }
    }
    fn token(&self, rq: &ExternalActionRequestV1) -> DurablyRecordedExternalActionRequestV1 {
        self.req.recorded_request(rq.request_id()).expect("foreign token")
    }
    fn grant(&self, rq: &ExternalActionRequestV1) -> ExternalActionClaimGrantV1 {
        self.claim.claim_grant(rq.request_id()).expect("foreign grant")
    }
}

// ------------------------------------------------------------------ recording store

/// `WalStorePort` over the real `FilesystemWalStore` that records the segment length after every store call.
struct RecStore {
    inner: FilesystemWalStore,
    /// (kind, segment length after the call, call succeeded)
    marks: Vec<(&'static str, u64, bool)>,
}
impl RecStore {
    fn seg_len(&self) -> u64 {
        fs::metadata(self.inner.segment_path()).map(|m| m.len()).unwrap_or(0)
    }
}
impl WalStorePort for RecStore {
    fn acquire_writer_epoch(&mut self, request: WriterEpochRequest) -> Result<WriterEpoch, WalStoreError> {
        self.inner.acquire_writer_epoch(request)
    }
    fn append_frame(&mut self, epoch_id: WriterEpochId, frame: WalFrame) -> Result<(), WalStoreError> {
        let r = self.inner.append_frame(epoch_id, frame);
        let l = self.seg_len();
        self.marks.push(("frame", l, r.is_ok()));
        r
    }
    fn flush_commit(&mut self, epoch_id: WriterEpochId, commit: WalTransactionCommit) -> Result<(), WalStoreError> {
        self.inner.flush_commit(epoch_id, commit)
    }
    fn flush_external_action_commit(&mut self, epoch_id: WriterEpochId, commit: WalTransactionCommit, capability: ExternalActionCoordinatorCapability) -> Result<(), WalStoreError> {
        let r = self.inner.flush_external_action_commit(epoch_id, commit, capability);
        let l = self.seg_len();
        self.marks.push(("marker", l, r.is_ok()));
        r
    }
    fn read_frames(&self) -> Vec<WalFrame> {
        self.inner.read_frames()
    }
    fn read_commits(&self) -> Vec<WalTransactionCommit> {
        self.inner.read_commits()
    }
    fn read_snapshot(&self) -> Result<WalStoreSnapshot, WalStoreError> {
        self.inner.read_snapshot()
    }
    fn seal_segment(&mut self, epoch_id: WriterEpochId, segment_id: WalSegmentId) -> Result<WalSegmentSeal, WalStoreError> {
        self.inner.seal_segment(epoch_id, segment_id)
    }
    fn truncate_tail_after(&mut self, after_lsn: Lsn) -> Result<(), WalStoreError> {
        self.inner.truncate_tail_after(after_lsn)
    }
    fn publish_manifest(&mut self, epoch_id: WriterEpochId, manifest: WalManifest) -> Result<(), WalStoreError> {
        self.inner.publish_manifest(epoch_id, manifest)
    }
    fn close_epoch(&mut self, epoch_id: WriterEpochId) -> Result<(), WalStoreError> {
        self.inner.close_epoch(epoch_id)
    }
}

// ------------------------------------------------------------------ one process

#[derive(Clone, Debug, PartialEq, Eq)]
enum Returned {
    Token { r: String, commit: Hash },
    Grant { r: String, claim: ExternalActionClaimV1, commit: Hash },
    Fact { r: String, fact: AdmittedExternalActionSettlementV1 },
}

struct Proc<'w> {
    names: &'w [String],
    scratch: &'w Scratch,
    store: RecStore,
    coord: ExternalActionCoordinatorV1,
    epoch: WriterEpochId,
    salt: String,
    txn: u64,
    returned: Vec<Returned>,
    store_calls_in_retry: u64,
    /// coordinators of earlier moments (the crashed process, this process): source of the GENUINE token / grant of a
    /// request that has moved on (the caller still holds it; the types are not Clone)
    hist_ext: &'w [ExternalActionCoordinatorV1],
    hist_own: Vec<ExternalActionCoordinatorV1>,
}

type Op = (String, String, String);

fn scan(dir: &Path, mode: RecoveryAccessMode) -> Result<RecoveryScanReport, String> {
    match util::catch(|| recover_filesystem_store(dir, mode)) {
        Ok(Ok(r)) => Ok(r),
        Ok(Err(e)) => Err(format!("{e:?}")),
        Err(p) => Err(format!("PANIC:{p}")),
    }
}
fn tail_class(p: RecoveryTailPosture) -> &'static str {
    match p {
        RecoveryTailPosture::Clean => "clean",
        RecoveryTailPosture::WouldTruncateAfter(_) | RecoveryTailPosture::TruncatedAfter(_) => "after",
        RecoveryTailPosture::WouldTruncateAll | RecoveryTailPosture::TruncatedAll => "all",
    }
}
fn report_sig(r: &RecoveryScanReport) -> (usize, &'static str, Vec<u64>, Option<Hash>) {
    let lsns = r.transactions.iter().flat_map(|t| t.frames.iter().map(|f| f.header.lsn.as_u64())).collect();
    (r.transactions.len(), tail_class(r.tail_posture), lsns, r.last_commit_digest())
}

impl<'w> Proc<'w> {
    /// What a starting process does: open the store, take a fresh writer epoch at the recovered continuation, recover
    /// the coordinator.  `next_lsn` comes from the caller's (writable) recovery scan.
    fn start(dir: &Path, names: &'w [String], scratch: &'w Scratch, salt: &str, next_lsn: u64, hist_ext: &'w [ExternalActionCoordinatorV1]) -> Result<Self, String> {
        let r = util::catch(|| -> Result<(FilesystemWalStore, WriterEpoch, ExternalActionCoordinatorV1), String> {
            let mut store = FilesystemWalStore::open(dir, WalSegmentId::from_raw(1)).map_err(|e| format!("open: {e:?}"))?;
            let epoch = store.acquire_fresh_writer_epoch(Lsn::from_raw(next_lsn)).map_err(|e| format!("acquire_fresh_writer_epoch: {e:?}"))?;
            let coord = ExternalActionCoordinatorV1::recover(&store).map_err(|e| format!("coordinator recover: {e:?}"))?;
            Ok((store, epoch, coord))
        });
        let (store, epoch, coord) = match r {
            Ok(Ok(x)) => x,
            Ok(Err(e)) => return Err(e),
            Err(p) => return Err(format!("PANIC:{p}")),
        };
        Ok(Self { names, scratch, store: RecStore { inner: store, marks: Vec::new() }, coord, epoch: epoch.epoch_id, salt: salt.to_string(), txn: 0, returned: Vec::new(), store_calls_in_retry: 0, hist_ext, hist_own: Vec::new() })
    }

    fn ctx(&mut self, what: &str) -> ExternalActionTransactionContextV1 {
        self.txn += 1;
        context(self.epoch, &format!("c17fs:{}:{}:{what}", self.salt, self.txn))
    }

    fn candidate(&self, r: &str, v: &str, claim: &ExternalActionClaimV1) -> ExternalActionSettlementCandidateV1 {
        let rq = request_for(r);
        let (kind, bytes) = stl_args(v);
        ExternalActionSettlementCandidateV1::new(
            rq.request_id(),
            claim.attempt_id,
            claim.adapter_id,
            kind,
            rq.settlement_schema_digest,
            rq.basis_digest,
            bytes,
            digest("c17:schema-admission"),
            digest("c17:external-evidence"),
        )
    }

    /// One API call with the authority a host holds: the one reconstructed from the (recovered) coordinator, or a
    /// foreign one when the coordinator has none.  Returns the result class.
    fn apply(&mut self, op: &Op) -> String {
        let out = self.apply_inner(op);
        self.hist_own.push(self.coord.clone());
        out
    }

    fn held_token(&self, rq: &ExternalActionRequestV1) -> DurablyRecordedExternalActionRequestV1 {
        let id = rq.request_id();
        self.coord.recorded_request(id).ok()
            .or_else(|| self.hist_own.iter().rev().find_map(|c| c.recorded_request(id).ok()))
            .or_else(|| self.hist_ext.iter().rev().find_map(|c| c.recorded_request(id).ok()))
            .unwrap_or_else(|| self.scratch.token(rq))
    }
    fn held_grant(&self, rq: &ExternalActionRequestV1) -> ExternalActionClaimGrantV1 {
        let id = rq.request_id();
        self.coord.claim_grant(id).ok()
            .or_else(|| self.hist_own.iter().rev().find_map(|c| c.claim_grant(id).ok()))
            .or_else(|| self.hist_ext.iter().rev().find_map(|c| c.claim_grant(id).ok()))
            .unwrap_or_else(|| self.scratch.grant(rq))
    }

    fn apply_inner(&mut self, op: &Op) -> String {
        let (o, r, v) = (op.0.as_str(), op.1.as_str(), op.2.as_str());
        let rq = request_for(r);
        let id = rq.request_id();
        let out = match o {
            "record" => {
                let ctx = self.ctx("record");
                let (s, c) = (&mut self.store, &mut self.coord);
                match util::catch(|| record_external_action_request(s, c, ctx, rq)) {
                    Err(p) => format!("PANIC:{p}"),
                    Ok(Err(e)) => err_class(&e),
                    Ok(Ok(tok)) => {
                        self.returned.push(Returned::Token { r: r.into(), commit: tok.request_commit_digest() });
                        "Ok".into()
                    }
                }
            }
            "claim" => {
                let tok = self.held_token(&rq);
                let auth = match registry().authorize(&rq, claim_args(v).0) {
                    Ok(a) => a,
                    Err(e) => return err_class(&e),
                };
                let ctx = self.ctx("claim");
                let lease = claim_args(v).1;
                let (s, c) = (&mut self.store, &mut self.coord);
                match util::catch(|| claim_external_action(s, c, ctx, tok, auth, rq.basis_digest, 0, lease)) {
                    Err(p) => format!("PANIC:{p}"),
                    Ok(Err(e)) => err_class(&e),
                    Ok(Ok(g)) => {
                        self.returned.push(Returned::Grant { r: r.into(), claim: g.claim(), commit: g.claim_commit_digest() });
                        "Ok".into()
                    }
                }
            }
            "settle" => {
                let grant = self.held_grant(&rq);
                let cand = self.candidate(r, v, &grant.claim());
                let ctx = self.ctx("settle");
                let (s, c) = (&mut self.store, &mut self.coord);
                match util::catch(|| admit_external_action_settlement(s, c, ctx, grant, cand)) {
                    Err(p) => format!("PANIC:{p}"),
                    Ok(Err(e)) => err_class(&e),
                    Ok(Ok(fact)) => {
                        self.returned.push(Returned::Fact { r: r.into(), fact });
                        "Ok".into()
                    }
                }
            }
            "retry" => {
                let claim = self.coord.observed_index().get(id).and_then(|e| e.claim).unwrap_or_else(|| self.scratch.grant(&rq).claim());
                let cand = self.candidate(r, v, &claim);
                let before = (self.store.marks.len(), self.store.seg_len());
                let c = &self.coord;
                let res = util::catch(|| reconcile_external_action_settlement_retry(c, cand));
                if (self.store.marks.len(), self.store.seg_len()) != before {
                    self.store_calls_in_retry += 1;
                }
                match res {
                    Err(p) => format!("PANIC:{p}"),
                    Ok(Err(e)) => err_class(&e),
                    Ok(Ok(fact)) => {
                        self.returned.push(Returned::Fact { r: r.into(), fact });
                        "Ok".into()
                    }
                }
            }
            _ => "?".into(),
        };
        out
    }
}

// ------------------------------------------------------------------ directories

fn work_root() -> PathBuf {
    let base = std::env::var("VERIF_WORK").unwrap_or_else(|_| "/verif/work".to_string());
    let p = Path::new(&base).join("c17fs").join(format!("p{}", std::process::id()));
    let _ = fs::create_dir_all(&p);
    p
}
fn seg_path(dir: &Path) -> PathBuf {
    warp_core::causal_wal::canonical_segment_path(dir, WalSegmentId::from_raw(1))
}
/// every regular file directly under the root (writer-epoch ledger, lock file)
fn root_files(dir: &Path) -> BTreeMap<String, Vec<u8>> {
    let mut m = BTreeMap::new();
    if let Ok(rd) = fs::read_dir(dir) {
        for e in rd.flatten() {
            if e.path().is_file() {
                if let (Some(n), Ok(b)) = (e.file_name().to_str(), fs::read(e.path())) {
                    m.insert(n.to_string(), b);
                }
            }
        }
    }
    m
}
fn materialise(dir: &Path, files: &BTreeMap<String, Vec<u8>>, seg: &[u8]) -> Result<(), String> {
    let _ = fs::remove_dir_all(dir);
    let sp = seg_path(dir);
    fs::create_dir_all(sp.parent().ok_or("segment path")?).map_err(|e| e.to_string())?;
    for (n, b) in files {
        fs::write(dir.join(n), b).map_err(|e| e.to_string())?;
    }
    fs::write(&sp, seg).map_err(|e| e.to_string())
}

// ------------------------------------------------------------------ the live run (shared by all cuts of one script)

struct Live {
    /// segment bytes after the whole script
    seg: Vec<u8>,
    /// per operation: (segment length before, after the frame, after the marker); equal lengths for a rejected call
    bounds: Vec<(u64, u64, u64)>,
    /// result class of every operation
    classes: Vec<String>,
    /// coordinator after k operations (k = 0..n)
    coords: Vec<ExternalActionCoordinatorV1>,
    /// live postures after k operations
    posts: Vec<Vec<String>>,
    /// authorities returned by operations < k
    returned: Vec<Vec<Returned>>,
    /// non-segment files after k operations
    files: Vec<BTreeMap<String, Vec<u8>>>,
    /// findings of the live run itself (returned before durable, ...)
    violations: Vec<(String, String)>,
}

fn live_run(root: &Path, names: &[String], scratch: &Scratch, ops: &[Op], salt: &str) -> Result<Live, String> {
    let dir = root.join("live");
    let _ = fs::remove_dir_all(&dir);
    let mut p = Proc::start(&dir, names, scratch, salt, 0, &[])?;
    let mut lv = Live { seg: Vec::new(), bounds: Vec::new(), classes: Vec::new(), coords: vec![p.coord.clone()], posts: vec![postures(&p.coord, names)],
                        returned: vec![Vec::new()], files: vec![root_files(&dir)], violations: Vec::new() };
    for (k, op) in ops.iter().enumerate() {
        let before = p.store.seg_len();
        let m0 = p.store.marks.len();
        let n_ret = p.returned.len();
        let class = p.apply(op);
        let marks = &p.store.marks[m0..];
        let (f, m) = match marks {
            [] => (before, before),
            [("frame", f, true), ("marker", m, true)] => (*f, *m),
            other => {
                if class == "Ok" {
                    lv.violations.push(("returned_before_durable".into(), format!("op {k} {op:?} returned Ok but the store calls were {other:?}: no synced commit marker behind the returned authority")));
                }
                lv.violations.push(("live_store_call_pattern".into(), format!("op {k} {op:?}: store calls {other:?} (class {class})")));
                (marks.first().map_or(before, |x| x.1), p.store.seg_len())
            }
        };
        // durable before return: an Ok durable operation returned AFTER its marker was appended and synced
        if class == "Ok" && op.0 != "retry" {
            if !(marks.len() == 2 && m > f && f > before) {
                lv.violations.push(("returned_before_durable".into(), format!("op {k} {op:?} returned Ok with store calls {marks:?}")));
            }
            if p.returned.len() != n_ret + 1 {
                lv.violations.push(("no_authority_returned".into(), format!("op {k} {op:?}")));
            }
        }
        lv.bounds.push((before, f, m));
        lv.classes.push(class);
        lv.coords.push(p.coord.clone());
        lv.posts.push(postures(&p.coord, names));
        lv.returned.push(p.returned.clone());
        lv.files.push(root_files(&dir));
    }
    if p.store_calls_in_retry > 0 {
        lv.violations.push(("retry_touched_the_log".into(), "a retry changed the segment".into()));
    }
    lv.seg = fs::read(seg_path(&dir)).map_err(|e| e.to_string())?;
    drop(p);
    let _ = fs::remove_dir_all(&dir);
    Ok(lv)
}

// ------------------------------------------------------------------ one crash + recovery + continuation

#[derive(Default)]
struct Out1 {
    violations: Vec<(String, String)>,
    drift: Vec<String>,
    tail: String,
    bare: String,
    refused: bool,
    repaired: bool,
    continued: usize,
    norepair: Option<String>,
    root: String,
}

struct Pred<'a> {
    tail: Option<&'a str>,
    bare: Option<&'a str>,
    rec_posts: Option<Vec<String>>,
    post: Vec<(Op, String, Vec<String>)>,
}

/// `k` = index of the operation in flight (files as they were before it), `cut` = absolute byte offset.
#[allow(clippy::too_many_arguments)]
fn crash_and_recover(root: &Path, names: &[String], scratch: &Scratch, lv: &Live, files_at: usize, cut: u64, post: &[Op], pred: &Pred<'_>, salt: &str) -> Out1 {
    let mut o = Out1::default();
    let dir = root.join("crash");
    let cut = cut.min(lv.seg.len() as u64);
    let seg = &lv.seg[..cut as usize];
    if let Err(e) = materialise(&dir, &lv.files[files_at], seg) {
        o.violations.push(("TOOL".into(), format!("materialise: {e}")));
        return o;
    }
    // independent expectation: the transactions whose commit marker ends at or before the cut
    let c = lv.bounds.iter().filter(|b| b.2 > b.0 && b.2 <= cut).count();
    // k-th durable op -> op index
    let durable_ops: Vec<usize> = lv.bounds.iter().enumerate().filter(|(_, b)| b.2 > b.0).map(|(i, _)| i).collect();
    let upto = if c == 0 { 0 } else { durable_ops[c - 1] + 1 };          // operations whose effect must be visible
    let expect = &lv.coords[upto];
    // every authority the live process returned BEFORE the cut became possible: ops completed before the one in flight
    let in_flight = lv.bounds.iter().position(|b| b.2 > b.0 && b.0 <= cut && cut < b.2).unwrap_or(lv.bounds.len());
    let must_have: &Vec<Returned> = &lv.returned[in_flight.min(lv.returned.len() - 1)];
    let clean_end = lv.bounds.iter().any(|b| b.2 == cut) || cut == 0;

    // ---- 1. read-only scan, twice
    let s1 = scan(&dir, RecoveryAccessMode::ReadOnly);
    let s2 = scan(&dir, RecoveryAccessMode::ReadOnly);
    let (r1, r2) = match (s1, s2) {
        (Ok(a), Ok(b)) => (a, b),
        (a, b) => {
            o.violations.push(("scan_failed".into(), format!("read-only scan of a crash prefix failed: {:?} / {:?}", a.err(), b.err())));
            return o;
        }
    };
    if report_sig(&r1) != report_sig(&r2) || fs::read(seg_path(&dir)).ok().as_deref() != Some(seg) {
        o.violations.push(("scan_not_idempotent".into(), format!("{:?} vs {:?}", report_sig(&r1), report_sig(&r2))));
    }
    o.tail = tail_class(r1.tail_posture).to_string();
    if r1.transactions.len() != c {
        o.violations.push(("scan_committed_count".into(), format!("read-only scan sees {} committed transactions, {c} commit markers end at or before byte {cut}", r1.transactions.len())));
    }
    if (o.tail == "clean") != clean_end {
        o.violations.push(("tail_posture_wrong".into(), format!("cut {cut}: posture {} but the cut {} a transaction boundary", o.tail, if clean_end { "is" } else { "is not" })));
    }
    if let Some(t) = pred.tail {
        if t != o.tail {
            o.drift.push(format!("tail posture {} (model {t})", o.tail));
        }
    }
    // ---- 2. the bare coordinator on the unrepaired directory
    let bare = util::catch(|| FilesystemWalStore::open(&dir, WalSegmentId::from_raw(1)).map_err(|e| format!("open:{e:?}")).map(|s| ExternalActionCoordinatorV1::recover(&s)));
    o.bare = match &bare {
        Err(p) => format!("PANIC:{p}"),
        Ok(Err(e)) => e.clone(),
        Ok(Ok(Err(e))) => err_class(e),
        Ok(Ok(Ok(_))) => "Ok".into(),
    };
    if let Ok(Ok(Ok(b))) = &bare {
        if b != expect {
            o.violations.push(("bare_recover_half_applied".into(), format!("cut {cut}: the coordinator recovered from the unrepaired directory differs from the run cut at its last commit ({c} transactions): {:?} vs {:?}", postures(b, names), postures(expect, names))));
        }
    } else if !matches!(&bare, Ok(Ok(Err(_)))) {
        // a panic, or the store could not even be opened
        o.violations.push(("bare_recover_failed".into(), format!("cut {cut}: {}", o.bare)));
    }
    // any Err of the coordinator's recovery is a refusal (WalTailNotClean, or the store error of a snapshot that refuses a torn record)
    o.refused = matches!(&bare, Ok(Ok(Err(_))));
    // a COMPLETE frame without its complete commit marker is an uncommitted tail the coordinator must refuse (ADR 0026)
    let whole_frame_tail = lv.bounds.iter().any(|b| b.2 > b.0 && b.1 <= cut && cut < b.2);
    if whole_frame_tail && !o.refused {
        o.violations.push(("uncommitted_frame_not_refused".into(), format!("cut {cut}: a complete frame without commit marker is on disk and ExternalActionCoordinatorV1::recover answered {}", o.bare)));
    }
    if o.tail == "clean" && o.refused {
        o.violations.push(("clean_tail_refused".into(), format!("cut {cut}: the log ends at a transaction boundary and ExternalActionCoordinatorV1::recover answered {}", o.bare)));
    }
    if let Some(b) = pred.bare {
        if b != o.bare {
            o.drift.push(format!("bare coordinator recovery {} (model {b})", o.bare));
        }
    }
    // ---- 2b. observation: the host skips the repair because the coordinator did not refuse
    if o.tail != "clean" && o.bare == "Ok" {
        let (class, viol) = bare_path(root, names, scratch, lv, files_at, cut, &o.tail, must_have, salt);
        o.norepair = Some(class);
        if let Some(v) = viol {
            o.violations.push(v);
        }
    }
    // ---- 3. writable repair (twice)
    let w1 = scan(&dir, RecoveryAccessMode::Writable);
    let bytes1 = fs::read(seg_path(&dir)).unwrap_or_default();
    let w2 = scan(&dir, RecoveryAccessMode::Writable);
    let bytes2 = fs::read(seg_path(&dir)).unwrap_or_default();
    let (w1, w2) = match (w1, w2) {
        (Ok(a), Ok(b)) => (a, b),
        (a, b) => {
            o.violations.push(("repair_failed".into(), format!("cut {cut}: {:?} / {:?}", a.err(), b.err())));
            return o;
        }
    };
    o.repaired = o.tail != "clean";
    let want_len = if c == 0 { 0 } else { lv.bounds[durable_ops[c - 1]].2 };
    if w1.transactions.len() != c || bytes1.len() as u64 != want_len {
        o.violations.push(("repair_wrong_boundary".into(), format!("cut {cut}: repair kept {} transactions / {} bytes, the last complete committed transaction ends at byte {want_len} ({c} transactions)", w1.transactions.len(), bytes1.len())));
    }
    if bytes1 != bytes2 || tail_class(w2.tail_posture) != "clean" || w2.transactions.len() != w1.transactions.len() {
        o.violations.push(("repair_not_idempotent".into(), format!("cut {cut}: second writable recovery: {:?}, bytes equal {}", report_sig(&w2), bytes1 == bytes2)));
    }
    if o.tail == "clean" && bytes1 != seg {
        o.violations.push(("repair_changed_clean_log".into(), format!("cut {cut}")));
    }
    // ---- 4. new process: epoch + coordinator
    let next_lsn = w1.last_committed_lsn().map_or(0, |l| l.as_u64() + 1);
    let mut p = match Proc::start(&dir, names, scratch, &format!("{salt}:post"), next_lsn, &lv.coords) {
        Ok(p) => p,
        Err(e) => {
            o.violations.push(("recover_after_repair_failed".into(), format!("cut {cut}: {e}")));
            return o;
        }
    };
    if p.coord != *expect {
        o.violations.push(("recovered_differs_from_uninterrupted".into(), format!("cut {cut}: recovered postures {:?} root {}, the uninterrupted run after {c} transactions had {:?} root {}",
            postures(&p.coord, names), hex::encode(&p.coord.observed_index().root_digest()[..6]), postures(expect, names), hex::encode(&expect.observed_index().root_digest()[..6]))));
    }
    o.root = hex::encode(p.coord.observed_index().root_digest());
    if let Some(rp) = &pred.rec_posts {
        if *rp != postures(&p.coord, names) {
            o.drift.push(format!("recovered postures {:?} (model {rp:?})", postures(&p.coord, names)));
        }
    }
    // everything returned before the crash is reconstructible
    let mut had_grant: BTreeMap<String, (ExternalActionClaimV1, Hash)> = BTreeMap::new();
    let mut had_fact: BTreeMap<String, AdmittedExternalActionSettlementV1> = BTreeMap::new();
    for ret in must_have {
        match ret {
            Returned::Grant { r, claim, commit } => {
                had_grant.insert(r.clone(), (*claim, *commit));
            }
            Returned::Fact { r, fact } => {
                had_fact.insert(r.clone(), fact.clone());
            }
            Returned::Token { .. } => {}
        }
        let ok = has_authority(&p.coord, ret);
        if !ok {
            o.violations.push(("returned_authority_lost".into(), format!("cut {cut}: {ret:?} was returned before the crash and is not in the recovered index")));
        }
    }
    // ---- 5. continue
    let mut commits = c;
    for (i, (op, pclass, pposts)) in pred.post.iter().enumerate() {
        let n_ret = p.returned.len();
        let len0 = p.store.seg_len();
        let class = p.apply(op);
        let grew = p.store.seg_len() > len0;
        if class.starts_with("PANIC") {
            o.violations.push(("panic_in_code_under_test".into(), format!("post op {i} {op:?}: {class}")));
        }
        if class != *pclass {
            o.drift.push(format!("post op {i} {op:?}: {class} (model {pclass})"));
        }
        let posts = postures(&p.coord, names);
        if !pposts.is_empty() && posts != *pposts && class == *pclass {
            o.drift.push(format!("post op {i} {op:?}: postures {posts:?} (model {pposts:?})"));
        }
        if class == "Ok" && op.0 != "retry" {
            commits += 1;
            if !grew {
                o.violations.push(("returned_before_durable".into(), format!("post op {i} {op:?} returned Ok, the segment did not grow")));
            }
        }
        if let Some(ret) = p.returned.get(n_ret).cloned() {
            match (&ret, op.0.as_str()) {
                (Returned::Grant { r, claim, commit }, _) => {
                    if had_grant.contains_key(r) {
                        o.violations.push(("second_claim_grant".into(), format!("post op {i}: request {r} got a claim grant before the crash and another one after recovery")));
                    }
                    had_grant.insert(r.clone(), (*claim, *commit));
                }
                (Returned::Fact { r, fact }, "retry") => {
                    let retained = p.coord.admitted_settlement(request_for(r).request_id());
                    if retained.as_ref().ok() != Some(fact) || had_fact.get(r).is_some_and(|f| f != fact) {
                        o.violations.push(("retry_not_retained".into(), format!("post op {i}: retry for {r} answered with something else than the retained settlement")));
                    }
                }
                (Returned::Fact { r, fact }, _) => {
                    if had_fact.contains_key(r) {
                        o.violations.push(("step_repeated".into(), format!("post op {i}: request {r} settled before the crash and again after recovery")));
                    }
                    had_fact.insert(r.clone(), fact.clone());
                }
                (Returned::Token { r, .. }, _) => {
                    if must_have.iter().any(|x| matches!(x, Returned::Token { r: r0, .. } if r0 == r)) {
                        o.violations.push(("step_repeated".into(), format!("post op {i}: request {r} recorded before the crash and again after recovery")));
                    }
                }
            }
        }
        o.continued += 1;
    }
    if p.store_calls_in_retry > 0 {
        o.violations.push(("retry_touched_the_log".into(), format!("cut {cut}")));
    }
    // ---- 6. yet another process: the continued log recovers cleanly, gap-free, and to the live state
    let live_after = p.coord.clone();
    drop(p);
    match scan(&dir, RecoveryAccessMode::ReadOnly) {
        Err(e) => o.violations.push(("continued_log_unrecoverable".into(), format!("cut {cut}, {} more operations: {e}", pred.post.len()))),
        Ok(r) => {
            let (n, tail, lsns, _) = report_sig(&r);
            if tail != "clean" || n != commits || lsns != (0..lsns.len() as u64).collect::<Vec<_>>() {
                o.violations.push(("continued_log_wrong".into(), format!("cut {cut}: {n} transactions (expected {commits}), tail {tail}, LSNs {lsns:?}")));
            }
            match util::catch(|| FilesystemWalStore::open(&dir, WalSegmentId::from_raw(1)).map_err(|e| format!("{e:?}")).map(|s| ExternalActionCoordinatorV1::recover(&s))) {
                Ok(Ok(Ok(c2))) => {
                    if c2 != live_after {
                        o.violations.push(("continued_recovery_differs_from_live".into(), format!("cut {cut}: {:?} vs {:?}", postures(&c2, names), postures(&live_after, names))));
                    }
                }
                Ok(Ok(Err(e))) => o.violations.push(("continued_log_unrecoverable".into(), format!("cut {cut}: coordinator recovery of the continued log: {}", err_class(&e)))),
                Ok(Err(e)) | Err(e) => o.violations.push(("continued_log_unrecoverable".into(), format!("cut {cut}: {e}"))),
            }
        }
    }
    let _ = fs::remove_dir_all(&dir);
    o
}

fn has_authority(c: &ExternalActionCoordinatorV1, ret: &Returned) -> bool {
    match ret {
        Returned::Token { r, commit } => c.observed_index().get(request_for(r).request_id()).is_some_and(|e| e.request_commit_digest == *commit && e.request == request_for(r)),
        Returned::Grant { r, claim, commit } => c.observed_index().get(request_for(r).request_id()).is_some_and(|e| e.claim == Some(*claim) && e.claim_commit_digest == Some(*commit)),
        Returned::Fact { r, fact } => c.admitted_settlement(request_for(r).request_id()).is_ok_and(|f| f == *fact),
    }
}

/// The bare path: `ExternalActionCoordinatorV1::recover` ACCEPTED a directory whose read-only scan is not clean (torn
/// partial record) - nothing tells the host to repair.  It goes on as a host would: fresh writer epoch, the first lawful
/// operation the recovered index admits.  If that operation RETURNS its authority, a further stop + recovery (read-only
/// scan, the prescribed writable repair, coordinator recovery) must reconstruct it and everything acknowledged before
/// the crash.  Returns (class, violation).
#[allow(clippy::too_many_arguments)]
fn bare_path(root: &Path, names: &[String], scratch: &Scratch, lv: &Live, files_at: usize, cut: u64, tail: &str, must_have: &[Returned], salt: &str) -> (String, Option<(String, String)>) {
    let dir = root.join("bare");
    if materialise(&dir, &lv.files[files_at], &lv.seg[..cut as usize]).is_err() {
        return ("tool".into(), None);
    }
    let out = (|| {
        let r = match scan(&dir, RecoveryAccessMode::ReadOnly) {
            Ok(r) => r,
            Err(e) => return (format!("scan:{e}"), None),
        };
        let next = r.last_committed_lsn().map_or(0, |l| l.as_u64() + 1);
        let mut p = match Proc::start(&dir, names, scratch, &format!("{salt}:bare"), next, &lv.coords) {
            Ok(p) => p,
            Err(_) => return ("refused_at_start".into(), None),          // any refusal is lawful
        };
        let mut done = None;
        'f: for n in names {
            for o in ["record", "claim", "settle"] {
                let op = (o.to_string(), n.clone(), if o == "settle" { "s1".to_string() } else { "ok".to_string() });
                if p.apply(&op) == "Ok" {
                    done = Some(op);
                    break 'f;
                }
            }
        }
        let Some(op) = done else { return ("no_operation_admitted".into(), None) };
        let Some(ret) = p.returned.last().cloned() else { return ("no_authority_returned".into(), None) };
        drop(p);
        let head = format!("cut {cut}: ExternalActionCoordinatorV1::recover answered Ok on a directory whose read-only scan says tail '{tail}' (torn partial record); with a fresh writer epoch {op:?} then returned {ret:?}; after the next stop");
        let viol = |what: &str, d: String| Some((format!("bare_recover_accepts_torn_tail:{what}"), format!("{head} {d}")));
        if let Err(e) = scan(&dir, RecoveryAccessMode::ReadOnly) {
            return ("acked_then_log_unreadable".into(), viol("log_unreadable", format!("the read-only scan fails: {e}")));
        }
        let w = match scan(&dir, RecoveryAccessMode::Writable) {
            Ok(w) => w,
            Err(e) => return ("acked_then_log_unreadable".into(), viol("log_unreadable", format!("the writable recovery fails: {e}"))),
        };
        let next2 = w.last_committed_lsn().map_or(0, |l| l.as_u64() + 1);
        let p2 = match Proc::start(&dir, names, scratch, &format!("{salt}:bare2"), next2, &lv.coords) {
            Ok(p) => p,
            Err(e) => return ("acked_then_log_unreadable".into(), viol("log_unreadable", format!("recovery after the prescribed repair fails: {e}"))),
        };
        if !has_authority(&p2.coord, &ret) {
            return ("acked_then_lost".into(), viol("ack_lost", format!("the prescribed repair + recovery yields {:?}: the acknowledged step is gone", postures(&p2.coord, names))));
        }
        if let Some(m) = must_have.iter().find(|m| !has_authority(&p2.coord, m)) {
            return ("acked_then_lost".into(), viol("ack_lost", format!("{m:?}, acknowledged before the crash, is gone")));
        }
        ("survived".into(), None)
    })();
    let _ = fs::remove_dir_all(&dir);
    out
}

// ------------------------------------------------------------------ cases

fn s(v: &Value) -> String {
    v.as_str().unwrap_or("?").to_string()
}
fn strs(v: &Value) -> Vec<String> {
    v.as_array().map(|a| a.iter().map(s).collect()).unwrap_or_default()
}

fn cut_offset(b: (u64, u64, u64), part: &str, cls: &str) -> Option<u64> {
    let (s0, f, m) = b;
    let within = |lo: u64, hi: u64| -> Option<u64> {
        let n = hi - lo;
        Some(match cls {
            "0" => lo,
            "1" => lo + 1,
            "middle" => lo + n / 2,
            "all_but_one" => hi - 1,
            "complete" => hi,
            _ => return None,
        })
    };
    match part {
        "frame" => within(s0, f),
        "marker" => within(f, m),
        _ => None,
    }
}

struct Ctx {
    root: PathBuf,
    cache: HashMap<String, std::rc::Rc<Live>>,
    scratch: HashMap<String, std::rc::Rc<Scratch>>,
    live_runs: u64,
}

fn model_case(cx: &mut Ctx, case: &Value, line: usize) -> Value {
    let names = strs(&case["reqs"]);
    let steps = case["steps"].as_array().cloned().unwrap_or_default();
    let sk = names.join(",");
    let scratch = cx.scratch.entry(sk).or_insert_with(|| std::rc::Rc::new(Scratch::new(&names))).clone();
    // split: pre ops, crash, scan/repair/recover, post ops (exactly one crash is replayed physically; a second crash of
    // the thorough model is replayed as a second case by the runner)
    let ci = match steps.iter().position(|st| st[0] == "crash") {
        Some(i) => i,
        None => return json!({"verdict":"tool_error","detail":"no crash step"}),
    };
    let mut pre: Vec<Op> = Vec::new();
    let mut pre_pred: Vec<(String, Vec<String>)> = Vec::new();
    for st in &steps[..ci] {
        if st[0] == "op" {
            pre.push((s(&st[1]), s(&st[2]), s(&st[3])));
            pre_pred.push((s(&st[4]), strs(&st[7])));
        } else {
            return json!({"verdict":"tool_error","detail":"unexpected step before the first crash"});
        }
    }
    let cr = &steps[ci];
    let idle = cr[6] == "idle";
    let mut script = pre.clone();
    if !idle {
        script.push((s(&cr[1]), s(&cr[2]), s(&cr[3])));
    }
    let key = format!("{names:?}|{script:?}");
    let lv = match cx.cache.get(&key) {
        Some(l) => l.clone(),
        None => {
            cx.live_runs += 1;
            match live_run(&cx.root, &names, &scratch, &script, &format!("L{}", cx.live_runs)) {
                Ok(l) => {
                    if cx.cache.len() > 4000 {
                        cx.cache.clear();
                    }
                    let l = std::rc::Rc::new(l);
                    cx.cache.insert(key, l.clone());
                    l
                }
                Err(e) => return json!({"verdict":"violation","kind":"live_process_failed","step":0,"detail":e}),
            }
        }
    };
    if let Some((k, d)) = lv.violations.first() {
        // the live process itself broke the property (e.g. an authority returned without a synced commit marker)
        return json!({"verdict":"violation","kind":k,"detail":d,"all":lv.violations.iter().map(|(k, _)| k.clone()).collect::<BTreeSet<_>>(),"info":{"live":true}});
    }
    let mut drift: Vec<String> = Vec::new();
    for (i, (pc, pp)) in pre_pred.iter().enumerate() {
        if lv.classes[i] != *pc {
            drift.push(format!("pre op {i} {:?}: {} (model {pc})", pre[i], lv.classes[i]));
        } else if lv.posts[i + 1] != *pp {
            drift.push(format!("pre op {i} {:?}: postures {:?} (model {pp:?})", pre[i], lv.posts[i + 1]));
        }
    }
    let (cut, files_at) = if idle {
        (lv.seg.len() as u64, pre.len())
    } else {
        let b = lv.bounds[pre.len()];
        if b.2 == b.0 {
            return json!({"verdict":"drift","drift":[format!("the interrupted operation {:?} never reached the log in the real code (class {})", script[pre.len()], lv.classes[pre.len()])],"steps":0,"checks":0});
        }
        match cut_offset(b, cr[5].as_str().unwrap_or(""), cr[6].as_str().unwrap_or("")) {
            Some(c) => (c, pre.len()),
            None => return json!({"verdict":"tool_error","detail":format!("unknown cut class {cr}")}),
        }
    };
    // predictions after the crash
    let mut pred = Pred { tail: None, bare: None, rec_posts: None, post: Vec::new() };
    let mut second_crash = false;
    for st in &steps[ci + 1..] {
        match st[0].as_str().unwrap_or("") {
            "scan" if !second_crash => {
                pred.tail = st[1].as_str();
                pred.bare = st[2].as_str();
            }
            "recover" if !second_crash => pred.rec_posts = Some(strs(&st[3])),
            "op" if !second_crash => pred.post.push(((s(&st[1]), s(&st[2]), s(&st[3])), s(&st[4]), strs(&st[7]))),
            "crash" => second_crash = true,
            _ => {}
        }
    }
    let post_ops: Vec<Op> = pred.post.iter().map(|x| x.0.clone()).collect();
    let mut out = crash_and_recover(&cx.root, &names, &scratch, &lv, files_at, cut, &post_ops, &pred, &format!("c{line}"));
    out.violations.extend(lv.violations.iter().cloned());
    drift.extend(out.drift.iter().cloned());
    finish(&out, drift, json!({"cut": cut, "part": cr[5], "cls": cr[6], "tx": cr[4], "seg_len": lv.seg.len()}))
}

fn finish(out: &Out1, drift: Vec<String>, extra: Value) -> Value {
    let mut v = json!({
        "verdict": "ok", "tail": out.tail, "bare": out.bare, "refused": out.refused, "repaired": out.repaired, "continued": out.continued,
        "norepair": out.norepair, "root": out.root, "info": extra,
    });
    if let Some((k, d)) = out.violations.iter().find(|(k, _)| k == "TOOL") {
        return json!({"verdict":"tool_error","detail":format!("{k}: {d}")});
    }
    if let Some((k, d)) = out.violations.first() {
        v["verdict"] = json!("violation");
        v["kind"] = json!(k);
        v["detail"] = json!(d);
        v["all"] = json!(out.violations.iter().map(|(k, _)| k.clone()).collect::<BTreeSet<_>>());
    } else if !drift.is_empty() {
        v["verdict"] = json!("drift");
        v["drift"] = json!(drift);
    }
    v
}

fn sweep_script(name: &str) -> Option<(Vec<String>, Vec<Op>, Vec<Op>)> {
    let o = |a: &str, b: &str, c: &str| (a.to_string(), b.to_string(), c.to_string());
    let two = vec!["r1".to_string(), "r2".to_string()];
    Some(match name {
        // one request through its whole life; afterwards a retry and a second request
        "life" => (two, vec![o("record", "r1", "ok"), o("claim", "r1", "ok"), o("settle", "r1", "s1"), o("retry", "r1", "s1")],
                   vec![o("retry", "r1", "s1"), o("claim", "r1", "ok"), o("record", "r2", "ok")]),
        // two requests interleaved; afterwards the claims / settlements that are still open
        "interleaved" => (two, vec![o("record", "r1", "ok"), o("record", "r2", "ok"), o("claim", "r2", "ok2"), o("claim", "r1", "ok"), o("settle", "r2", "rej"), o("settle", "r1", "s2")],
                          vec![o("claim", "r1", "ok"), o("claim", "r2", "ok2"), o("settle", "r2", "rej"), o("retry", "r2", "rej")]),
        // outcome-unknown settlement with an empty result, three requests
        "unknown" => (vec!["r1".to_string(), "r2".to_string(), "r3".to_string()],
                      vec![o("record", "r3", "ok"), o("claim", "r3", "ok"), o("settle", "r3", "unk"), o("record", "r1", "ok"), o("claim", "r1", "ok2")],
                      vec![o("retry", "r3", "unk"), o("settle", "r1", "fail"), o("record", "r2", "ok")]),
        _ => return None,
    })
}

/// cut at EVERY byte offset (stride 1) of the segment a scripted lifecycle writes
fn sweep_case(cx: &mut Ctx, case: &Value) -> Value {
    let name = s(&case["sweep"]);
    let stride = case["stride"].as_u64().unwrap_or(1).max(1);
    let Some((names, script, post)) = sweep_script(&name) else { return json!({"verdict":"tool_error","detail":"unknown sweep script"}) };
    let scratch = Scratch::new(&names);
    let lv = match live_run(&cx.root, &names, &scratch, &script, &format!("S{name}")) {
        Ok(l) => l,
        Err(e) => return json!({"verdict":"violation","kind":"live_process_failed","detail":e}),
    };
    if let Some((k, d)) = lv.violations.first() {
        return json!({"verdict":"violation","kind":k,"detail":format!("sweep {name}: {d}"),"info":{"live":true}});
    }
    let n = lv.seg.len() as u64;
    let mut offsets = 0u64;
    let mut agg = Out1::default();
    let mut tails: BTreeMap<String, u64> = BTreeMap::new();
    let mut norep: BTreeMap<String, u64> = BTreeMap::new();
    let mut norep_first: BTreeMap<String, u64> = BTreeMap::new();
    let (mut refused, mut repaired, mut continued, mut accepted_unclean) = (0u64, 0u64, 0u64, 0u64);
    let pred = |post: &[Op]| Pred { tail: None, bare: None, rec_posts: None, post: post.iter().map(|o| (o.clone(), String::new(), Vec::new())).collect() };
    let boundaries: BTreeSet<u64> = lv.bounds.iter().flat_map(|b| [b.0, b.1, b.2]).collect();
    let mut by_kind: BTreeMap<String, Value> = BTreeMap::new();
    let mut by_kind_n: BTreeMap<String, u64> = BTreeMap::new();
    // replay aid: {"sweep":name,"only":[offsets]} cuts at the listed bytes only
    let only: Option<Vec<u64>> = case["only"].as_array().map(|a| a.iter().filter_map(Value::as_u64).filter(|x| *x <= n).collect());
    let mut only_i = 0usize;
    let mut b = match &only {
        Some(v) => v.first().copied().unwrap_or(n + 1),
        None => 0u64,
    };
    while b <= n {
        // the files (writer-epoch ledger) as they were before the operation in flight; at a transaction boundary the
        // ledger of either side is a physical possibility
        let in_flight = lv.bounds.iter().position(|x| x.2 > x.0 && x.0 <= b && b < x.2).unwrap_or(lv.bounds.len());
        let mut variants = vec![in_flight];
        if let Some(prev) = lv.bounds.iter().position(|x| x.2 > x.0 && x.2 == b) {
            variants.push(prev);            // marker complete, ledger not yet rewritten
        }
        for fa in variants {
            let pr = pred(&post);
            let mut o = crash_and_recover(&cx.root, &names, &scratch, &lv, fa, b, &post, &pr, &format!("s{name}{b}"));
            // result classes are not predicted here: drop class drift
            o.drift.clear();
            offsets += 1;
            *tails.entry(o.tail.clone()).or_default() += 1;
            refused += u64::from(o.refused);
            repaired += u64::from(o.repaired);
            continued += o.continued as u64;
            if o.tail != "clean" && o.bare == "Ok" {
                accepted_unclean += 1;
            }
            if let Some(c) = &o.norepair {
                *norep.entry(c.clone()).or_default() += 1;
                norep_first.entry(c.clone()).or_insert(b);
            }
            for (k, d) in o.violations {
                *by_kind_n.entry(k.clone()).or_default() += 1;
                if !by_kind.contains_key(&k) {
                    let d = format!("sweep {name} byte {b} (files as before op {fa}): {d}");
                    by_kind.insert(k.clone(), json!({"offset": b, "files_as_before_op": fa, "detail": d}));
                    agg.violations.push((k, d));
                }
            }
        }
        // stride > 1 still visits every record boundary, its neighbours and a cut inside the record header (magic complete, length torn)
        let mut next = b + stride;
        if stride > 1 {
            if let Some(nb) = boundaries.iter().flat_map(|x| [x.saturating_sub(1), *x, *x + 1, *x + 9]).filter(|x| *x > b && *x < next).min() {
                next = nb;
            }
        }
        if let Some(v) = &only {
            only_i += 1;
            next = v.get(only_i).copied().unwrap_or(n + 1);
        }
        b = next;
    }
    agg.violations.extend(lv.violations.iter().cloned());
    let mut v = finish(&agg, Vec::new(), json!({"sweep": name, "seg_len": n, "bounds": lv.bounds.iter().map(|b| json!([b.0, b.1, b.2])).collect::<Vec<_>>(), "live_classes": lv.classes}));
    v["sweep"] = json!({"offsets": offsets, "tails": tails, "refused": refused, "repaired": repaired, "continued_ops": continued,
                         "bare_accepted_unclean": accepted_unclean, "norepair": norep, "norepair_first_offset": norep_first});
    v["by_kind"] = json!(by_kind);
    v["by_kind_count"] = json!(by_kind_n);
    v
}

pub fn run(args: &[String]) -> i32 {
    if args.len() < 2 {
        eprintln!("usage: echo-verif c17fs <cases.ndjson> <results.ndjson>");
        return 2;
    }
    let root = work_root();
    let mut cx = Ctx { root: root.clone(), cache: HashMap::new(), scratch: HashMap::new(), live_runs: 0 };
    let mut out = util::Out::create(&args[1]);
    let (mut n, mut bad) = (0u64, 0u64);
    for (line, case) in util::read_lines(&args[0]) {
        let v = if case.get("sweep").is_some() { sweep_case(&mut cx, &case) } else { model_case(&mut cx, &case, line) };
        if v["verdict"] == "violation" {
            bad += 1;
        }
        out.line(&v);
        n += 1;
    }
    out.finish();
    let _ = fs::remove_dir_all(&root);
    println!("{}", json!({"cases": n, "violations": bad, "live_runs": cx.live_runs}));
    0
}
