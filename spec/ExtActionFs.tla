----------------------------- MODULE ExtActionFs -----------------------------
(***************************************************************************)
(* C17, filesystem leg - the external-action lifecycle of ExtAction.tla    *)
(* over a BYTE-level durable log with a physical crash (as Wal.tla: a      *)
(* crash keeps any byte prefix not shorter than the synced prefix).        *)
(*                                                                         *)
(* Transcribed from /repo/crates/warp-core/src/causal_wal.rs               *)
(*   FilesystemWalStore::{append_frame, flush_external_action_commit} ->   *)
(*     append_segment_record (magic, kind, length, payload, digest written *)
(*     one after the other; only the commit marker is followed by          *)
(*     sync_all),                                                          *)
(*   read_segment_bytes (a record whose header / payload / digest runs     *)
(*     past the end of the file = torn tail, reading stops there),         *)
(*   recover_filesystem_store(ReadOnly | Writable) (tail posture Clean /   *)
(*     WouldTruncateAfter / WouldTruncateAll; Writable rewrites the        *)
(*     segment to the committed transactions),                             *)
(*   FilesystemWalStore::read_snapshot (complete records only: the torn    *)
(*     flag of read_filesystem_segments is dropped)                        *)
(* and external_action.rs ExternalActionCoordinatorV1::recover (refuses    *)
(* with WalTailNotClean iff the SNAPSHOT has a frame beyond the last       *)
(* commit).                                                                *)
(*                                                                         *)
(* The log of ExtAction (`seg`, complete records) is kept; every frame is  *)
(* FrameLen bytes and every commit marker MarkLen bytes long; `tornB`      *)
(* bytes of a partially written record (`tornK`) may follow the last       *)
(* complete record after a crash.                                          *)
(*                                                                         *)
(*   CrashAt(o)  the process stops inside a durable step; of the bytes of  *)
(*               the transaction in flight exactly the first o survive,    *)
(*               for every o between what is synced and what may have been *)
(*               written (torn frame, torn marker, complete-but-unacked)   *)
(*   CrashIdle   ... between two steps                                     *)
(*   Scan        a fresh process scans read-only (tail posture) and asks   *)
(*               the bare coordinator to recover (refusal is recorded;     *)
(*               AsBuiltBareRecover selects the as-built / repaired law)   *)
(*   Repair      recover_filesystem_store(Writable): truncate to the last  *)
(*               complete committed transaction                            *)
(*   FsRecover   ExtAction!Recover on the repaired log; the lifecycle      *)
(*               continues with the actions of ExtAction                   *)
(*                                                                         *)
(* Ghost `done`: the transactions of the UNINTERRUPTED run with the byte   *)
(* offset at which their commit marker ends and the index they produce; a  *)
(* crash at absolute offset B keeps exactly those with end <= B.  It is    *)
(* maintained from offsets alone, independently of how the records are cut.*)
(***************************************************************************)
EXTENDS ExtAction

CONSTANTS FrameLen,       \* bytes of a frame record (>= 2)
          MarkLen,        \* bytes of a commit-marker record (>= 2)
          MutTornMarker,  \* model mutant: a torn commit marker counts as committed
          MutRepairDeep,  \* model mutant: tail repair drops one transaction too many
          AsBuiltBareRecover \* TRUE: FilesystemWalStore::read_snapshot drops the torn-tail flag (as built before the repair
                          \* seeded/fixes/f17.diff): the bare coordinator refuses only a COMPLETE uncommitted frame.
                          \* FALSE (repaired): a torn partial record makes the snapshot fail (SegmentHasUncommittedTail)

VARIABLES tornB,   \* bytes of a partial record behind the last complete record
          tornK,   \* "-" | "frame" | "marker": which record is torn
          mode,    \* "live" | "down" | "scanned" | "repaired"
          done,    \* ghost: committed transactions of the uninterrupted run [tx, end, idx]
          cutAt    \* ghost: absolute byte offset of the last crash (-1: none)
fsvars  == <<tornB, tornK, mode, done, cutAt>>
allvars == <<seg, synced, co, pend, nextTx, issued, hist, tornB, tornK, mode, done, cutAt>>

TxLen == FrameLen + MarkLen
RecLen(x) == IF x.t = "frame" THEN FrameLen ELSE MarkLen
RECURSIVE BytesOf(_)
BytesOf(s) == IF s = <<>> THEN 0 ELSE RecLen(Head(s)) + BytesOf(Tail(s))
SyncedBytes == BytesOf(SubSeq(seg, 1, synced))
FileBytes   == BytesOf(seg) + tornB

\* records of the transaction in flight that are already in seg
InSeg  == IF pend = None \/ pend.phase = "frame" THEN 0 ELSE IF pend.phase = "commit" THEN 1 ELSE 2
TxBase == BytesOf(SubSeq(seg, 1, Len(seg) - InSeg))
Planned2 == [tx |-> pend.tx, end |-> TxBase + TxLen, idx |-> [co.idx EXCEPT ![pend.r] = pend.plan]]
LastIdx  == IF done = <<>> THEN EmptyIdx ELSE done[Len(done)].idx

\* cut class of an offset inside a record of length n (harness maps it to a real byte offset)
Cls(k, n) == IF k = 0 THEN "0" ELSE IF k = n THEN "complete" ELSE IF k = 1 THEN "1"
             ELSE IF k = n - 1 THEN "all_but_one" ELSE "middle"

\* recover_filesystem_store(ReadOnly).tail_posture
TailClass == IF HasTail(seg) \/ tornB > 0 THEN (IF CommitTxs(seg) = {} THEN "all" ELSE "after") ELSE "clean"
\* ExternalActionCoordinatorV1::recover over the file store BEFORE any repair.  Repaired: read_snapshot refuses a segment
\* that ends in a torn partial record (the coordinator reports the store error), a complete uncommitted frame yields
\* WalTailNotClean.  As built: only complete records are seen, a torn record is invisible.
BareRecover == IF ~AsBuiltBareRecover /\ tornB > 0 THEN "WalStore"
               ELSE IF HasTail(seg) THEN "WalTailNotClean" ELSE "Ok"

FsInit ==
  /\ Init
  /\ tornB = 0 /\ tornK = "-" /\ mode = "live" /\ done = <<>> /\ cutAt = 0 - 1

(* ---------------------------------------------------------- live actions *)
FsCall(o, r, v) == mode = "live" /\ Call(o, r, v) /\ UNCHANGED fsvars
FsObserve       == mode = "live" /\ Observe /\ UNCHANGED fsvars
FsAppendFrame   == mode = "live" /\ AppendFrame /\ UNCHANGED fsvars
FsFlushCommit   ==
  /\ mode = "live" /\ FlushCommit
  /\ done' = Append(done, [tx |-> pend.tx, end |-> BytesOf(seg'), idx |-> [co.idx EXCEPT ![pend.r] = pend.plan]])
  /\ UNCHANGED <<tornB, tornK, mode, cutAt>>
FsReturn        == mode = "live" /\ Return /\ UNCHANGED fsvars

(* ---------------------------------------------------------------- crash *)
CrashAt(o) ==
  /\ mode = "live" /\ co.alive /\ pend # None
  /\ o >= (IF pend.phase = "ack" THEN TxLen ELSE 0)              \* the marker is synced once flush returned
  /\ o <= (IF pend.phase = "frame" THEN FrameLen ELSE TxLen)     \* what may have been written so far
  /\ LET base    == TxBase
         stable  == SubSeq(seg, 1, Len(seg) - InSeg)
         frameOk == o >= FrameLen
         markOk  == IF MutTornMarker THEN o > FrameLen ELSE o >= TxLen
         seg2    == IF ~frameOk THEN stable
                    ELSE IF ~markOk THEN Append(stable, Frame(pend))
                    ELSE stable \o <<Frame(pend), Commit(pend)>>
         tb      == IF ~frameOk THEN o ELSE IF markOk THEN 0 ELSE o - FrameLen
         tk      == IF tb = 0 THEN "-" ELSE IF ~frameOk THEN "frame" ELSE "marker"
         sched   == IF pend.phase = "ack" THEN done ELSE Append(done, Planned2)
         c2      == [co EXCEPT !.alive = FALSE, !.ready = FALSE]
     IN /\ seg' = seg2 /\ synced' = Len(seg2) /\ tornB' = tb /\ tornK' = tk
        /\ done' = SelectSeq(sched, LAMBDA d : d.end <= base + o)
        /\ cutAt' = base + o
        /\ co' = c2
        /\ hist' = Log([o |-> "crash", r |-> pend.r, v |-> pend.v, f |-> "cut", res |-> "Crashed", op |-> pend.o,
                        ntx |-> Len(stable) \div 2,
                        part |-> IF o <= FrameLen THEN "frame" ELSE "marker",
                        cls  |-> IF o <= FrameLen THEN Cls(o, FrameLen) ELSE Cls(o - FrameLen, MarkLen),
                        off  |-> o, kept |-> o >= TxLen])
  /\ mode' = "down" /\ pend' = None
  /\ UNCHANGED <<nextTx, issued>>

CrashIdle ==
  /\ mode = "live" /\ co.alive /\ pend = None
  /\ co' = [co EXCEPT !.alive = FALSE, !.ready = FALSE]
  /\ cutAt' = BytesOf(seg)
  /\ hist' = Log([o |-> "crash", r |-> "-", v |-> "-", f |-> "cut", res |-> "Crashed", op |-> "-",
                  ntx |-> Len(seg) \div 2, part |-> "-", cls |-> "idle", off |-> 0, kept |-> FALSE])
  /\ mode' = "down"
  /\ UNCHANGED <<seg, synced, pend, nextTx, issued, tornB, tornK, done>>

(* ------------------------------------------------------- a fresh process *)
Scan ==
  /\ mode = "down" /\ mode' = "scanned"
  /\ hist' = Log([o |-> "scan", r |-> "-", v |-> "-", f |-> "-", res |-> TailClass, bare |-> BareRecover,
                  torn |-> tornK, ncommit |-> Len(Commits(seg)),
                  dp |-> Posts(Rebuild(Truncate(seg)).idx), gr |-> Grants(Rebuild(Truncate(seg)).idx)])
  /\ UNCHANGED <<seg, synced, co, pend, nextTx, issued, tornB, tornK, done, cutAt>>

Repair ==
  /\ mode = "scanned" /\ mode' = "repaired"
  /\ LET dirty == HasTail(seg) \/ tornB > 0
         t     == Truncate(seg)
         seg2  == IF MutRepairDeep /\ dirty /\ Len(t) >= 2 THEN SubSeq(t, 1, Len(t) - 2) ELSE t
     IN /\ seg' = seg2 /\ synced' = Len(seg2) /\ tornB' = 0 /\ tornK' = "-"
        /\ hist' = Log([o |-> "repair", r |-> "-", v |-> "-", f |-> "-", res |-> IF dirty THEN "truncated" ELSE "clean",
                        ncommit |-> Len(Commits(seg2))])
  /\ UNCHANGED <<co, pend, nextTx, issued, done, cutAt>>

FsRecover == mode = "repaired" /\ Recover /\ mode' = "live" /\ UNCHANGED <<tornB, tornK, done, cutAt>>

FsNext == \/ \E op \in Ops : FsCall(op[1], op[2], op[3])
          \/ FsObserve \/ FsAppendFrame \/ FsFlushCommit \/ FsReturn
          \/ \E o \in 0..TxLen : CrashAt(o)
          \/ CrashIdle \/ Scan \/ Repair \/ FsRecover
FsSpec == FsInit /\ [][FsNext]_allvars

(* ----------------------------------------------------------- invariants *)
\* a grant / token / fact RETURNED to a caller is in every recoverable byte prefix
Inv_FsDurableBeforeReturn == \A g \in issued :
   \E i \in DOMAIN done : done[i].tx = g.tx /\ done[i].end <= SyncedBytes
\* what a recovery reconstructs (index, root, outstanding grants) is exactly the uninterrupted run cut at the
\* last commit marker that ends at or before the crash offset - nothing more (half-applied), nothing less (lost)
Inv_FsCommittedPrefix ==
   /\ CommitTxs(seg) = {done[i].tx : i \in DOMAIN done}
   /\ LET rb == Rebuild(Truncate(seg))
      IN rb.ok /\ rb.idx = LastIdx /\ RootOf(rb.idx) = RootOf(LastIdx) /\ Grants(rb.idx) = Grants(LastIdx)
\* no posture from a transaction whose marker is torn or missing
Inv_FsNoHalfApplied ==
   /\ (tornK = "marker") => (HasTail(seg) /\ seg[Len(seg)].t = "frame" /\ seg[Len(seg)].tx \notin CommitTxs(seg))
   /\ (mode = "live" /\ co.alive /\ co.ready /\ pend = None) => (co.idx = LastIdx /\ tornB = 0 /\ ~HasTail(seg))
   /\ (mode = "repaired") => (tornB = 0 /\ ~HasTail(seg))
\* opening twice = opening once; repairing a repaired log changes nothing
Inv_FsIdempotent ==
   /\ Truncate(Truncate(seg)) = Truncate(seg)
   /\ (mode \in {"repaired", "live"} /\ pend = None) => (Truncate(seg) = seg)
\* the bare coordinator refuses EVERY unclean tail - a complete uncommitted frame and a torn partial record alike: an
\* accepted torn tail lets the next transaction be appended behind the torn bytes, where no later recovery finds it
\* (finding F17; violated with AsBuiltBareRecover = TRUE, kept as MC_C17fs_asbuilt_bare.cfg)
Inv_FsBareRefusesTail == (HasTail(seg) \/ tornB > 0) => BareRecover # "Ok"
Inv_FsShape ==
   /\ tornB >= 0 /\ (tornB = 0) = (tornK = "-")
   /\ (tornK = "frame") => (tornB < FrameLen /\ ~HasTail(seg))
   /\ (tornK = "marker") => tornB < MarkLen
   /\ (mode = "live") => tornB = 0
   /\ \A i \in DOMAIN done : (i > 1 => done[i].end = done[i - 1].end + TxLen) /\ (i = 1 => done[i].end = TxLen)
=============================================================================
