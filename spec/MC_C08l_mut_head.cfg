SPECIFICATION MC_Spec
CONSTANTS
  Intents = {}
  IdRank <- MC_IdRank
  Handlers <- MC_Handlers
  HandlerRank <- MC_HandlerRank
  HMatches <- MC_HMatches
  DispatchPolicy = "head"
  None = None
  IntentSet = {"A1", "B1", "N1"}
  EventSet = {}
  SeqNos = {7}
  Mode = "graph"
  MidTx = FALSE
  UseDrainAll = FALSE
  MaxRetry = 0
  MaxTx = 0
  MaxAbort = 0
  MaxDrainAll = 0
  Export = FALSE
VIEW MC_View
INVARIANTS GraphWellFormed PendingIsSet LedgerPartition AtMostOnce ConsumedInCanonicalOrder HandledExactlyOnce LogSound LegacyIngressBlocksFresh TicksSound DrainIsFunctionOfSet
PROPERTIES RetryChangesNothing IngestLaw DispatchPicksMin OnlyCommitConsumes
CHECK_DEADLOCK FALSE
