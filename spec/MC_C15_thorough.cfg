SPECIFICATION Spec
CONSTANTS
  ASlots = {"n1", "n2", "n3"}
  NSlots = {"n4"}
  Prog <- MC_Prog
  None = None
  AsBuiltClean = FALSE
  MaxPre = 2
  MaxPPost = 2
  MaxSTicks = 2
  MaxSTicks2 = 1
  MaxTotal = 4
  MaxStrands = 1
  MaxSettles = 1
  PrePool = {1}
  Pre2Pool = {2, 3, 8}
  PPool = {2, 3, 8}
  SPool = {1, 2, 5, 6, 10, 8}
  SecondSrc = {}
  SecondForkTip = TRUE
  PinLastOnly = TRUE
  Export = TRUE
INVARIANTS ForkIsExactPrefix NoSharedHeads LaneIsolation StrandTicksDontTouchParent ParentTicksDontTouchStrand PlanIsPure SettleAllOrNothing ImportedSlotsTakeStrandValues ParentChangedSlotsNeverOverwritten BlockingIsSticky ParentStaysReplayable ImportsReplayCleanly  Inv_Export
CHECK_DEADLOCK FALSE
