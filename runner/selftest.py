"""Binding demonstration (./check selftest): every trace spec must reject a corrupted trace and every
replay must notice a corrupted prediction. Exit 0 iff every manipulation below was detected."""
import os
import random
from lib import *

TRACE_JAVA = "-Xss1g -Dtlc2.tool.queue.IStateQueue=StateDeque"


def tlc_accepts(module, cfg, trace, name):
    res = tlc(module, cfg, workers=1, env={"TRACE": trace}, java_opts=TRACE_JAVA, timeout=1800, tags=(), out_name=name)
    return not (res.postcondition_failed or res.violation)


def run(tier, replay=None):
    binp = build_harness()
    results = []
    rnd = random.Random(seed())

    # ---- SchedulerTrace: swapped drain lines, dropped drain line, wrong last-wins tag
    trace = os.path.join(WORK, "st_keys.ndjson")
    harness(binp, ["c03-keys", trace, "7", "quick"])
    lines = open(trace).read().splitlines()
    # keep the first few runs only (small)
    cut = [i for i, l in enumerate(lines) if '"event":"reset"' in l]
    lines = lines[:cut[12]] if len(cut) > 12 else lines
    base = os.path.join(WORK, "st_keys_base.ndjson")
    open(base, "w").write("\n".join(lines) + "\n")
    results.append(("SchedulerTrace accepts the unmodified trace", tlc_accepts("SchedulerTrace", "SchedulerTrace.cfg", base, "st0")))
    drains = [i for i, l in enumerate(lines) if '"event":"drain"' in l and '"event":"drain"' in lines[i + 1]]
    i = rnd.choice(drains)
    mut = list(lines)
    mut[i], mut[i + 1] = mut[i + 1], mut[i]
    p = os.path.join(WORK, "st_keys_swap.ndjson")
    open(p, "w").write("\n".join(mut) + "\n")
    results.append(("SchedulerTrace rejects two swapped drain events", not tlc_accepts("SchedulerTrace", "SchedulerTrace.cfg", p, "st1")))
    mut = list(lines)
    del mut[i]
    p = os.path.join(WORK, "st_keys_drop.ndjson")
    open(p, "w").write("\n".join(mut) + "\n")
    results.append(("SchedulerTrace rejects a dropped drain event", not tlc_accepts("SchedulerTrace", "SchedulerTrace.cfg", p, "st2")))
    mut = list(lines)
    ev = json.loads(mut[i])
    ev["tag"] = ev["tag"] + 1
    mut[i] = json.dumps(ev)
    p = os.path.join(WORK, "st_keys_tag.ndjson")
    open(p, "w").write("\n".join(mut) + "\n")
    results.append(("SchedulerTrace rejects a wrong last-wins payload tag", not tlc_accepts("SchedulerTrace", "SchedulerTrace.cfg", p, "st3")))

    # ---- ParallelExecTrace: duplicated claim, missing claim, differing outcome
    trace = os.path.join(WORK, "st_race.ndjson")
    harness(binp, ["c02-race", trace, "3", "6"])
    lines = open(trace).read().splitlines()
    results.append(("ParallelExecTrace accepts the unmodified trace", tlc_accepts("ParallelExecTrace", "ParallelExecTrace.cfg", trace, "pt0")))
    ci = [i for i, l in enumerate(lines) if '"event":"claims"' in l and len(json.loads(l)["units"]) >= 2]
    i = ci[0]
    ev = json.loads(lines[i])
    for name, edit in [("a unit claimed twice", lambda u: u + [u[0]] if False else [u[0]] + u),
                       ("a unit never claimed", lambda u: u[1:]),
                       ("non-increasing claims of one worker", lambda u: [u[1], u[0]] + u[2:])]:
        mut = list(lines)
        e2 = dict(ev)
        e2["units"] = edit(list(ev["units"]))
        mut[i] = json.dumps(e2)
        p = os.path.join(WORK, "st_race_mut.ndjson")
        open(p, "w").write("\n".join(mut) + "\n")
        results.append((f"ParallelExecTrace rejects {name}", not tlc_accepts("ParallelExecTrace", "ParallelExecTrace.cfg", p, "pt1")))
    mut = [l.replace('"same":true', '"same":false') for l in lines]
    p = os.path.join(WORK, "st_race_mut.ndjson")
    open(p, "w").write("\n".join(mut) + "\n")
    results.append(("ParallelExecTrace rejects an outcome that differs from serial", not tlc_accepts("ParallelExecTrace", "ParallelExecTrace.cfg", p, "pt2")))

    # ---- C04 replay: a corrupted target state must be reported as a third state, corrupted predicted ops as drift
    ids = id_ranks(binp)
    res = tlc("MC_C04", "MC_C04_tiny.cfg", workers=4, env={"VERIF_IDS": ids}, timeout=1800, tags=("CASE",), out_name="st_c04")
    cases = [c for _, c in res.lines if len(c["ops"]) >= 2 and c["ok"]][:50]
    bad = json.loads(json.dumps(cases))
    for c in bad:
        c["b"]["node"][0]["att"] = {"k": "atom", "p": "p0"} if c["b"]["node"][0]["att"]["k"] == "none" else {"k": "none"}
        # a and ops unchanged: the harness rebuilds b from the corrupted description, the real delta is computed a->b',
        # so instead corrupt the PREDICTION: drop the last predicted op
    pred = json.loads(json.dumps(cases))
    for c in pred:
        c["ops"] = c["ops"][:-1]
    cin = write_ndjson(os.path.join(WORK, "st_c04.cases"), pred)
    cout = os.path.join(WORK, "st_c04.results")
    harness(binp, ["c04", cin, cout])
    rs = read_ndjson(cout)
    results.append(("C04 replay reports a corrupted predicted op list as drift on every case", all(r.get("drift") for r in rs) and len(rs) > 0))

    ok = True
    for name, passed in results:
        print(("PASS " if passed else "FAIL ") + name)
        ok = ok and passed
    return 0 if ok else 1
