------------------------------ MODULE MC_C04l ------------------------------
(***************************************************************************)
(* C04, ledger leg: ONE engine over a history of ticks.                    *)
(* A history is a script of macro steps on the engine record of Ledger.tla *)
(*   tick(S)  = begin; apply every candidate of S; commit_with_receipt     *)
(*   abort(S) = begin; apply every candidate of S; abort                   *)
(*   jump(k)  = jump_to_tick(k) followed by further commits (rewind cfgs)  *)
(*   fail(S)  = begin; apply S; commit returns Err; abort   (failed cfgs)  *)
(* with S a set of at most MaxCands matching candidates (the empty tick    *)
(* included).  Every history with MaxTicks committed ticks is exported     *)
(* with the predicted state, patch, slots, canonical content after every   *)
(* tick, the predicted jump_to_tick outcome for every k and the predicted  *)
(* slice of every slot, and replayed on one real Engine (harness c04l.rs). *)
(***************************************************************************)
EXTENDS Ledger, Json, IOUtils

CONSTANTS MaxTicks,      \* committed ticks per history
          MaxCands,      \* candidates per tick
          MaxCandsA,     \* candidates per tick in a history that contains an aborted transaction
          MaxAborts,     \* aborted transactions per history
          MaxJumps,      \* jump_to_tick calls FOLLOWED by commits per history (0 except in the rewind cfgs)
          MaxFails,      \* transactions whose commit FAILS (merged ops do not apply) per history (0 except in the failed cfgs)
          PreNames,      \* pre-states (U0) explored
          CandU,         \* candidate universe: set of <<rule, warp, scope>>
          AbortSets,     \* candidate sets an aborted transaction may have enqueued
          Export

VARIABLES eng, preName,
          script,        \* the macro steps so far (the behaviour being exported)
          lastKind       \* kind of the last step ("init" | "tick" | "abort" | "jump" | "fail")
vars == <<eng, preName, script, lastKind>>

\* ---- rule table (interpreted identically by harness/src/programs.rs) -----
P(kind, a, b, e, ty, ty2, p) == [kind |-> kind, a |-> a, b |-> b, e |-> e, ty |-> ty, ty2 |-> ty2, p |-> p]
MC_Prog == <<
  P("SetAtom",     "S",  "S",  "e0", "tA", "tA", "p0"),   \* 1
  P("SetAtom",     "S",  "S",  "e0", "tA", "tA", "p1"),   \* 2
  P("CopyAtt",     "S",  "n0", "e0", "tA", "tA", "p0"),   \* 3  att(S) -> att(n0)
  P("AddEdge",     "S",  "n0", "e0", "tA", "tA", "p0"),   \* 4  e0: S -> n0   (creates, retargets or RE-PARENTS e0)
  P("DelEdgeFrom", "S",  "S",  "e0", "tA", "tA", "p0"),   \* 5  delete e0 if it leaves S
  P("SetEdgeAtom", "S",  "S",  "e0", "tA", "tA", "p1"),   \* 6
  P("UpsertNode",  "n2", "n2", "e0", "tB", "tB", "p0"),   \* 7  create / retype n2
  P("RetypeByAtt", "S",  "S",  "e0", "tB", "tA", "p0"),   \* 8  type(S) := tB if att(S)=p0 else tA
  P("DelNodeIso",  "S",  "S",  "e0", "tA", "tA", "p0"),   \* 9  delete S if it has no out-edge
  P("AddEdge",     "n0", "S",  "e1", "tB", "tB", "p0"),   \* 10 e1: n0 -> S
  P("DelEdgeFrom", "S",  "S",  "e1", "tA", "tA", "p0"),   \* 11 delete e1 if it leaves S
  P("CopyAtt",     "n0", "S",  "e0", "tA", "tA", "p0"),   \* 12 att(n0) -> att(S)
  P("DelEdgeFrom", "S",  "S",  "e2", "tA", "tA", "p0")    \* 13 delete e2 if it leaves S
>>

IdRanks    == JsonDeserialize(IOEnv.VERIF_IDS)
MC_RankW   == [w \in Warps |-> IdRanks.warps[w]]
MC_RankN   == [n \in Nodes |-> IdRanks.nodes[n]]
MC_RankE   == [e \in Edges |-> IdRanks.edges[e]]
CandName(c) == ToString(c[1]) \o "|" \o c[2] \o "|" \o c[3]
AllCands   == CandU \cup UNION AbortSets
MC_KeyRank == [c \in AllCands |-> IdRanks.scope[CandName(c)]]
MC_Root    == <<"w0", "n0">>

\* Universes.  The state root only covers what is reachable from Root = (w0, n0); the "hub" pre-state hangs n1 and n2
\* off the root (e1: n0 -> n1, e2: n0 -> n2) so that what the ticks change is hashed.
\* node life-cycle + attachment data flow on hub: unhook / delete / re-create / retype n2, att(n2), att(n2) -> att(n0)
MC_CandU_life == {<<13, "w0", "n0">>, <<9, "w0", "n2">>, <<7, "w0", "n0">>, <<2, "w0", "n2">>, <<3, "w0", "n2">>}
\* edge life-cycle on hub: delete / RE-PARENT e0 (keeps its attachment: the F1 path), set its attachment, unhook n1,
\* delete n1 once its out-edge was deleted or re-parented away and its in-edge deleted
MC_CandU_edge == {<<5, "w0", "n1">>, <<4, "w0", "n2">>, <<6, "w0", "n0">>, <<11, "w0", "n0">>, <<9, "w0", "n1">>}
\* the quick tier's edge universe (no SetEdgeAtom)
MC_CandU_edgeq == MC_CandU_edge \ {<<6, "w0", "n0">>}
\* larger mixes for the thorough tier
MC_CandU_mix  == {<<13, "w0", "n0">>, <<9, "w0", "n2">>, <<7, "w0", "n0">>, <<3, "w0", "n2">>, <<8, "w0", "n0">>,
                  <<5, "w0", "n1">>, <<4, "w0", "n2">>}
MC_CandU_edge6 == MC_CandU_edge \cup {<<4, "w0", "n1">>}
\* chain pre-state: e0: n2 -> n1, e1: n0 -> n2 (everything reachable through the edges the ticks change)
MC_CandU_chain == {<<5, "w0", "n2">>, <<11, "w0", "n0">>, <<9, "w0", "n1">>, <<9, "w0", "n2">>, <<4, "w0", "n1">>,
                   <<7, "w0", "n0">>}
\* descended instance (hubportal pre-state): ticks inside w1 read the portal slot of the descent chain
MC_CandU_portal == {<<1, "w1", "n0">>, <<4, "w1", "n1">>, <<5, "w1", "n0">>, <<9, "w1", "n1">>, <<2, "w0", "n0">>}

\* failing commits: DelNodeIso n2 while e2 still enters n2 emits a DeleteNode that cannot apply; with the DeleteEdge of
\* another rewrite sorted before it the failure happens AFTER an op was applied
MC_CandU_fail == {<<5, "w0", "n1">>, <<9, "w0", "n2">>, <<13, "w0", "n0">>, <<2, "w0", "n2">>}

MC_AbortSets_one == {{<<7, "w0", "n0">>, <<2, "w0", "n1">>}}
MC_AbortSets_two == {{<<7, "w0", "n0">>, <<2, "w0", "n1">>}, {<<9, "w0", "n2">>, <<5, "w0", "n1">>}}
MC_AbortSets_portal == {{<<1, "w1", "n0">>, <<2, "w0", "n0">>}}

\* ---- pre-states (the ones of MC_C01) -------------------------------------
Build(ops) == ApplyOps(EmptyState, ops).s
Base == <<OpUpsertInst("w0", "n0", None), OpUpsertNode("w0", "n0", "tA"), OpUpsertNode("w0", "n1", "tA")>>
PreState(name) ==
  CASE name = "plain"  -> Build(Base)
    [] name = "edges"  -> Build(Base \o <<OpUpsertNode("w0", "n2", "tA"),
                                          OpUpsertEdge("w0", "e0", "n1", "n0", "tA"),
                                          OpSetAtt(EAtt("w0", "e0"), Atom("p0")),
                                          OpSetAtt(NAtt("w0", "n1"), Atom("p0"))>>)
    [] name = "chain"  -> Build(Base \o <<OpUpsertNode("w0", "n2", "tB"),
                                          OpUpsertEdge("w0", "e0", "n2", "n1", "tB"),
                                          OpUpsertEdge("w0", "e1", "n0", "n2", "tA"),
                                          OpSetAtt(NAtt("w0", "n2"), Atom("p1")),
                                          OpSetAtt(EAtt("w0", "e0"), Atom("p1"))>>)
    [] name = "portal" -> Build(Base \o <<OpOpenPortal(NAtt("w0", "n1"), "w1", "n0", <<"empty", "tA">>),
                                          OpUpsertNode("w1", "n1", "tB"),
                                          OpUpsertEdge("w1", "e0", "n0", "n1", "tA")>>)
    \* edges + hub edges from the root, so that n1, n2 and the edge e0 leaving n1 are reachable
    [] name = "hub"    -> Build(Base \o <<OpUpsertNode("w0", "n2", "tA"),
                                          OpUpsertEdge("w0", "e0", "n1", "n0", "tA"),
                                          OpUpsertEdge("w0", "e1", "n0", "n1", "tB"),
                                          OpUpsertEdge("w0", "e2", "n0", "n2", "tA"),
                                          OpSetAtt(EAtt("w0", "e0"), Atom("p0")),
                                          OpSetAtt(NAtt("w0", "n1"), Atom("p0"))>>)
    \* portal hung off the root: w1 is reachable through n0 -e1-> n1 => Descend(w1)
    [] name = "hubportal" -> Build(Base \o <<OpUpsertEdge("w0", "e1", "n0", "n1", "tB"),
                                          OpOpenPortal(NAtt("w0", "n1"), "w1", "n0", <<"empty", "tA">>),
                                          OpUpsertNode("w1", "n1", "tB"),
                                          OpUpsertEdge("w1", "e0", "n0", "n1", "tA")>>)

\* ---- macro steps ----------------------------------------------------------
Step(kind, S, k) == [kind |-> kind, cands |-> S, k |-> k]
NTicks  == Len(eng.ledger)
NOf(kind) == Len(SelectSeq(script, LAMBDA st : st.kind = kind))

Init == /\ preName \in PreNames /\ eng = NewEngine(PreState(preName))
        /\ script = <<>> /\ lastKind = "init"

TickStep(S) ==
  /\ NTicks < MaxTicks
  /\ Cardinality(S) <= IF NOf("abort") > 0 THEN MaxCandsA ELSE MaxCands
  /\ \A c \in S : Matches(c, eng.state)
  /\ LET tx  == NewTx(eng)
         e2  == DoApplyAll(DoBegin(eng), tx, S)
         rec == TickRecord(e2, tx)                \* the oracle is evaluated once per candidate set
     IN /\ rec.ok                                 \* = CommitOk(e2, tx)
        /\ eng' = CommitWith(e2, tx, rec)         \* = DoCommit(e2, tx)
  /\ script' = Append(script, Step("tick", S, 0))
  /\ lastKind' = "tick" /\ UNCHANGED preName

\* candidates of an aborted transaction that do not match are NoMatch calls (nothing enqueued)
AbortStep(S) ==
  /\ NOf("abort") < MaxAborts
  /\ \A i \in 1..Len(script) : Cardinality(script[i].cands) <= MaxCandsA
  /\ LET tx == NewTx(eng) IN eng' = DoAbort(DoApplyAll(DoBegin(eng), tx, S), tx)
  /\ script' = Append(script, Step("abort", S, 0))
  /\ lastKind' = "abort" /\ UNCHANGED preName

\* jump_to_tick(k) with the history continuing afterwards (the ledger is NOT truncated)
JumpStep(k) ==
  /\ NOf("jump") < MaxJumps /\ NTicks < MaxTicks /\ lastKind = "tick"
  /\ k \in 1..NTicks /\ JumpTo(eng, k).ok
  /\ eng' = DoJump(eng, k)
  /\ script' = Append(script, Step("jump", {}, k))
  /\ lastKind' = "jump" /\ UNCHANGED preName

\* a transaction whose accepted rewrites emit ops that do not apply together: commit_with_receipt returns Err and
\* the caller aborts the transaction
FailStep(S) ==
  /\ NOf("fail") < MaxFails /\ NTicks < MaxTicks
  /\ \A c \in S : Matches(c, eng.state)
  /\ LET tx == NewTx(eng)
         e2 == DoApplyAll(DoBegin(eng), tx, S)
     IN /\ ~CommitOk(e2, tx)
        /\ eng' = DoAbort(DoFailedCommit(e2, tx), tx)
  /\ script' = Append(script, Step("fail", S, 0))
  /\ lastKind' = "fail" /\ UNCHANGED preName

TickSets == {S \in SUBSET CandU : Cardinality(S) <= MaxCands}
Next == \/ \E S \in TickSets : TickStep(S) \/ FailStep(S)
        \/ \E S \in AbortSets : AbortStep(S)
        \/ \E k \in 1..MaxTicks : JumpStep(k)
Spec == Init /\ [][Next]_vars

\* ---- the script as a function (used for the abort law) ------------------------
RECURSIVE RunScript(_, _, _)
RunScript(e, sc, i) ==
  IF i > Len(sc) THEN e
  ELSE LET st == sc[i]  tx == NewTx(e)
       IN CASE st.kind = "tick"  -> RunScript(DoCommit(DoApplyAll(DoBegin(e), tx, st.cands), tx), sc, i + 1)
            [] st.kind = "abort" -> RunScript(DoAbort(DoApplyAll(DoBegin(e), tx, st.cands), tx), sc, i + 1)
            [] st.kind = "fail"  -> RunScript(DoAbort(DoFailedCommit(DoApplyAll(DoBegin(e), tx, st.cands), tx), tx), sc, i + 1)
            [] st.kind = "jump"  -> RunScript(DoJump(e, st.k), sc, i + 1)
\* everything but transaction numbers
StripTx(e) == [state |-> e.state, last |-> e.last, u0 |-> e.u0,
               ledger |-> [k \in 1..Len(e.ledger) |-> [e.ledger[k] EXCEPT !.tx = 0]]]

\* ---- properties ---------------------------------------------------------------
Inv_PatchStep   == PatchStepLaw(eng)
Inv_Linear      == LinearLaw(eng)
Inv_Jump        == JumpLaw(eng)
Inv_Chain       == ChainLaw(eng)
Inv_WellFormed  == WellFormed(eng.state) /\ \A k \in 1..NTicks : WellFormed(eng.ledger[k].post)
Inv_TxBook      == eng.live = {} /\ DOMAIN eng.pend = {} /\ eng.txc = NOf("tick") + NOf("abort") + NOf("fail")
\* the step machine is the functional fold of its script
\* (evaluated on complete histories; the ledger of a complete history contains every prefix)
Inv_ScriptFold  == (NTicks = MaxTicks /\ NOf("abort") + NOf("fail") = 0) => eng = RunScript(NewEngine(PreState(preName)), script, 1)
\* an aborted transaction leaves no trace: (a) the step itself changes nothing but the tx counter ...
Prop_AbortNoTrace == [][lastKind' \in {"abort", "fail"} => (SameButTx(eng, eng') /\ eng'.txc = eng.txc + 1)]_vars
\* ... (b) the whole history is, up to tx numbers, the history of the script without its aborted transactions
Inv_AbortInvisible ==
  (NTicks = MaxTicks /\ NOf("abort") + NOf("fail") > 0) =>
  StripTx(eng) = StripTx(RunScript(NewEngine(PreState(preName)), SelectSeq(script, LAMBDA st : st.kind \notin {"abort", "fail"}), 1))
Inv_SliceDefs    == SliceDefsAgree(eng)
Inv_SliceWeak    == SliceWeak(eng)
Inv_SliceTheorem == SliceTheorem(eng)
Inv_Unproduced   == UnproducedKeepsU0(eng)

\* ---- export -----------------------------------------------------------------
AttJson(v)  == IF v = None THEN [k |-> "none"] ELSE IF v[1] = "atom" THEN [k |-> "atom", p |-> v[2]] ELSE [k |-> "desc", w |-> v[2]]
KeyJson(k)  == [o |-> k[1], w |-> k[2], id |-> k[3]]
ParentJson(p) == IF p = None THEN [o |-> "none"] ELSE KeyJson(p)
StateJson(s) ==
  [inst |-> {[w |-> w, root |-> s.inst[w].root, parent |-> ParentJson(s.inst[w].parent)] : w \in DOMAIN s.inst},
   node |-> {[w |-> k[1], n |-> k[2], ty |-> s.node[k], att |-> AttJson(Get(s.natt, k))] : k \in DOMAIN s.node},
   edge |-> {[w |-> k[1], e |-> k[2], from |-> s.edge[k].from, to |-> s.edge[k].to, ty |-> s.edge[k].ty,
              att |-> AttJson(Get(s.eatt, k))] : k \in DOMAIN s.edge}]
\* the content the state root commits to
CanonJsonOf(c) ==
     [root |-> [w |-> c.root[1], n |-> c.root[2]],
      inst |-> {[w |-> w, root |-> c.insts[w].root, parent |-> ParentJson(c.insts[w].parent)] : w \in DOMAIN c.insts},
      node |-> {[w |-> k[1], n |-> k[2], ty |-> c.nodes[k][1], att |-> AttJson(c.nodes[k][2])] : k \in DOMAIN c.nodes},
      edge |-> {[w |-> k[1], e |-> k[2], from |-> c.edges[k][1].from, to |-> c.edges[k][1].to, ty |-> c.edges[k][1].ty,
                 att |-> AttJson(c.edges[k][2])] : k \in DOMAIN c.edges}]
OpJson(o) ==
  CASE o.op = "OpenPortal" -> [op |-> o.op, key |-> KeyJson(o.key), child |-> o.child, croot |-> o.croot,
                               init |-> o.init[1], ty |-> IF o.init[1] = "empty" THEN o.init[2] ELSE "none"]
    [] o.op = "UpsertWarpInstance" -> [op |-> o.op, w |-> o.w, root |-> o.root, parent |-> ParentJson(o.parent)]
    [] o.op = "DeleteWarpInstance" -> [op |-> o.op, w |-> o.w]
    [] o.op = "UpsertNode" -> [op |-> o.op, w |-> o.w, n |-> o.n, ty |-> o.ty]
    [] o.op = "DeleteNode" -> [op |-> o.op, w |-> o.w, n |-> o.n]
    [] o.op = "UpsertEdge" -> [op |-> o.op, w |-> o.w, e |-> o.e, from |-> o.from, to |-> o.to, ty |-> o.ty]
    [] o.op = "DeleteEdge" -> [op |-> o.op, w |-> o.w, from |-> o.from, e |-> o.e]
    [] o.op = "SetAttachment" -> [op |-> o.op, key |-> KeyJson(o.key), value |-> AttJson(o.value)]
CandJson(c) == [r |-> c[1], w |-> c[2], n |-> c[3]]
CandSeqJson(S) == LET sq == SetToSortSeq(S, CandLess) IN [k \in 1..Len(sq) |-> CandJson(sq[k])]
SlotJson(s) == IF s[1] = "att" THEN [k |-> "att", o |-> s[2], w |-> s[3], id |-> s[4]]
               ELSE [k |-> s[1], o |-> "", w |-> s[2], id |-> s[3]]
TickJson(k) ==
  LET t == eng.ledger[k]  j == JumpTo(eng, k)
  IN [tx |-> t.tx, cands |-> CandSeqJson(t.cands),
      order |-> [x \in 1..Len(t.order) |-> CandJson(t.order[x])], acc |-> t.acc,
      post |-> StateJson(t.post), canon |-> CanonJsonOf(t.canon),
      patch |-> [x \in 1..Len(t.patch) |-> OpJson(t.patch[x])],
      ins |-> {SlotJson(s) : s \in t.inSlots}, outs |-> {SlotJson(s) : s \in t.outSlots},
      linear |-> (t.pre = StateAfter(eng, k - 1)),
      jumpOk |-> j.ok, jumpSame |-> (j.ok /\ j.s = t.post)]
SliceJson(slot) ==
  LET sl == SliceFor(eng.ledger, slot)
      r  == Replay(eng.u0, PatchesOf(eng.ledger, SetToSortSeq(sl, LAMBDA a, b : a < b)))     \* = SliceReplay(eng, slot)
  IN [slot |-> SlotJson(slot), ticks |-> sl, ok |-> r.ok,
      same |-> (r.ok /\ SlotValue(r.s, slot) = SlotValue(FinalState(eng), slot))]
\* slots of instances that exist somewhere in the history (others are trivially unproduced and absent)
LiveWarps == DOMAIN eng.u0.inst \cup UNION {DOMAIN eng.ledger[k].post.inst : k \in 1..NTicks}
SlotWarp(s) == IF s[1] = "att" THEN s[3] ELSE s[2]
CaseJson ==
  [preName |-> preName, pre |-> StateJson(eng.u0), canon0 |-> CanonJsonOf(Canon(eng.u0, Root)),
   prog |-> [k \in 1..Len(Prog) |-> Prog[k]],
   descent |-> [w \in DOMAIN eng.u0.inst |-> {KeyJson(k) : k \in DescentOf(eng.u0, w)}],
   steps |-> [i \in 1..Len(script) |-> [kind |-> script[i].kind, cands |-> CandSeqJson(script[i].cands), k |-> script[i].k]],
   ticks |-> [k \in 1..NTicks |-> TickJson(k)],
   slices |-> {SliceJson(s) : s \in {x \in AllSlots : SlotWarp(x) \in LiveWarps}},
   txc |-> eng.txc]
Inv_Export == (Export /\ NTicks = MaxTicks) => PrintT(<<"CASE", ToJson(CaseJson)>>)
=============================================================================
