---------------------------- MODULE MC_C14attr ----------------------------
(***************************************************************************)
(* C14, last sentence: "the write targets attributed to each kind of       *)
(* operation cover every location whose observable content the operation   *)
(* can change".  For every state of the bounded universe and every op that *)
(* applies to it, Touched(s, op) (locations whose observable content       *)
(* differs after the op: node record + its outgoing-edge list, edge        *)
(* record/existence, node and edge attachments) is compared with           *)
(* Attributed(op) (transcription of footprint_guard.rs op_write_targets).  *)
(* Uncovered (op, location) pairs are EXPORTED, not asserted: the runner   *)
(* classifies them against known_findings.json, and the harness recomputes *)
(* them on the real store with the real op_write_targets.                  *)
(***************************************************************************)
EXTENDS GraphGen

VARIABLES s
vars == <<s>>
Init == s = S0
Next == StepOf(s, s')
Spec == Init /\ [][Next]_vars

OpUniverse(st) ==
  LET W == DOMAIN st.inst
  IN    {OpUpsertNode(w, n, t) : w \in W, n \in Nodes, t \in NodeTypes}
   \cup {OpDeleteNode(w, n) : w \in W, n \in Nodes}
   \cup {OpUpsertEdge(w, e, f, t, ty) : w \in W, e \in Edges, f \in Nodes, t \in Nodes, ty \in EdgeTypes}
   \cup {OpDeleteEdge(w, f, e) : w \in W, f \in Nodes, e \in Edges}
   \cup {OpSetAtt(NAtt(w, n), v) : w \in W, n \in Nodes, v \in {Atom(p) : p \in Atoms} \cup {None}}
   \cup {OpSetAtt(EAtt(w, e), v) : w \in W, e \in Edges, v \in {Atom(p) : p \in Atoms} \cup {None}}
   \cup {OpOpenPortal(NAtt(w, n), cw, RootNode, <<"empty", t>>) : w \in W, n \in Nodes, cw \in ChildWarps, t \in NodeTypes}
   \cup {OpDeleteInst(w) : w \in W \ {RootWarp}}

\* classification of an uncovered location relative to the op
LocClass(o, l) ==
  CASE l[1] = "node" /\ o.op \in {"UpsertEdge", "DeleteEdge"} /\ l[3] # o.from -> "node:other_than_declared_from"
    [] l[1] = "node" /\ o.op \in {"OpenPortal", "DeleteWarpInstance"} -> "node:in_affected_instance"
    [] l[1] = "edge" /\ o.op = "DeleteWarpInstance" -> "edge:in_affected_instance"
    [] l[1] \in {"n", "e"} /\ o.op = "DeleteWarpInstance" -> "attachment:in_affected_instance"
    [] OTHER -> l[1] \o ":unclassified"

UncoveredPairs(st) == {<<ol[1].op, LocClass(ol[1], ol[2])>> :
                         ol \in {<<x, y>> \in OpUniverse(st) \X AllLocs : ApplyOp(st, x).ok /\ y \in Touched(st, x) \ Attributed(x)}}

Inv_WellFormed == WellFormed(s)
CaseJson == [s |-> StateJson(s), uncovered |-> {[op |-> u[1], loc |-> u[2]] : u \in UncoveredPairs(s)}]
Inv_Export == Export => PrintT(<<"CASE", ToJson(CaseJson)>>)
=============================================================================
