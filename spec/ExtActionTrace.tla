--------------------------- MODULE ExtActionTrace ---------------------------
(***************************************************************************)
(* C17 trace validation (impl -> spec).  The seeded random driver          *)
(* (harness/src/c17.rs, `c17 trace`) runs long interleavings of            *)
(* record/claim/settle/retry/observe/recover with valid and invalid        *)
(* arguments, store faults and crashes over many request ids against the   *)
(* real coordinator, and logs one event per fine-grained action of         *)
(* ExtAction.tla:                                                          *)
(*   call    {o, r, v, res}  res = result class, or "DURABLE" when the call *)
(*           went on to the store; a completed call also logs rdy, lp, dp  *)
(*   append / flush          the store calls that took effect              *)
(*   ret     {rdy, lp, dp}   the durable call returned Ok                  *)
(*   fault   {phase, mode}   the store call failed before/after its effect *)
(*   crash   {phase, keep}   the process stopped inside the durable call   *)
(*   recover {res, lp, ncommit}  WAL recovery + coordinator recovery       *)
(*   observe {acc}           accessor result classes for every request id  *)
(*   reset                   a new run starts from the empty log           *)
(* lp = live postures, dp = postures a recovery of the durable log yields, *)
(* both for every request id.  Every logged field is bound.                *)
(***************************************************************************)
EXTENDS ExtAction, Json, IOUtils

VARIABLE l
tvars == <<seg, synced, co, pend, nextTx, issued, hist, l>>

\* The trace is parsed once (register 17 is set by the main thread before the single worker
\* starts); a plain definition would be re-evaluated - and the file re-read - on every use.
ASSUME TLCSet(17, ndJsonDeserialize(IOEnv.TRACE))
Rec == TLCGet(17)
Ev  == Rec[l]
IsEvent(e) == l <= Len(Rec) /\ Rec[l].event = e /\ l' = l + 1
Durable(s) == Posts(Rebuild(Truncate(s)).idx)
PostOk == /\ Posts(co'.idx) = Ev.lp
          /\ Durable(seg') = Ev.dp
          /\ (co'.alive /\ co'.ready) = Ev.rdy

TInit == Init /\ l = 1

TCall == /\ IsEvent("call")
         /\ Call(Ev.o, Ev.r, Ev.v)
         /\ Decide(Ev.o, Ev.r, Ev.v) = Ev.res
         /\ (Ev.res # "DURABLE") => PostOk
TObserve == /\ IsEvent("observe")
            /\ Observe
            /\ \A r \in Reqs : Accessors(co, r) = Ev.acc[r]
TAppend == IsEvent("append") /\ AppendFrame
TFlush  == IsEvent("flush") /\ FlushCommit
TRet    == IsEvent("ret") /\ Return /\ PostOk
TFault  == /\ IsEvent("fault")
           /\ pend # None /\ pend.phase = Ev.phase
           /\ StoreFault(Ev.mode)
           /\ PostOk
TCrash  == /\ IsEvent("crash")
           /\ pend # None /\ pend.phase = Ev.phase
           /\ Crash(Ev.keep)
           /\ Durable(seg') = Ev.dp
TRecover == /\ IsEvent("recover")
            /\ Recover
            /\ (IF HasTail(seg) THEN "WalTailNotClean" ELSE "Ok") = Ev.res
            /\ Posts(co'.idx) = Ev.lp
            /\ Len(Commits(seg')) = Ev.ncommit
TReset == /\ IsEvent("reset")
          /\ seg' = <<>> /\ synced' = 0
          /\ co' = [alive |-> TRUE, ready |-> TRUE, idx |-> EmptyIdx, root |-> RootOf(EmptyIdx), lsn |-> 0, last |-> 0]
          /\ pend' = None /\ nextTx' = 1 /\ issued' = {} /\ hist' = <<>>

TNext == TCall \/ TObserve \/ TAppend \/ TFlush \/ TRet \/ TFault \/ TCrash \/ TRecover \/ TReset
TSpec == TInit /\ [][TNext]_tvars

Accepted ==
  LET d == TLCGet("stats").diameter - 1
  IN IF d = Len(Rec) THEN PrintT(<<"TRACE-ACCEPTED", d>>)
     ELSE PrintT(<<"TRACE-REJECTED", d + 1>>) /\ FALSE
=============================================================================
