--------------------------- MODULE SuffixTransport ---------------------------
(***************************************************************************)
(* TRANSPORT of history (the transport leg of C05): witnessed suffix       *)
(* bundles and boundary transition records.  Transcribed from              *)
(*   crates/warp-core/src/witnessed_suffix.rs  (ExportSuffixRequest,       *)
(*       export_suffix + boundary_witness_is_outside_export_bounds,        *)
(*       CausalSuffixBundle::new, derive_witnessed_suffix_shell_digest,    *)
(*       derive_causal_suffix_bundle_digest, import_suffix,                *)
(*       evaluate_witnessed_suffix_admission + the six obstruction         *)
(*       predicates, obstruction_source_ref, the outcome lattice           *)
(*       Admitted | Staged | Plural | Conflict | Obstructed,               *)
(*       WitnessedSuffixLocalAdmissionPosture)                             *)
(*   crates/warp-core/src/provenance_store.rs  (BtrPayload::validate,      *)
(*       BoundaryTransitionRecord::validate, build_btr, validate_btr)      *)
(*   crates/warp-core/src/cmd.rs (staged_import_suffix_result: what the    *)
(*       cmd/import_suffix_intent rule records)                            *)
(* on top of Provenance.tla's entry / commit-id / append / replay model.   *)
(*                                                                         *)
(* The code is "shape only": a bundle carries provenance COORDINATES       *)
(* (ProvenanceRef), the evaluator classifies, and both sides talk to the   *)
(* local evidence through two traits the embedder implements.  The model   *)
(* (and harness/src/c05s.rs, identically) closes the loop the way the      *)
(* trait documentation describes it:                                       *)
(*   exporter  = a provenance store; the export context answers from it;   *)
(*   package   = bundle + the ProvenanceEntry values the shell names + a   *)
(*               BTR over the same range (all of it is a VALUE in transit);*)
(*   importer  = a provenance store + the set of retained bundle digests;  *)
(*               the admission context answers from the store only         *)
(*               (Posture below: the small admission state machine);       *)
(*   import    = import_suffix, and for Admitted the entries are appended  *)
(*               through append validation and re-verified by replay on a  *)
(*               scratch copy which replaces the store only if every step  *)
(*               succeeds.                                                 *)
(* Hashes are injective constructors as in Provenance.tla.                 *)
(***************************************************************************)
EXTENDS Provenance

CONSTANTS WlRank(_),      \* byte order of the worldline ids (ProvenanceRef derives Ord: worldline, tick, commit hash)
          OtherWl(_)      \* some other registered worldline (for the "foreign basis" request edit)

RefOf(e) == Ref(e.w, e.tick, e.cid)
\* ProvenanceRef order.  Two refs that differ ONLY in the commit hash are ordered by the real hash bytes, which the
\* model does not know: the catalogue never produces such neighbours (Inv_NoHashOrderNeeded in the MC module).
RefLess(a, b) == WlRank(a.w) < WlRank(b.w) \/ (a.w = b.w /\ a.tick < b.tick)
HashOrderFree(a, b) == a = b \/ a.w # b.w \/ a.tick # b.tick
FirstIdx(S) == IF S = {} THEN 0 ELSE CHOOSE i \in S : \A j \in S : i <= j
RefsHashOrderFree(s) == \A i, j \in 1..Len(s) : i < j => HashOrderFree(s[i], s[j])

\* refs.sort_unstable() (insertion sort; ties are equal values by the assumption above)
RECURSIVE InsertRef(_, _)
InsertRef(s, r) == IF s = <<>> THEN <<r>> ELSE IF RefLess(r, s[1]) THEN <<r>> \o s ELSE <<s[1]>> \o InsertRef(Tail(s), r)
RECURSIVE SortRefs(_)
SortRefs(s) == IF s = <<>> THEN <<>> ELSE InsertRef(SortRefs(Tail(s)), s[1])
HasDup(s) == \E i \in 1..(Len(s) - 1) : s[i] = s[i + 1]

\* an entry table holds the commit a ref names
Held(es, r) == r.w \in DOMAIN es /\ r.tick >= 0 /\ r.tick + 1 <= Len(es[r.w]) /\ es[r.w][r.tick + 1].cid = r.cid

\* ---------------------------------------------------------------- digests (injective constructors)
\* derive_witnessed_suffix_shell_digest: domain tag + canonical CBOR of the ABI shell with the witness_digest claim
\* cleared.  A basis report enters through its ABI projection only (SettlementBasisReport: anchor, child worldline,
\* suffix ticks, realized parent ref, the two slot COUNTS, the revalidation state); StrandBasisReport.strand_id and the
\* identities of the footprint slots are not part of the transported shell.  The model's report = [realized, tag]
\* (tag stands for the rest of the projection).
ShellDigest(sh) == <<"shell", sh.w, sh.start, sh.end, sh.refs, sh.bw, sh.report>>
\* derive_causal_suffix_bundle_digest(base_frontier, target_frontier, shell): covers the shell's witness_digest CLAIM
BundleDigest(base, to, wd) == <<"bundle", base, to, wd>>
ExportObsDigest(req) == <<"xobs", req.w, req.base, req.to, req.report # None>>

\* ---------------------------------------------------------------- export_suffix
\* req = [w, base, to (None | Ref), report (None | report)];  ctxEntries / ctxBw = what the export context's
\* source_entries / boundary_witness return for the request (None = no answer).
BwOutside(bw, w, base, to) ==
  \/ bw.w # w
  \/ bw.tick < base.tick \/ bw.tick > to.tick
  \/ (bw.tick = base.tick /\ bw # base)
  \/ (bw.tick = to.tick /\ bw # to)

MkBundle(base, to, sh0) ==
  LET sh == [sh0 EXCEPT !.wd = ShellDigest(sh0)]
  IN [base |-> base, to |-> to, shell |-> sh, bd |-> BundleDigest(base, to, sh.wd)]

ExportSuffix(req, ctxEntries, ctxBw) ==
  LET obs == [ok |-> FALSE, src |-> req.base, residual |-> "Obstructed", ev |-> ExportObsDigest(req)]
  IN IF req.base.w # req.w THEN obs
     ELSE IF req.to # None /\ (req.to.w # req.w \/ req.to.tick < req.base.tick) THEN obs
     ELSE IF ctxEntries = None THEN obs
     ELSE LET srt == SortRefs(ctxEntries)
              n == Len(srt)
          IN IF HasDup(srt) THEN obs
             ELSE IF n = 0 /\ ctxBw = None THEN obs
             ELSE IF \E i \in 1..n : \/ srt[i].w # req.w
                                     \/ srt[i].tick <= req.base.tick
                                     \/ (req.to # None /\ srt[i].tick > req.to.tick) THEN obs
             ELSE LET frontierOk == IF req.to = None THEN TRUE
                                    ELSE IF n > 0 THEN srt[n] = req.to ELSE req.to = req.base
                      derived == IF req.to # None THEN req.to ELSE IF n > 0 THEN srt[n] ELSE req.base
                  IN IF ~frontierOk THEN obs
                     ELSE IF ctxBw # None /\ BwOutside(ctxBw, req.w, req.base, derived) THEN obs
                     ELSE [ok |-> TRUE,
                           bundle |-> MkBundle(req.base, derived,
                                        [w |-> req.w, start |-> IF n > 0 THEN srt[1].tick ELSE req.base.tick,
                                         end |-> IF n > 0 THEN srt[n].tick ELSE None, refs |-> srt, bw |-> ctxBw,
                                         wd |-> <<"zero">>, report |-> req.report])]

\* The provenance-backed export context (harness: ExportCtx): the coordinates of the store's entries after the base
\* frontier up to the requested frontier (the tip when none is given); no answer unless base and requested frontier
\* are commits the store holds on the source worldline ("rooted at a known source frontier").
HonestSourceEntries(es, req) ==
  IF req.w \notin DOMAIN es \/ ~Held(es, req.base) \/ req.base.w # req.w THEN None
  ELSE IF req.to # None /\ (~Held(es, req.to) \/ req.to.w # req.w) THEN None
  ELSE LET hi == IF req.to = None THEN Len(es[req.w]) - 1 ELSE req.to.tick
       IN [i \in 1..(IF hi > req.base.tick THEN hi - req.base.tick ELSE 0) |-> RefOf(es[req.w][req.base.tick + 1 + i])]

\* ---------------------------------------------------------------- evaluate_witnessed_suffix_admission
SuffixBoundsInconsistent(sh) == IF sh.end = None THEN FALSE ELSE sh.end < sh.start
EntryOutsideIdx(sh) ==
  FirstIdx({i \in 1..Len(sh.refs) : sh.refs[i].tick < sh.start \/ (IF sh.end = None THEN FALSE ELSE sh.refs[i].tick > sh.end)})
ForeignIdx(sh) == FirstIdx({i \in 1..Len(sh.refs) : sh.refs[i].w # sh.w})
\* windows(2).find_map(|pair| (pair[0] >= pair[1]).then_some(pair[1]))
NonCanonIdx(sh) ==
  LET i == FirstIdx({i \in 1..(Len(sh.refs) - 1) : ~RefLess(sh.refs[i], sh.refs[i + 1])}) IN IF i = 0 THEN 0 ELSE i + 1
\* source_entry_obstruction_ref: outside bounds, else foreign worldline, else non canonical
ObstructionIdx(sh) ==
  IF EntryOutsideIdx(sh) # 0 THEN EntryOutsideIdx(sh) ELSE IF ForeignIdx(sh) # 0 THEN ForeignIdx(sh) ELSE NonCanonIdx(sh)
WitnessMissing(sh) == sh.refs = <<>> /\ sh.bw = None

\* obstruction_source_ref, as a descriptor the harness resolves on the real (tampered) shell
ObsSrc(areq, oi) ==
  IF oi # 0 THEN [k |-> "entry", i |-> oi - 1]
  ELSE IF areq.shell.bw # None THEN [k |-> "bw", i |-> 0]
  ELSE IF areq.shell.refs # <<>> THEN [k |-> "entry", i |-> 0]
  ELSE [k |-> "basis", i |-> 0]
ObsSrcRef(areq, d) == IF d.k = "entry" THEN areq.shell.refs[d.i + 1] ELSE IF d.k = "bw" THEN areq.shell.bw ELSE areq.basis

Obstructed(areq, dig, basis, oi, why) ==
  [digest |-> dig, basis |-> basis,
   out |-> [kind |-> "Obstructed", src |-> ObsSrcRef(areq, ObsSrc(areq, oi)), residual |-> "Obstructed", ev |-> dig],
   why |-> why, srcd |-> ObsSrc(areq, oi)]

\* areq = [shell, tw, basis, report]; the admission context is provenance backed: source_shell_digest = the locally
\* derived digest (always available), resolve_target_basis = the basis iff the importer's store `im` holds that commit,
\* local_admission_posture = Post(areq with the resolved basis).
Evaluate(areq, im, Post(_)) ==
  LET sh == areq.shell
      dig == ShellDigest(sh)
      res == IF Held(im, areq.basis) THEN areq.basis ELSE None
      rbasis == IF res = None THEN areq.basis ELSE res
      oi == ObstructionIdx(sh)
      rep == IF areq.report # None THEN areq.report ELSE sh.report            \* response_basis_report
      why == IF dig # sh.wd THEN "digest"
             ELSE IF res = None THEN "basis"
             ELSE IF SuffixBoundsInconsistent(sh) THEN "bounds"
             ELSE IF oi # 0 THEN "entry"
             ELSE IF WitnessMissing(sh) THEN "nowitness"
             ELSE IF rep # None /\ rep.realized # rbasis THEN "report"
             ELSE ""
  IN IF why # "" THEN Obstructed(areq, dig, rbasis, oi, why)
     ELSE LET p == Post([areq EXCEPT !.basis = rbasis])
          IN [digest |-> dig, basis |-> rbasis, why |-> "", srcd |-> [k |-> "none", i |-> 0],
              out |-> CASE p.kind = "Admissible" -> [kind |-> "Admitted", tw |-> areq.tw, refs |-> SortRefs(p.refs), report |-> rep]
                        [] p.kind = "Staged" -> [kind |-> "Staged", refs |-> SortRefs(p.refs), report |-> rep]
                        [] p.kind = "Plural" -> [kind |-> "Plural", refs |-> SortRefs(p.refs), residual |-> "PluralityPreserved", report |-> rep]
                        [] p.kind = "Conflict" -> [kind |-> "Conflict", reason |-> p.reason, src |-> p.src, ev |-> p.ev, overlap |-> None]]

\* import_suffix: req = [bundle, tw, basis, report]
ImportSuffix(req, im, Post(_)) ==
  LET b == req.bundle
      bd == BundleDigest(b.base, b.to, b.shell.wd)
      areq == [shell |-> b.shell, tw |-> req.tw, basis |-> req.basis, report |-> req.report]
  IN IF b.bd # bd
     THEN [bd |-> bd, adm |-> Obstructed(areq, ShellDigest(b.shell), req.basis, 0, "bundle_digest")]
     ELSE [bd |-> bd, adm |-> Evaluate(areq, im, Post)]

\* cmd.rs staged_import_suffix_result: what cmd/import_suffix_intent records for a request -- always Staged, the
\* request's own claims echoed, nothing verified, never Admitted
StagedIntentResult(req) ==
  [bd |-> req.bundle.bd, digest |-> req.bundle.shell.wd, basis |-> req.basis,
   out |-> [kind |-> "Staged", refs |-> IF req.bundle.shell.refs = <<>> THEN <<req.basis>> ELSE req.bundle.shell.refs, report |-> req.report]]

\* ---------------------------------------------------------------- local admission posture (the importer's state machine)
\* Evidence: the importer's store `im`, the bundle's base frontier `bf`, and the well-formed request (its basis IS a
\* commit the importer holds on the target worldline -- the evaluator resolved it; the posture trusts that contract).
\*   gap                 the importer has not reached the base frontier / the shell does not start right after it -> Staged
\*   basis mismatch      the importer holds another commit at the base coordinate -> Conflict(BaseDivergence) on the
\*                       source worldline itself, Conflict(UnsupportedImport) on any other target (fork lineage rule:
\*                       a bundle for A enters B's lineage only where B's own history IS A's up to the base)
\*   fork divergence     the importer already holds another commit at a suffix coordinate -> Conflict(BaseDivergence)
\*                       on the source worldline, Plural (both continuations of the shared base are lawful) on a sibling
\*   boundary only       no entries -> Staged on the boundary witness
\*   otherwise           Admissible with the target-local coordinates (already held ones included: re-import)
Rehome(r, tw) == [r EXCEPT !.w = tw]
Posture(im, bf, areq) ==
  LET T == areq.tw
      S == areq.shell.w
      refs == areq.shell.refs
      tipT == areq.basis.tick
      loc(t) == im[T][t + 1]
      div == FirstIdx({i \in 1..Len(refs) : refs[i].tick <= tipT /\ refs[i].tick >= 0 /\ loc(refs[i].tick).cid # refs[i].cid})
  IN IF areq.basis.w # T THEN [kind |-> "Conflict", reason |-> "UnsupportedImport", src |-> areq.basis, ev |-> <<"ev", "basis_worldline">>]
     ELSE IF bf.w # S THEN [kind |-> "Conflict", reason |-> "UnsupportedImport", src |-> bf, ev |-> <<"ev", "base_worldline">>]
     ELSE IF bf.tick > tipT THEN [kind |-> "Staged", refs |-> refs]
     ELSE IF loc(bf.tick).cid # bf.cid
          THEN [kind |-> "Conflict", reason |-> IF S = T THEN "BaseDivergence" ELSE "UnsupportedImport", src |-> bf, ev |-> <<"ev", "base">>]
     ELSE IF refs = <<>> THEN [kind |-> "Staged", refs |-> <<areq.shell.bw>>]
     ELSE IF \E i \in 1..Len(refs) : refs[i].tick # bf.tick + i THEN [kind |-> "Staged", refs |-> refs]
     ELSE IF div # 0
          THEN IF S = T THEN [kind |-> "Conflict", reason |-> "BaseDivergence", src |-> refs[div], ev |-> <<"ev", "entry">>]
               ELSE [kind |-> "Plural", refs |-> <<Rehome(refs[div], T), RefOf(loc(refs[div].tick))>>]
     ELSE [kind |-> "Admissible", refs |-> [i \in 1..Len(refs) |-> Rehome(refs[i], T)]]

\* ---------------------------------------------------------------- the importer
\* The request the importer forms: judged against its own tip of the target worldline; with an empty target
\* worldline there is no local coordinate and the bundle's base frontier is named (never resolvable).
TipRef(im, tw) == IF Len(im[tw]) = 0 THEN None ELSE RefOf(im[tw][Len(im[tw])])
MkImportRequest(im, bundle, tw) ==
  [bundle |-> bundle, tw |-> tw, basis |-> IF TipRef(im, tw) = None THEN Rehome(bundle.base, tw) ELSE TipRef(im, tw), report |-> None]

OutClass(o) == IF o.kind = "Conflict" THEN "conflict:" \o o.reason
               ELSE IF o.kind = "Admitted" THEN "admitted" ELSE IF o.kind = "Staged" THEN "staged"
               ELSE IF o.kind = "Plural" THEN "plural" ELSE "obstructed"

\* Import(target, package) for an explicit request: [class, im (the store afterwards), seen, res (the ImportSuffixResult)]
\*   class: obstructed | staged | plural | conflict:<reason>           nothing admitted, store untouched
\*          refused:<typed error>                                       admitted by the shell, refused by the chain
\*          admitted | duplicate                                        entries appended | nothing left to append
ImportWith(im, seen, pkg, req) ==
  LET tw == req.tw
      res == ImportSuffix(req, im, LAMBDA a : Posture(im, pkg.bundle.base, a))
      sh == pkg.bundle.shell
      ents == pkg.ents
      keep(c) == [class |-> c, im |-> im, seen |-> seen, res |-> res]
  IN IF res.adm.out.kind # "Admitted" THEN keep(OutClass(res.adm.out))
     \* the transported entries must be exactly the commits the shell names
     ELSE IF Len(ents) # Len(sh.refs) \/ (\E i \in 1..Len(sh.refs) : RefOf(ents[i]) # sh.refs[i]) THEN keep("refused:PackageEntryMismatch")
     \* coordinates the importer already holds must be the same commits (the posture only looked below the basis it was given)
     ELSE IF \E i \in 1..Len(ents) : ents[i].tick < Len(im[tw]) /\ im[tw][ents[i].tick + 1].cid # ents[i].cid THEN keep("refused:LocalHistoryDiverges")
     ELSE LET n0 == Len(im[tw])
              fresh == SelectSeq(ents, LAMBDA e : e.tick >= n0)
              homed == [i \in 1..Len(fresh) |-> IF tw = sh.w THEN fresh[i] ELSE RewriteForFork(fresh[i], sh.w, tw)]
              rb == RebuildFrom(im, tw, homed, 1)
              bad == FirstIdx({t \in (n0 + 1)..Len(rb.es[tw]) : ~ReplayIn(rb.es, [x \in DOMAIN rb.es |-> {}], tw, t).ok})
          IN IF ~rb.ok THEN keep("refused:" \o rb.err)
             ELSE IF bad # 0 THEN keep("refused:" \o ReplayIn(rb.es, [x \in DOMAIN rb.es |-> {}], tw, bad).err)
             ELSE [class |-> IF Len(fresh) = 0 THEN "duplicate" ELSE "admitted", im |-> rb.es, seen |-> seen \cup {res.bd}, res |-> res]

\* The importer's request can be tampered with as well (pkg.reqedit, "" = untouched): a basis it does not hold, an
\* older coordinate it does hold, a coordinate of another worldline, a basis report realized elsewhere / here.
ReqOf(im, pkg, tw) ==
  LET r == MkImportRequest(im, pkg.bundle, tw)
      e == pkg.reqedit
  IN CASE e = "" -> r
       [] e = "basis_unknown" -> [r EXCEPT !.basis.cid = Flip(@)]
       [] e = "basis_stale" -> IF r.basis.tick >= 1 /\ Len(im[tw]) >= r.basis.tick THEN [r EXCEPT !.basis = RefOf(im[tw][r.basis.tick])] ELSE r
       [] e = "basis_foreign" -> IF TipRef(im, OtherWl(tw)) = None THEN r ELSE [r EXCEPT !.basis = TipRef(im, OtherWl(tw))]
       [] e = "report_stale" -> [r EXCEPT !.report = [realized |-> [r.basis EXCEPT !.cid = Flip(@)], tag |-> "q"]]
       [] e = "report_match" -> [r EXCEPT !.report = [realized |-> r.basis, tag |-> "q"]]

ImportExec(im, seen, pkg, tw) == ImportWith(im, seen, pkg, ReqOf(im, pkg, tw))
EvalExec(im, pkg, tw) == ImportSuffix(ReqOf(im, pkg, tw), im, LAMBDA a : Posture(im, pkg.bundle.base, a))

\* ---------------------------------------------------------------- boundary transition records
\* rec = [w, u0, inH, outH, pw, start, ents, counter, tag]
InitialBoundary == RootOf(U0)
U0Ref == "w0"
\* BtrPayload::validate then BoundaryTransitionRecord::validate
BtrSelfVerdict(rec) ==
  LET es == rec.ents
      badw == FirstIdx({i \in 1..Len(es) : es[i].w # rec.pw})
      badt == FirstIdx({i \in 1..Len(es) : es[i].tick # rec.start + i - 1})
  IN IF es = <<>> THEN "EmptyPayload"
     ELSE IF es[1].w # rec.pw THEN "MixedWorldline"
     ELSE IF es[1].tick # rec.start THEN "NonContiguousTicks"
     ELSE IF badw # 0 /\ (badt = 0 \/ badw <= badt) THEN "MixedWorldline"
     ELSE IF badt # 0 THEN "NonContiguousTicks"
     ELSE IF rec.pw # rec.w THEN "WorldlineMismatch"
     ELSE IF rec.outH # es[Len(es)].root THEN "OutputBoundaryHashMismatch"
     ELSE "ok"

\* ProvenanceService::validate_btr against the entry table es
ValidateBtr(es, rec) ==
  LET self == BtrSelfVerdict(rec) IN
  IF self # "ok" THEN self
  ELSE IF rec.w \notin DOMAIN es THEN "UnknownWorldline"
  ELSE IF rec.u0 # U0Ref THEN "U0RefMismatch"
  ELSE IF rec.start > 0 /\ rec.start > Len(es[rec.w]) THEN "HistoryUnavailable"      \* entry(start - 1) lookup
  ELSE IF rec.inH # (IF rec.start = 0 THEN InitialBoundary ELSE es[rec.w][rec.start].root) THEN "InputBoundaryHashMismatch"
  ELSE LET bad == FirstIdx({i \in 1..Len(rec.ents) : \/ rec.ents[i].tick + 1 > Len(es[rec.w])
                                                      \/ es[rec.w][rec.ents[i].tick + 1] # rec.ents[i]})
       IN IF bad = 0 THEN "ok"
          ELSE IF rec.ents[bad].tick + 1 > Len(es[rec.w]) THEN "HistoryUnavailable" ELSE "EntryMismatch"

\* ProvenanceService::build_btr(w, a, b): entries a .. b-1
BuildBtr(es, w, a, b, counter, tag) ==
  IF w \notin DOMAIN es THEN [ok |-> FALSE, err |-> "WorldlineNotFound"]
  ELSE IF a >= b \/ b > Len(es[w]) THEN [ok |-> FALSE, err |-> "EmptyPayload"]
  ELSE LET rec == [w |-> w, u0 |-> U0Ref, inH |-> IF a = 0 THEN InitialBoundary ELSE es[w][a].root, outH |-> es[w][b].root,
                   pw |-> w, start |-> a, ents |-> SubSeq(es[w], a + 1, b), counter |-> counter, tag |-> tag]
       IN IF ValidateBtr(es, rec) = "ok" THEN [ok |-> TRUE, rec |-> rec] ELSE [ok |-> FALSE, err |-> ValidateBtr(es, rec)]

\* the history segment a record attests: everything but the reserved header fields
BtrSegment(rec) == [w |-> rec.w, u0 |-> rec.u0, inH |-> rec.inH, outH |-> rec.outH, pw |-> rec.pw, start |-> rec.start, ents |-> rec.ents]

\* ---------------------------------------------------------------- tampering (the package is a value in transit)
\* generic sequence edits (1-based)
SeqDrop(s, i) == [j \in 1..(Len(s) - 1) |-> IF j < i THEN s[j] ELSE s[j + 1]]
SeqInsert(s, i, x) == [j \in 1..(Len(s) + 1) |-> IF j < i THEN s[j] ELSE IF j = i THEN x ELSE s[j - 1]]
SeqSet(s, i, x) == [j \in 1..Len(s) |-> IF j = i THEN x ELSE s[j]]
SeqSwap(s, i, k) == [j \in 1..Len(s) |-> IF j = i THEN s[k] ELSE IF j = k THEN s[i] ELSE s[j]]
\* structural edits shared by ref lists and entry lists; `donor` = the element spliced in (None if unused)
StructEdit(s, variant, idx, donor) ==
  CASE variant = "drop" -> SeqDrop(s, idx)
    [] variant = "duplicate" -> SeqInsert(s, idx + 1, s[idx])
    [] variant = "dup_end" -> Append(s, s[idx])
    [] variant = "swap" -> SeqSwap(s, idx, idx + 1)
    [] variant = "truncate" -> SubSeq(s, 1, idx - 1)
    [] variant = "splice" -> SeqSet(s, idx, donor)
    [] variant = "append" -> Append(s, donor)

\* digests recomputed by whoever tampers (they are unkeyed): "raw" none, "shell" the witness digest, "all" both
Redigest(b, mode) ==
  LET b1 == IF mode \in {"shell", "all"} THEN [b EXCEPT !.shell.wd = ShellDigest(b.shell)] ELSE b
  IN IF mode = "all" THEN [b1 EXCEPT !.bd = BundleDigest(b1.base, b1.to, b1.shell.wd)] ELSE b1

\* ---------------------------------------------------------------- state machine
\* exporter store = `entries` (Provenance.tla).  `imp` the importer's entry table, `seen` its retained bundle digests,
\* `wire` the package (None before export), `phase`, `obs` the outcomes observed so far (a record
\* [export, tamper, tw, eval, exec, before, reimport, btr]).
VARIABLES imp, seen, wire, phase, obs
transportVars == <<imp, seen, wire, phase, obs>>

\* Export(w, from, to): the suffix (from, to] of worldline w, rooted at the entry with tick `from`; to = -1 leaves the
\* requested frontier open.  A BTR over the same ticks travels with it.
\* withReport: the request carries a basis report realized at the base frontier (copied into the shell)
RangeRequest(w, from, to, withReport) ==
  [w |-> w, base |-> RefOf(entries[w][from + 1]), to |-> IF to < 0 THEN None ELSE RefOf(entries[w][to + 1]),
   report |-> IF withReport THEN [realized |-> RefOf(entries[w][from + 1]), tag |-> "r"] ELSE None]
Export(w, from, to, bw, withReport) ==
  /\ phase = "idle"
  /\ w \in Worldlines /\ from + 1 <= Len0(w) /\ to + 1 <= Len0(w)
  /\ LET req == RangeRequest(w, from, to, withReport)
         x == ExportSuffix(req, HonestSourceEntries(entries, req), bw)
         hi == IF to < 0 THEN Len0(w) - 1 ELSE to
         btr == BuildBtr(entries, w, from + 1, hi + 1, 7, <<"tag">>)
     IN IF x.ok
        THEN /\ wire' = [bundle |-> x.bundle, ents |-> SubSeq(entries[w], from + 2, hi + 1), btr |-> IF btr.ok THEN btr.rec ELSE None, reqedit |-> ""]
             /\ phase' = "exported" /\ obs' = [obs EXCEPT !.export = "bundle"]
        ELSE /\ wire' = None /\ phase' = "obstructed" /\ obs' = [obs EXCEPT !.export = "obstructed"]
  /\ UNCHANGED <<imp, seen, storeVars, cursorVars>>

\* Transport: the package crosses the boundary as a value
Transport ==
  /\ phase = "exported" /\ phase' = "arrived"
  /\ UNCHANGED <<imp, seen, wire, obs, storeVars, cursorVars>>

\* Tamper: Edit(pkg) is the edited package (the MC module supplies the catalogue)
TamperWith(edited, tag) ==
  /\ phase = "arrived" /\ phase' = "tampered"
  /\ wire' = edited /\ obs' = [obs EXCEPT !.tamper = tag]
  /\ UNCHANGED <<imp, seen, storeVars, cursorVars>>

\* EvaluateAdmission(ctx, bundle): pure
EvaluateAdmission(tw) ==
  /\ phase \in {"arrived", "tampered"} /\ phase' = "evaluated"
  /\ obs' = [obs EXCEPT !.tw = tw, !.eval = EvalExec(imp, wire, tw)]
  /\ UNCHANGED <<imp, seen, wire, storeVars, cursorVars>>

\* Import(target, bundle)
Import ==
  /\ phase \in {"evaluated", "imported"}
  /\ LET r == ImportExec(imp, seen, wire, obs.tw)
     IN /\ imp' = r.im /\ seen' = r.seen
        /\ obs' = IF phase = "evaluated" THEN [obs EXCEPT !.exec = r.class, !.before = imp] ELSE [obs EXCEPT !.reimport = r.class]
  /\ phase' = IF phase = "evaluated" THEN "imported" ELSE "reimported"
  /\ UNCHANGED <<wire, storeVars, cursorVars>>

\* ValidateBtr: the record that travelled with the bundle, validated where the history is held (the exporter), on the
\* importer as it was before the import and as it is now.  (BuildBtr is part of Export: the record is cut over the
\* exported ticks.)
ValidateBtrStep ==
  /\ phase = "reimported" /\ phase' = "validated"
  /\ obs' = [obs EXCEPT !.btr = IF wire.btr = None THEN [holder |-> "none", before |-> "none", after |-> "none"]
                                ELSE [holder |-> ValidateBtr(entries, wire.btr), before |-> ValidateBtr(obs.before, wire.btr),
                                      after |-> ValidateBtr(imp, wire.btr)]]
  /\ UNCHANGED <<imp, seen, wire, storeVars, cursorVars>>

\* ---------------------------------------------------------------- properties of the machine
\* evaluation is pure; export and transport do not touch the importer; the exporter's store never changes
EvaluationPure == [][phase' \in {"exported", "obstructed", "arrived", "tampered", "evaluated", "validated"} => (imp' = imp /\ seen' = seen)]_<<transportVars, storeVars>>
ExporterUntouched == [][entries' = entries /\ ckpts' = ckpts]_<<transportVars, storeVars>>
\* an import either leaves the importer's store alone or extends exactly the target worldline (append only)
ImportAppendOnly ==
  [][phase' \in {"imported", "reimported"} =>
       \A x \in DOMAIN imp : x \in DOMAIN imp' /\ IsPrefix(imp[x], imp'[x]) /\ (x # obs.tw => imp'[x] = imp[x])]_<<transportVars, storeVars>>
\* import is idempotent: a second import of the same package changes nothing, and after an admission it is a duplicate
ImportIdempotent ==
  [][phase' = "reimported" =>
       /\ imp' = imp /\ seen' = seen /\ obs'.reimport # "admitted"
       \* after an admission: a duplicate -- unless the shell carries a basis report, which the first import made stale
       /\ (obs.exec \in {"admitted", "duplicate"} => \/ obs'.reimport = "duplicate"
                                                      \/ (obs'.reimport = "obstructed" /\ wire.bundle.shell.report # None))
       /\ (obs.exec \notin {"admitted", "duplicate"} => obs'.reimport = obs.exec)]_<<transportVars, storeVars>>
\* the importer never retains history that does not re-verify, and every retained worldline is a chain
ImporterVerifies ==
  phase \in {"imported", "reimported"} => \A t \in 0..Len(imp[obs.tw]) : ReplayIn(imp, [y \in DOMAIN imp |-> {}], obs.tw, t).ok
=============================================================================
