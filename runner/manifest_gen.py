#!/usr/bin/env python3
"""Generates /verif/MANIFEST.json from the table below (single source of truth) and
validates it against /root/.vp/MANIFEST.schema.json when jsonschema is importable."""
import json
import os
import sys

HERE = os.path.dirname(os.path.dirname(os.path.abspath(__file__)))

CHECKS = {
    "C01": dict(
        technique="TLC model checking of Tick.tla/MC_C01.tla (all enqueue orders and repetitions; outcome = oracle of the candidate set) + spec->impl replay into a real Engine on 4 configurations + model-derived metamorphic relation on real hashes per candidate set",
        text="TLC explores every enqueue sequence (order and repetition) over a candidate universe of data-driven rewrite programs with honest footprints on several multi-instance "
             "pre-states, through explicit Enqueue/Drain/Reserve/Commit actions, and proves the committed outcome equals a declarative oracle of the candidate SET (canonical greedy "
             "admission; post = pre patched by exactly the accepted effects evaluated at pre). Every behaviour is replayed into a real Engine (Radix/Legacy x 1/4 workers): receipt order, "
             "dispositions, blockers, post-state and patch replay must equal the oracle, and within each (pre-state, candidate set) group state root, patch digest, commit id, "
             "plan/decision/rewrites digests and receipt digest must be bit-identical. Several id salts explore several canonical key orders.",
        note="Bounded model (pre-states, candidate universe, sequence length); table-driven rules (harness/src/programs.rs) mirror spec/Tick.tla Prog; scope-hash order supplied by the harness; batch sizes beyond the 1024 threshold are covered by the C03 drain-order traces.",
        design="3 C01"),
    "C02": dict(
        technique="TLC model checking of ParallelExec.tla/MC_C02.tla (all Claim/Exec interleavings of W workers over (warp, shard) units) + spec->impl replay of every claim script into the real execute_work_queue via the claim hook + trace validation of real racing threads (ParallelExecTrace.tla) + policy matrix",
        text="TLC explores every interleaving of worker Claim/Exec steps over the shared claim counter (hence every unit-to-worker assignment and per-worker order) for every candidate subset of "
             "two multi-instance pre-states and proves claims partition the units and the merged ops / post-state equal the serial ones. Every distinct final (scenario, claim script) is scripted "
             "into the real work queue through Engine::commit_with_receipt with workers(n): the recorded claim log must equal the script, the post-state the model's, the patch must replay, and all "
             "scripts and worker counts of one (pre-state, candidate set) must give bit-identical hashes. Real racing threads (1..32 workers, up to ~2100 units, 3 instances) are validated from "
             "per-worker claim logs by a trace spec, and the five execution policies x 1..8 workers are compared with execute_serial by canonical patch digest.",
        note="Bounded scenarios for the exhaustive leg; claim hook (cfg echo_verif) substitutes scripted unit indices for counter draws and records claims; worker index = spawn order.",
        design="3 C02"),
    "C14": dict(
        technique="TLC model checking of ParallelExec.tla/MC_C02.tla with fault-injecting and under-declaring programs (every access kind, every op kind, every worker schedule) + scripted replay into the real enforced work queue + model/real comparison of op write-target attribution (MC_C14attr.tla, Graph.tla Touched/Attributed)",
        text="The ParallelExec model is run with violators (one undeclared node/adjacency/attachment/edge read, one undeclared write per op kind, cross-instance emission, instance-level ops, a plain "
             "panic, or a declaration missing one footprint class) placed among honest rewrites under every worker schedule; invariants: an accepted violator always poisons the tick and nothing "
             "becomes visible, honest rewrites are never flagged. Every (scenario, script) is replayed into the real enforced engine: the commit must fail with Engine::state() unchanged exactly when "
             "the model says so, and the violation kind is compared. The attribution sentence is decided by exporting, for every state and op, the locations whose observable content changes but "
             "are not attributed (model) and recomputing them on the real store with the real op_write_targets.",
        note="Enforcement compiled in (debug-assertions harness build); executor reads performed unconditionally in a fixed order; findings F3/F5 are listed in known_findings.json and printed as KNOWN-FINDING.",
        design="3 C14"),
    "C03": dict(
        technique="TLC model checking of Footprint.tla/Scheduler.tla/MC_C03.tla (all footprint-class tuples, Radix and Legacy in lock-step vs declarative greedy oracle) + spec->impl replay through the raw scheduler hook + trace validation of drain order (SchedulerTrace.tla)",
        text="TLC enumerates every pair (512^2 in thorough), triple and quadruple of footprint classes and proves on the model that the transcribed Radix and Legacy reserve "
             "loops equal the declarative canonical greedy independent set with exact, non-empty blocking witnesses, that a rejected candidate marks nothing, and that the three "
             "conflict predicates in the code are one symmetric relation; every enumerated tuple is then driven into the real DeterministicScheduler (both kinds, both enqueue "
             "orders) and reserve_for_receipt and must reproduce those decisions and witnesses. Drain order for adversarial key sets across the 1024 threshold is validated by a "
             "trace spec (strictly increasing lexicographic order of the last-wins key set).",
        note="One resource per class and two instances (conflicts depend only on key equality); hooks Engine::verif_enqueue_raw / verif_drain_reserve; raw rule ids are big-endian compact ids.",
        design="3 C03"),
    "C04": dict(
        technique="TLC model checking of Graph.tla/MC_C04.tla (all ordered state pairs) + spec->impl replay of every pair into diff_state/apply_to_state",
        text="Every ordered pair (a,b) of reachable well-formed states of bounded graph universes is visited by TLC; the patch law "
             "ApplyOps(a, Diff(a,b)) in {b} u Err is an invariant of the model, and each pair is rebuilt in the real store where the real "
             "diff_state + WarpTickPatchV1::apply_to_state outcome must be exactly b (projection, per-store hash, state root, accumulator root) "
             "or a typed error. Exhaustive within the stated constants; the right level because the law is over all state pairs.",
        note="Bounded universes (cfg constants); TLC; the harness projection; hooks verif::diff_state / upsert_instance / warp_ids.",
        design="3 C04"),
    "C06": dict(
        technique="TLC model checking of MC_C06.tla (Canon facts over all states) + model-derived metamorphic relation root(s1)=root(s2) <=> Canon(s1)=Canon(s2) on the real hashes",
        text="TLC enumerates every state of a bounded multi-instance universe containing reachable and unreachable content and exports Canon(s, root) "
             "(the value the root must commit to, transcribed from compute_state_root) for each candidate root; the harness builds each state in five "
             "construction orders and the runner requires root equality exactly when Canon is equal across ALL explored states, accumulator root = "
             "store-walking root, order-independent WSC bytes and WSC read-back denoting the same state. Hashes are abstract in the model, so the hash claim is "
             "decided as a model-derived relation on real hashes.",
        note="Bounded universe; BLAKE3 collision-freeness; hooks verif::legacy_state_root / accumulator_state_root / apply_ops.",
        design="3 C06"),
    "C18": dict(
        technique="TLC model checking of MC_C18.tla over Bus.tla (every emission order of every bounded token subset; finalize = order-free oracle of the emission set) + conformance replay into the real MaterializationBus (all n! orders for sets up to 7) + metamorphic relation on real bytes/digest/encodings + trace validation (BusTrace.tla) of seeded 8-40-emission runs",
        text="Bus.tla transcribes register/emit/finalize and the eight reducers on byte sequences and carries a second, declarative oracle defined on the emission SET (for commutative reducers on the payload BAG only). "
             "TLC walks every order of every subset (perm cfgs, repeated (channel,key) included) or every repeat-free subset (set cfgs) and checks that pending is the set of first arrivals, a repeat is rejected and changes "
             "nothing, and the report equals the oracle. Every finalized behaviour is exported with its predicted report and replayed on the real bus through ScopedEmitter; for set cfgs the harness replays all permutations. "
             "The runner decides the property on the real outcomes: same policies and same emission set give identical finalized bytes, conflicts, compute_emissions_digest, encode_frames and encode_v2_packet bytes; each "
             "(channel,key) is accepted exactly once and a rejected emit leaves no trace; commutative channels with the same payload bag give the same bytes whatever the keys. Seeded larger sets in several shuffles are logged "
             "and validated by BusTrace.tla.",
        note="Bounded universes (2-3 channels, <=6 keys, payload lengths 0,1,2,3,8,9); abstract keys/channels mapped by monotone tables; BLAKE3 collision-freeness; a conflicting repeat keeps the first arrival (emission set = set of first arrivals). No hook needed.",
        design="9.2 C18"),
}

NOT_APPLICABLE = {
    "C12": "Encode/decode bijectivity of byte codecs is a property of pure functions on byte strings, not of state and transitions; a TLA+ model would only re-implement each codec (DESIGN.md section 6).",
    "C13": "Totality of decoders (no panic/abort/stack overflow/non-termination/over-allocation on arbitrary bytes) is memory and resource behaviour of compiled code that a specification cannot observe (DESIGN.md section 6).",
    "C19": "Bit-exact float/fixed-point results across optimisation levels over 2^32 patterns is numeric/compiler behaviour; TLA+ has no floats (DESIGN.md section 6).",
}

PENDING = {}


def main():
    props = [json.loads(l)["id"] for l in open(os.path.join(HERE, "properties.jsonl"))]
    checks = []
    for pid in props:
        if pid not in CHECKS:
            continue
        c = CHECKS[pid]
        checks.append({
            "property_id": pid,
            "quick_cmd": f"./check {pid} --tier quick",
            "thorough_cmd": f"./check {pid} --tier thorough",
            "evidence_file": f"/verif/evidence/{pid}.json",
            "replay_cmd_template": f"./check {pid} --replay {{path}}",
            "engine": "tla-conformance",
            "level_claimed": {"category": c.get("category", "model_checking"), "text": c["text"], "design_ref": c["design"]},
            "level_note": c["note"],
            "technique": c["technique"],
        })
    na = [{"property_id": p, "reason": r} for p, r in NOT_APPLICABLE.items()]
    for pid in props:
        if pid not in CHECKS and pid not in NOT_APPLICABLE:
            na.append({"property_id": pid, "reason": PENDING.get(pid, "check not built yet in this round (planned in DESIGN.md section 3); not claimed until it exists")})
    man = {
        "version": 1,
        "setup_cmd": "./setup.sh",
        "hooks": {
            "guard": "--cfg echo_verif",
            "enable": "rustflags in /verif/harness/.cargo/config.toml: --cfg echo_verif (path dependency on /repo/crates/warp-core); hooks live in crates/warp-core/src/verif.rs, Engine::verif_* in engine_impl.rs and the claim hook in parallel/exec.rs",
            "baseline_off_cmd": "cd /repo && cargo nextest run --workspace --no-fail-fast --tool-config-file pb:/w/lib/nextest.toml --profile pb --test-threads 8 --offline",
            "source_commits": ["7094206", "e1752a2"],
            "add_only": True,
        },
        "engines": [{
            "name": "tla-conformance",
            "path": "/verif/check",
            "serves_properties": [c["property_id"] for c in checks],
            "kind_free_text": "TLA+ specification (spec/*.tla) model-checked with TLC; behaviours exported by TLC are replayed into the real warp-core/echo-cas objects by the Rust harness (harness/), and traces recorded by the harness are validated by TLC trace specs",
        }],
        "checks": checks,
        "not_applicable": na,
        "notes": "See DESIGN.md. known_findings.json lists repaired defects (fix: commits in /repo) and recorded findings.",
    }
    path = os.path.join(HERE, "MANIFEST.json")
    with open(path, "w") as f:
        json.dump(man, f, indent=1)
        f.write("\n")
    try:
        import jsonschema
        jsonschema.validate(man, json.load(open("/root/.vp/MANIFEST.schema.json")))
        print("MANIFEST.json valid;", len(checks), "checks,", len(na), "not_applicable")
    except ImportError:
        print("MANIFEST.json written (jsonschema not importable here)")


if __name__ == "__main__":
    sys.exit(main())
