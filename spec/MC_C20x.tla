------------------------------ MODULE MC_C20x ------------------------------
(* C20, export profiles: every (source record set, profile, tamper sequence) with the model's
   predicted import outcome, one CASE line each. *)
EXTENDS CasExport, Sequences, Json

Spec == XInit /\ [][XNext]_xvars

Inv_Export == phase = "imported" =>
  PrintT(<<"CASE", ToJson([kind |-> "export", subs |-> subs, mats |-> mats, profile |-> profile,
                           tampers |-> tampers, expect |-> result])>>)
=============================================================================
