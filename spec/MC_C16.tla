------------------------------- MODULE MC_C16 -------------------------------
(***************************************************************************)
(* Exhaustive small-scope check of Observe.tla (property C16).             *)
(*                                                                         *)
(* Two base worldlines and up to one fork child; histories of at most      *)
(* MaxLen entries; MaxG scheduler passes; every request of a finite        *)
(* request alphabet (every frame x projection pair incl. the invalid ones, *)
(* plan / instance / rights / budget variations, query observer, frontier, *)
(* every explicit tick 0..MaxLen incl. future ticks, unknown worldline;    *)
(* optic foci, coordinates incl. provenance refs, apertures, budgets) is   *)
(* evaluated in EVERY reachable state and across EVERY transition.         *)
(*                                                                         *)
(* Checked:                                                                *)
(*   ReadOnly        an Observe / ObserveOptic step leaves rt unchanged    *)
(*   HistoricalBound the reading at an explicit tick, once available (or   *)
(*                   once refused for a reason other than "not yet there"),*)
(*                   is never changed by any later Commit / Tick / Fork /  *)
(*                   Checkpoint / Register; only observed_after moves      *)
(*   OpticBound      same for optic reads at explicit ticks / provenance   *)
(*                   refs INCLUDING the witness basis, which may change    *)
(*                   only by a Checkpoint strictly below the coordinate    *)
(*   Inv*            freshness is the read time; unavailable history is an *)
(*                   error; frontier = tip entry; a fork child reads the   *)
(*                   parent's shared prefix; a mismatching provenance ref  *)
(*                   is never answered with a reading                      *)
(***************************************************************************)
EXTENDS Observe

CONSTANTS MaxLen, MaxG, MaxForks, Base, Rich, MaxCkpt, Variants, Cold
VARIABLES act
vars == <<known, hist, init, gt, strand, ckpt, act>>

Children == {"w3"}
Names    == Base \cup Children
PLEN     == 100        \* payload wire length: any function of the payload will do in the model

MkEntry(w, n, v, g) ==
  [root   |-> "r." \o w \o "." \o ToString(n) \o v,
   commit |-> "c." \o w \o "." \o ToString(n) \o v,
   cgt    |-> g,
   outs   |-> IF v = "a" THEN <<>> ELSE <<[ch |-> "c1", d |-> "d1." \o w \o ToString(n)],
                                         [ch |-> "c2", d |-> "d2." \o w \o ToString(n)]>>,
   reads  |-> IF v = "a" THEN {} ELSE {"s1"},
   writes |-> IF v = "a" THEN {"s1"} ELSE {"s2"}]

Init == RtInit /\ act = "init"

DoRegister == \E w \in Base : Register(w, "r0", "c0") /\ act' = "other"

\* one scheduler pass in which the worldlines of W commit (W = {} is an idle pass)
DoPass ==
  /\ gt < MaxG
  /\ \E W \in SUBSET known :
       /\ \A w \in W : Len(hist[w]) < MaxLen
       /\ \E ch \in [W -> Variants] :
            hist' = [w \in known |-> IF w \in W THEN Append(hist[w], MkEntry(w, Len(hist[w]), ch[w], gt + 1))
                                              ELSE hist[w]]
       /\ gt' = gt + 1
       /\ UNCHANGED <<known, init, strand, ckpt>>
       /\ act' = "other"

\* an entry recorded elsewhere (imported history): its commit global tick is unrelated to gt
DoColdCommit ==
  \E w \in Base \cap known : /\ Cold /\ Len(hist[w]) < MaxLen
                     /\ Commit(w, MkEntry(w, Len(hist[w]), "b", 7)) /\ act' = "other"

DoFork == \E p \in known, c \in Children : \E t \in 0..(MaxLen - 1) :
            /\ Cardinality(known \cap Children) < MaxForks
            /\ Fork(p, t, c) /\ act' = "other"

DoCheckpoint == \E w \in known : \E c \in 1..MaxLen :
                  /\ Cardinality(ckpt[w]) < MaxCkpt /\ c \notin ckpt[w] /\ Checkpoint(w, c) /\ act' = "ckpt"

\* a read of ANY request of the alphabet (the reading itself is a function of rt, evaluated below)
DoObserve == Observe(0, 0) /\ act' = "read" /\ act # "read"
DoOptic   == ObserveOptic(0, 0) /\ act' = "read" /\ act # "read"

Next == DoRegister \/ DoPass \/ DoColdCommit \/ DoFork \/ DoCheckpoint \/ DoObserve \/ DoOptic
Spec == Init /\ [][Next]_vars

--------------------------------------------------------------------------------
(* request alphabet                                                         *)
Coords == {[w |-> w, at |-> "frontier", t |-> 0] : w \in Names \cup {"wX"}}
          \cup {[w |-> w, at |-> "tick", t |-> t] : w \in Names \cup {"wX"}, t \in 0..MaxLen}

Dflt == [frame |-> "CB", proj |-> "head", chs |-> <<>>, fall |-> TRUE, qid |-> 9001, vars |-> "v0",
         plan |-> "CommitBoundaryHead", inst |-> FALSE, rights |-> "public", bounded |-> FALSE, maxb |-> -1, maxw |-> -1]
Pair(f, p) == [Dflt EXCEPT !.frame = f, !.proj = p,
                           !.plan = IF ValidPair(f, p) THEN BuiltinPlanFor(f, p) ELSE "CommitBoundaryHead"]
ValidNQ == {Pair("CB", "head"), Pair("CB", "snapshot"), Pair("RT", "truth")}
Budgets == {<<512, 1>>, <<8, 1>>, <<512, 0>>, <<512, -1>>}
Vary(s) == {[s EXCEPT !.plan = "authored:other"], [s EXCEPT !.plan = "QueryBytes"], [s EXCEPT !.inst = TRUE],
            [s EXCEPT !.rights = "cap"]}
           \cup {[s EXCEPT !.bounded = TRUE, !.maxb = b[1], !.maxw = b[2]] : b \in Budgets}
QShapes == {[Pair("QV", "query") EXCEPT !.qid = q, !.vars = v, !.plan = pl] :
               q \in {9001, 7}, v \in {"v0", "fail", "residual"},
               pl \in {"QueryBytes", "authored:installed", "authored:other", "CommitBoundaryHead"}}
AllPairs == {Pair(f, p) : f \in {"CB", "RT", "QV"}, p \in {"head", "snapshot", "truth", "query"}}
RichShapes == AllPairs
          \cup UNION {Vary(s) : s \in ValidNQ}
          \cup {[Pair("RT", "truth") EXCEPT !.chs = <<"c1">>, !.fall = FALSE],
                [Pair("RT", "truth") EXCEPT !.chs = <<"c9">>, !.fall = FALSE]}
          \cup QShapes \cup Vary(Pair("QV", "query"))
SmallShapes == AllPairs
          \cup {[Pair("CB", "head") EXCEPT !.plan = "authored:other"], [Pair("CB", "head") EXCEPT !.inst = TRUE],
                [Pair("CB", "snapshot") EXCEPT !.rights = "cap"],
                [Pair("CB", "head") EXCEPT !.bounded = TRUE, !.maxb = 8, !.maxw = 1],
                [Pair("RT", "truth") EXCEPT !.bounded = TRUE, !.maxb = 512, !.maxw = 0],
                [Pair("RT", "truth") EXCEPT !.chs = <<"c1">>, !.fall = FALSE],
                [Pair("QV", "query") EXCEPT !.vars = "fail"], [Pair("QV", "query") EXCEPT !.vars = "residual"],
                [Pair("QV", "query") EXCEPT !.qid = 7], [Pair("QV", "query") EXCEPT !.plan = "authored:installed"]}
Shapes == IF Rich THEN RichShapes ELSE SmallShapes
Req(c, s) == [w |-> c.w, at |-> c.at, t |-> c.t, frame |-> s.frame, proj |-> s.proj, chs |-> s.chs, fall |-> s.fall,
              qid |-> s.qid, vars |-> s.vars, plan |-> s.plan, inst |-> s.inst, rights |-> s.rights,
              bounded |-> s.bounded, maxb |-> s.maxb, maxw |-> s.maxw]
Reqs     == {Req(c, s) : c \in Coords, s \in Shapes}
HistReqs == {q \in Reqs : q.at = "tick"}

ODflt == [focus |-> "wl", ck |-> "wl", fw |-> "", w |-> "", at |-> "frontier", t |-> 0, pw |-> "", pc |-> "",
          shape |-> "head", rlen |-> 0, maxb |-> 512, maxt |-> -1, maxa |-> -1, descent |-> "boundary"]
CommitNames == IF Rich THEN {"c.w1.0a", "c.w1.0b", "c.w1.1a", "c.w2.0b", "bogus"} ELSE {"c.w1.0a", "c.w1.0b", "bogus"}
OCoords == {[ODflt EXCEPT !.fw = w, !.w = w] : w \in Names \cup {"wX"}}
           \cup {[ODflt EXCEPT !.fw = w, !.w = w, !.at = "tick", !.t = t] : w \in Names, t \in 0..MaxLen}
           \cup {[ODflt EXCEPT !.fw = w, !.w = w, !.at = "prov", !.t = t, !.pw = pw, !.pc = pc] :
                    w \in {"w1", "w3"}, t \in 0..(IF Rich THEN 1 ELSE 0), pw \in {"w1", "w3"}, pc \in CommitNames}
OVarySmall(o) == {o, [o EXCEPT !.shape = "snapmeta"], [o EXCEPT !.shape = "truth"], [o EXCEPT !.shape = "query"],
             [o EXCEPT !.shape = "range", !.rlen = 4096], [o EXCEPT !.maxb = -1], [o EXCEPT !.maxb = 64],
             [o EXCEPT !.maxt = 0], [o EXCEPT !.maxt = 1], [o EXCEPT !.fw = "w2"], [o EXCEPT !.ck = "strand"],
             [o EXCEPT !.focus = "att", !.shape = "attb"],
             [o EXCEPT !.focus = "att", !.shape = "attb", !.descent = "explicit", !.maxa = 2]}
OVaryRich(o) == {o, [o EXCEPT !.shape = "snapmeta"], [o EXCEPT !.shape = "truth"], [o EXCEPT !.shape = "query"],
             [o EXCEPT !.shape = "range", !.rlen = 16], [o EXCEPT !.shape = "range", !.rlen = 4096],
             [o EXCEPT !.shape = "attb"],
             [o EXCEPT !.maxb = -1], [o EXCEPT !.maxb = 0], [o EXCEPT !.maxb = 64], [o EXCEPT !.maxb = 8 + 120],
             [o EXCEPT !.maxb = 50], [o EXCEPT !.maxt = 0], [o EXCEPT !.maxt = 1],
             [o EXCEPT !.fw = "w2"], [o EXCEPT !.focus = "strand"], [o EXCEPT !.ck = "strand"],
             [o EXCEPT !.focus = "att"], [o EXCEPT !.focus = "att", !.shape = "attb"],
             [o EXCEPT !.focus = "att", !.shape = "attb", !.descent = "explicit"],
             [o EXCEPT !.focus = "att", !.shape = "attb", !.descent = "explicit", !.maxa = 0],
             [o EXCEPT !.focus = "att", !.shape = "attb", !.descent = "explicit", !.maxa = 2]}
OReqs == UNION {(IF Rich THEN OVaryRich(o) ELSE OVarySmall(o)) : o \in OCoords}
OHistReqs == {o \in OReqs : o.at # "frontier"}

--------------------------------------------------------------------------------
(* properties                                                               *)
ReadOnly == [][(act' = "read") => UNCHANGED rt]_vars

Timeless(rd) == [rd EXCEPT !.oag = 0]
Settled(rd)  == rd.ok \/ rd.err \notin {"InvalidTick", "InvalidWorldline"}
HistoricalBound ==
  [][\A q \in HistReqs : q.w \in known /\ Settled(Reading(q, PLEN)) => Timeless(Reading(q, PLEN))' = Timeless(Reading(q, PLEN))]_vars

OSettled(x) == x.ok \/ ~(x.kind = "MissingWitness" /\ x.reason = "EvidenceUnavailable")
OTimeless(x) == [x EXCEPT !.rd = Timeless(x.rd)]
\* checkpoints strictly below the coordinate of a historical optic request
LowCk(o) == IF o.w \in known THEN {c \in ckpt[o.w] : c < o.t} ELSE {}
\* The whole optic reading (payload, envelope AND witness basis) at an explicit coordinate is a function of
\* the history up to the coordinate and the checkpoints strictly below it: no Commit / Tick / Fork / Register
\* and no Checkpoint at or above the coordinate changes it.  A checkpoint below the coordinate may offer
\* another basis or turn the reading into LiveTailRequiresReduction, never into another state.
OpticBound ==
  [][\A o \in OHistReqs :
        LET x == OpticReading(o, PLEN)
            y == OpticReading(o, PLEN)'
        IN OSettled(x) =>
             /\ (LowCk(o)' = LowCk(o) => OTimeless(y) = OTimeless(x))
             /\ (LowCk(o)' # LowCk(o) /\ x.ok => \/ (y.ok /\ Timeless(y.rd) = Timeless(x.rd))
                                                \/ (~y.ok /\ y.kind = "LiveTailRequiresReduction"))]_vars

\* non-vacuity of the checkpoint cases (violated = reachable; checked by MC_C16_ckpt.cfg only through the runner's
\* separate `-config` run): a historical optic read whose basis is checkpoint + tail while a checkpoint at or
\* above its coordinate exists
CkptAroundReachable ==
  \E o \in OHistReqs : /\ o.w \in known /\ OpticReading(o, PLEN).ok /\ OpticReading(o, PLEN).basis.k = "cptail"
                        /\ \E c \in ckpt[o.w] : c >= o.t /\ c < Len(hist[o.w])
NeverCkptAround == ~CkptAroundReachable

InvFreshness == \A q \in Reqs : LET rd == Reading(q, PLEN) IN rd.ok => rd.oag = (IF gt = 0 THEN -1 ELSE gt)

InvUnavailable ==
  \A q \in Reqs :
    LET rd == Reading(q, PLEN) IN
    /\ (q.w \notin known => (~rd.ok /\ rd.err = "InvalidWorldline"))
    /\ (q.w \in known /\ q.at = "tick" /\ q.t >= Len(hist[q.w]) => ~rd.ok)
    /\ (rd.ok /\ q.at = "tick" => /\ rd.root = hist[q.w][q.t + 1].root
                                  /\ rd.commit = hist[q.w][q.t + 1].commit
                                  /\ rd.cgt = hist[q.w][q.t + 1].cgt
                                  /\ rd.rtick = q.t)
    /\ (rd.ok /\ q.proj = "truth" /\ q.at = "tick" /\ q.fall => rd.truth = hist[q.w][q.t + 1].outs)
    /\ (~ValidPair(q.frame, q.proj) /\ q.w \in known => rd.err = "UnsupportedFrameProjection")

\* the frontier reading is the tip entry's reading (resolved tick differs by the documented convention)
InvFrontierIsTip ==
  \A w \in known : Len(hist[w]) > 0 =>
    \A s \in {Pair("CB", "head"), Pair("CB", "snapshot"), Pair("RT", "truth")} :
      LET f == Reading(Req([w |-> w, at |-> "frontier", t |-> 0], s), PLEN)
          h == Reading(Req([w |-> w, at |-> "tick", t |-> Len(hist[w]) - 1], s), PLEN)
      IN /\ f.ok /\ h.ok /\ f.root = h.root /\ f.commit = h.commit /\ f.cgt = h.cgt /\ f.truth = h.truth
         /\ f.wit = h.wit

\* a fork child answers every coordinate of the shared prefix exactly as its parent does
InvForkFaithful ==
  \A c \in known : strand[c].parent # "" =>
    \A t \in 0..strand[c].anchor : \A s \in Shapes :
      LET a == Reading(Req([w |-> c, at |-> "tick", t |-> t], s), PLEN)
          b == Reading(Req([w |-> strand[c].parent, at |-> "tick", t |-> t], s), PLEN)
      IN CoordBound(a) = CoordBound(b)

InvProvRef ==
  \A o \in OReqs : LET x == OpticReading(o, PLEN) IN
    x.ok /\ o.at = "prov" => /\ x.rd.commit = o.pc /\ x.rd.rtick = o.t /\ o.pw = o.w

InvOpticTyped ==
  \A o \in OReqs : LET x == OpticReading(o, PLEN) IN
    /\ (~x.ok => x.kind # "")
    /\ (x.ok => x.rd.ok /\ o.shape \in {"head", "snapmeta"} /\ o.maxb >= 128 /\ x.basis.k \in {"commit", "set", "cptail"})
    /\ (x.ok /\ x.basis.k = "cptail" => o.maxt = -1 \/ Len(x.basis.tail) <= o.maxt)

\* vacuity guards (reported by the runner from the coverage of these definitions)
Interesting == \E w \in known : strand[w].parent # "" /\ Len(hist[w]) > strand[w].anchor + 1
                                /\ Len(hist[strand[w].parent]) > strand[w].anchor + 1
=============================================================================
