----------------------------- MODULE Provenance -----------------------------
(***************************************************************************)
(* Worldline provenance: per-worldline entry sequences, append validation, *)
(* the commit-id hash chain, replay checkpoints, fork, replay, and the     *)
(* playback cursor.  Transcribed from                                      *)
(*   crates/warp-core/src/provenance_store.rs  (LocalProvenanceStore,      *)
(*       validate_shared_entry, validate_local_commit_entry,               *)
(*       add_checkpoint / validate_checkpoint_for_history, fork,           *)
(*       checkpoint_before, restore_replay_base, advance_replay_state,     *)
(*       replay_artifacts_for_entry, finalize_replay_metadata,             *)
(*       replay_worldline_state_at_from_provenance, validate_btr)          *)
(*   crates/warp-core/src/playback.rs          (PlaybackCursor::seek_to,   *)
(*       PlaybackCursor::step)                                             *)
(*   crates/warp-core/src/coordinator.rs       (super_tick_inner: how a    *)
(*       local commit entry is built: parents = tip_ref, next tick)        *)
(*   crates/warp-core/src/snapshot.rs          (compute_commit_hash_v2)    *)
(*                                                                         *)
(* Abstraction.  A worldline state is a map slot -> value; a patch writes  *)
(* some slots ("keep" elsewhere).  Hashes are injective constructors       *)
(* (tuples): RootOf(state), PatchDigest(ops, policy, rulepack),            *)
(* CommitId(parent commit ids, root, patch digest, policy) -- exactly the  *)
(* inputs of compute_commit_hash_v2.  Everything else an entry carries     *)
(* (worldline tick, global tick, head key, diagnostic digests, receipt,    *)
(* outputs, atom writes) is present as a field so that C05 can ask which   *)
(* of them replay protects.                                                *)
(*                                                                         *)
(* Cursor coordinates: tick t = state after entries 0..t-1 (t = 0 is U0).  *)
(* Entries are 0-based in the code and stored 1-based here:                *)
(* entries[w][t+1] is the entry with worldline_tick = t.                   *)
(***************************************************************************)
EXTENDS Naturals, Integers, Sequences, FiniteSets, TLC

CONSTANTS Slots,    \* set of slot names (strings)
          U0,       \* [Slots -> value]: the registered initial state of every worldline
          None      \* model value

Keep == "keep"

\* ---------------------------------------------------------------- hashes (injective constructors)
RootOf(st)                     == <<"root", st>>
\* WarpTickPatchV1::new(policy, rule_pack, Committed, in_slots, out_slots, ops).digest()
PatchDigest(ops, slots, policy, pack) == <<"pd", ops, slots, policy, pack>>
\* snapshot.rs compute_commit_hash_v2(state_root, parents, patch_digest, policy_id)
CommitId(parentCids, root, pd, policy) == <<"cid", parentCids, root, pd, policy>>

ApplyOps(st, ops) == [k \in DOMAIN st |-> IF ops[k] = Keep THEN st[k] ELSE ops[k]]

\* ---------------------------------------------------------------- entries
\* ProvenanceRef
Ref(w, t, cid) == [w |-> w, tick |-> t, cid |-> cid]
ParentCids(e) == [i \in 1..Len(e.parents) |-> e.parents[i].cid]

\* WorldlineTickPatchV1 (header + warp + ops + in/out slots + digest); `ops` is the abstract patch,
\* `slots` stands for in_slots/out_slots (the slots the patch writes)
WrittenSlots(ops) == {k \in DOMAIN ops : ops[k] # Keep}
MkPatch(ops, policy, pack, gtick, plan, decision, rewrites) ==
  [ops |-> ops, slots |-> WrittenSlots(ops), warp |-> "w0", policy |-> policy, pack |-> pack, gtick |-> gtick, plan |-> plan,
   decision |-> decision, rewrites |-> rewrites, pdigest |-> PatchDigest(ops, WrittenSlots(ops), policy, pack)]

\* The entry super_tick_inner builds for head `h` of worldline `w` on top of the
\* materialized state `st` (its frontier) and the current tip `tip` (None or a Ref):
\*   worldline_tick = frontier tick, parents = provenance.tip_ref(w), expected = snapshot triplet,
\*   tick_receipt = the receipt (tx = tick + 1, digest = decision digest), outputs = last_materialization.
CoordEntry(w, h, t, gtick, tip, st, ops, policy, outs) ==
  LET parents == IF tip = None THEN <<>> ELSE <<tip>>
      post    == ApplyOps(st, ops)
      decision == <<"dec", w, t, ops>>
      patch   == MkPatch(ops, policy, <<"pack">>, gtick, <<"plan", w, t, ops>>, decision, <<"rw", w, t, ops>>)
      root    == RootOf(post)
  IN [w |-> w, tick |-> t, gtick |-> gtick, head |-> [w |-> w, h |-> h], parents |-> parents, kind |-> "LocalCommit",
      root |-> root, pd |-> patch.pdigest,
      cid |-> CommitId([i \in 1..Len(parents) |-> parents[i].cid], root, patch.pdigest, policy),
      patch |-> patch, receipt |-> [tx |-> t + 1, digest |-> decision], outputs |-> outs, atomw |-> <<>>]

\* ---------------------------------------------------------------- store state
VARIABLES entries,   \* [registered worldline -> Seq(entry)]
          ckpts      \* [registered worldline -> set of checkpoints [tick, root, mat]]
storeVars == <<entries, ckpts>>

Worldlines == DOMAIN entries
Len0(w) == Len(entries[w])
Tip(w)  == IF Len0(w) = 0 THEN None
           ELSE LET e == entries[w][Len0(w)] IN Ref(e.w, e.tick, e.cid)

IsPrefix(a, b) == Len(a) <= Len(b) /\ \A i \in 1..Len(a) : a[i] = b[i]

\* ---------------------------------------------------------------- append validation
\* validate_shared_entry + validate_local_commit_entry; returns "ok" or the HistoryError variant.
\* The parents are compared by commit hash only for canonical order; CidLess is any strict total order
\* on the commit ids in play (supplied as a rank by the MC module where >1 parent matters).
AppendVerdict(w, e, CidLess(_, _)) ==
  IF w \notin Worldlines THEN "WorldlineNotFound"
  ELSE IF e.w # w THEN "EntryWorldlineMismatch"           \* unreachable through append_local_commit(entry): w := entry.worldline_id
  ELSE IF e.tick # Len0(w) THEN "TickGap"
  ELSE IF ~(\A i \in 1..(Len(e.parents) - 1) : CidLess(e.parents[i].cid, e.parents[i + 1].cid)) THEN "NonCanonicalParents"
  ELSE IF \E i \in 1..Len(e.parents) :
            LET p == e.parents[i] IN p.w \notin Worldlines \/ p.tick + 1 > Len(entries[p.w]) THEN "MissingParentRef"
  ELSE IF \E i \in 1..Len(e.parents) :
            LET p == e.parents[i] IN entries[p.w][p.tick + 1].cid # p.cid THEN "ParentCommitHashMismatch"
  ELSE IF e.head = None THEN "LocalCommitMissingHeadKey"
  ELSE IF e.head.w # e.w THEN "HeadWorldlineMismatch"
  ELSE IF e.patch = None THEN "LocalCommitMissingPatch"
  ELSE IF e.receipt # None /\ e.receipt.tx # e.tick + 1 THEN "LocalCommitReceiptTxMismatch"
  ELSE IF e.receipt # None /\ e.receipt.digest # e.patch.decision THEN "LocalCommitReceiptDigestMismatch"
  ELSE IF e.kind # "LocalCommit" THEN "InvalidLocalCommitEventKind"
  ELSE "ok"

NoOrder(a, b) == TRUE   \* for histories with at most one parent per entry

\* LocalProvenanceStore::append_local_commit
AppendEntry(e) ==
  /\ AppendVerdict(e.w, e, NoOrder) = "ok"
  /\ entries' = [entries EXCEPT ![e.w] = Append(@, e)]
  /\ UNCHANGED ckpts

\* ---------------------------------------------------------------- materialized worldline state (WorldlineState)
\* st = warp_state; hist = tick_history (one snapshot+receipt per tick); lm = last_materialization;
\* txc = tx_counter.  (committed_ingress / last_materialization_errors are reset by replay by contract
\* and are not part of the replayed value.)
MatU0 == [st |-> U0, hist |-> <<>>, lm |-> <<>>, txc |-> 0]

\* replay_artifacts_for_entry: the (Snapshot, TickReceipt, replay WarpTickPatchV1) pushed to tick_history
SnapshotOf(e) ==
  [cid |-> e.cid, root |-> e.root, parents |-> ParentCids(e), plan |-> e.patch.plan, decision |-> e.patch.decision,
   rewrites |-> e.patch.rewrites, pd |-> e.pd, policy |-> e.patch.policy, tx |-> e.tick + 1,
   receipt |-> IF e.receipt = None THEN [tx |-> e.tick + 1, digest |-> <<"empty">>] ELSE e.receipt,
   rpatch |-> [ops |-> e.patch.ops, slots |-> e.patch.slots, policy |-> e.patch.policy, pack |-> e.patch.pack]]
\* ... which fails (typed ReplayError) when the stored digests or the receipt disagree
ArtifactsError(e) ==
  IF e.pd # e.patch.pdigest THEN "PatchDigestMismatch"
  ELSE IF PatchDigest(e.patch.ops, e.patch.slots, e.patch.policy, e.patch.pack) # e.patch.pdigest THEN "PatchDigestMismatch"
  ELSE IF e.receipt # None /\ e.receipt.tx # e.tick + 1 THEN "ReceiptTxMismatch"
  ELSE IF e.receipt # None /\ e.receipt.digest # e.patch.decision THEN "ReceiptDigestMismatch"
  ELSE "ok"

Ok(m)        == [ok |-> TRUE, err |-> "", at |-> 0, mat |-> m]
Fail(err, t) == [ok |-> FALSE, err |-> err, at |-> t, mat |-> MatU0]

\* One iteration of the loop in advance_replay_state for entry e (worldline_tick = e.tick) on mat m.
\* Order of checks as in the code.
ReplayOne(m, e) ==
  IF e.patch = None THEN Fail("MissingPatch", e.tick)
  ELSE IF e.patch.warp # "w0" THEN Fail("ApplyError", e.tick)      \* apply_to_worldline_state: WarpMismatch
  ELSE LET st2 == ApplyOps(m.st, e.patch.ops) IN
    IF RootOf(st2) # e.root THEN Fail("StateRootMismatch", e.tick)
    ELSE IF CommitId(ParentCids(e), RootOf(st2), e.pd, e.patch.policy) # e.cid THEN Fail("CommitHashMismatch", e.tick)
    ELSE IF ArtifactsError(e) # "ok" THEN Fail(ArtifactsError(e), e.tick)
    ELSE Ok([st |-> st2, hist |-> Append(m.hist, SnapshotOf(e)), lm |-> e.outputs, txc |-> e.tick + 1])

\* advance_replay_state(start a, target b): a = b returns the state untouched (no finalize);
\* otherwise entries a .. b-1 are applied and finalize_replay_metadata sets lm from the last entry.
RECURSIVE AdvanceSeq(_, _, _, _)
AdvanceSeq(es, m, a, b) ==
  IF a >= b THEN Ok(m)
  ELSE IF a + 1 > Len(es) THEN Fail("HistoryUnavailable", a)
  ELSE LET r == ReplayOne(m, es[a + 1])
       IN IF r.ok THEN AdvanceSeq(es, r.mat, a + 1, b) ELSE r
Advance(w, m, a, b) == AdvanceSeq(entries[w], m, a, b)

\* The oracle: state at cursor coordinate t = fold of entries 0..t-1 from U0.  Independent of
\* checkpoints, of the cursor and of the path.
StateAt(w, t) == Advance(w, MatU0, 0, t).mat

\* ---------------------------------------------------------------- checkpoints
\* expected_state_root_for_checkpoint / expected_state_root_at_materialized_tick
ExpectedRootAt(w, t) == IF t = 0 THEN RootOf(U0) ELSE entries[w][t].root

CkptTicks(w) == {c.tick : c \in ckpts[w]}
\* checkpoint_before(w, x): the checkpoint with the largest tick strictly below x (None if there is none)
CkptBefore(w, x) ==
  LET below == {c \in ckpts[w] : c.tick < x}
  IN IF below = {} THEN None ELSE CHOOSE c \in below : \A d \in below : d.tick <= c.tick

\* validate_checkpoint_for_history, on a checkpoint made from materialized state m at tick t
CkptVerdict(w, t, m) ==
  IF w \notin Worldlines THEN "WorldlineNotFound"
  ELSE IF t > Len0(w) THEN "HistoryUnavailable"
  ELSE IF RootOf(m.st) # ExpectedRootAt(w, t) THEN "CheckpointStateRootMismatch"
  ELSE IF Len(m.hist) # t THEN "CheckpointReplayMetadataMismatch"
  ELSE IF m.txc # t THEN "CheckpointReplayMetadataMismatch"
  ELSE IF t = 0 /\ m.lm # <<>> THEN "CheckpointReplayMetadataMismatch"
  ELSE IF t > 0 /\ (\E i \in 1..t : entries[w][i].patch = None \/ ArtifactsError(entries[w][i]) # "ok" \/ m.hist[i] # SnapshotOf(entries[w][i]))
       THEN "CheckpointReplayMetadataMismatch"
  ELSE IF t > 0 /\ m.lm # entries[w][t].outputs THEN "CheckpointReplayMetadataMismatch"
  ELSE "ok"

\* LocalProvenanceStore::add_checkpoint: validated, then inserted sorted; an existing one at the
\* same tick is replaced
AddCheckpoint(w, t, m) ==
  /\ CkptVerdict(w, t, m) = "ok"
  /\ ckpts' = [ckpts EXCEPT ![w] = {c \in @ : c.tick # t} \cup {[tick |-> t, root |-> RootOf(m.st), mat |-> m]}]
  /\ UNCHANGED entries

\* ---------------------------------------------------------------- fork
\* LocalProvenanceStore::fork(source, fork_tick, new_id): entries[..=fork_tick] copied with the
\* worldline id rewritten in the entry, in its head key and in same-worldline parent refs;
\* checkpoints with tick <= fork_tick + 1 copied.
RewriteForFork(e, src, new) ==
  [e EXCEPT !.w = new,
            !.head = IF @ # None /\ @.w = src THEN [@ EXCEPT !.w = new] ELSE @,
            !.parents = [i \in 1..Len(@) |-> IF @[i].w = src THEN [@[i] EXCEPT !.w = new] ELSE @[i]]]

ForkVerdict(src, ft, new) ==
  IF new \in Worldlines THEN "WorldlineAlreadyExists"
  ELSE IF src \notin Worldlines THEN "WorldlineNotFound"
  ELSE IF ft >= Len0(src) THEN "HistoryUnavailable"
  ELSE "ok"

Fork(src, ft, new) ==
  /\ ForkVerdict(src, ft, new) = "ok"
  /\ entries' = [w \in Worldlines \cup {new} |->
                   IF w = new THEN [i \in 1..(ft + 1) |-> RewriteForFork(entries[src][i], src, new)] ELSE entries[w]]
  /\ ckpts' = [w \in Worldlines \cup {new} |->
                   IF w = new THEN {c \in ckpts[src] : c.tick <= ft + 1} ELSE ckpts[w]]

\* ---------------------------------------------------------------- replay entry point
\* restore_replay_base(target): nearest checkpoint with tick <= target (lookup tick = target + 1),
\* re-validated against the chain (metadata hash and the state's own root), else U0.
RestoreBase(w, target) ==
  LET c == CkptBefore(w, target + 1)
  IN IF c = None THEN [ok |-> TRUE, err |-> "", at |-> 0, mat |-> MatU0, start |-> 0, path |-> "u0"]
     ELSE IF c.root # ExpectedRootAt(w, c.tick) \/ RootOf(c.mat.st) # ExpectedRootAt(w, c.tick)
          THEN [ok |-> FALSE, err |-> "CheckpointStateRootMismatch", at |-> c.tick, mat |-> MatU0, start |-> 0, path |-> "ckpt"]
          ELSE [ok |-> TRUE, err |-> "", at |-> 0, mat |-> c.mat, start |-> c.tick, path |-> "ckpt"]

\* replay_worldline_state_at_from_provenance(w, base, target)  (base = the registered U0)
\* result: [ok, err, at, mat, path, from]
ReplayAt(w, target) ==
  IF w \notin Worldlines THEN [ok |-> FALSE, err |-> "WorldlineNotFound", at |-> target, mat |-> MatU0, path |-> "none", from |-> 0]
  ELSE IF target > Len0(w) THEN [ok |-> FALSE, err |-> "HistoryUnavailable", at |-> target, mat |-> MatU0, path |-> "none", from |-> 0]
  ELSE LET b == RestoreBase(w, target) IN
       IF ~b.ok THEN [ok |-> FALSE, err |-> b.err, at |-> b.at, mat |-> MatU0, path |-> b.path, from |-> 0]
       ELSE LET r == Advance(w, b.mat, b.start, target)
            IN [ok |-> r.ok, err |-> r.err, at |-> r.at, mat |-> r.mat, path |-> b.path, from |-> b.start]

\* ---------------------------------------------------------------- playback cursor
\* PlaybackCursor: worldline, tick, role, mode, materialized state, pin_max_tick
\* mode: <<"Paused">> | <<"Play">> | <<"StepForward">> | <<"StepBack">> | <<"Seek", target, then>>
VARIABLES cur,       \* [w, tick, role, mode, mat, pin]
          last       \* outcome of the last cursor action: [res, path, from, err, at]
cursorVars == <<cur, last>>

Paused == <<"Paused">>
NoOutcome == [res |-> "none", path |-> "none", from |-> 0, err |-> "", at |-> 0]

\* The decision of PlaybackCursor::seek_to as a pure function of (cursor tick, pin, target, history
\* length, checkpoint ticks): which path is taken.  Reused by the trace specification.
\*   "pin"      target > pin_max_tick                     -> PinnedFrontierExceeded
\*   "nohist"   target > history length                   -> HistoryUnavailable
\*   "noop"     target = tick
\*   "restore"  target < tick, or the nearest checkpoint at or below target lies strictly above tick:
\*              replay_worldline_state_at_from_provenance (checkpoint if any at or below target, else U0)
\*   "advance"  otherwise: advance_replay_state from the cursor's own state
NearestAtOrBelow(ticks, target) ==
  LET below == {c \in ticks : c <= target}
  IN IF below = {} THEN -1 ELSE CHOOSE c \in below : \A d \in below : d <= c

SeekDecision(tick, pin, target, len, ticks) ==
  IF target > pin THEN "pin"
  ELSE IF target > len THEN "nohist"
  ELSE IF target = tick THEN "noop"
  ELSE IF target < tick \/ NearestAtOrBelow(ticks, target) > tick THEN "restore"
  ELSE "advance"

\* seek_to(target) evaluated on cursor c: the new cursor and the outcome.  On error the cursor is
\* unchanged (the code assigns self.state only after a successful replay and never on the
\* advance path's error ... see note) -- note: on the advance path advance_replay_state mutates
\* self.state in place before an error is detected; the model keeps the cursor unchanged on error
\* and the harness does not use a cursor after an error (SeekError doc: "cursor state is undefined").
SeekResult(c, target) ==
  LET w == c.w
      d == SeekDecision(c.tick, c.pin, target, Len0(w), CkptTicks(w))
  IN CASE d = "pin"    -> [cur |-> c, out |-> [res |-> "err", path |-> "none", from |-> 0, err |-> "PinnedFrontierExceeded", at |-> target]]
       [] d = "nohist" -> [cur |-> c, out |-> [res |-> "err", path |-> "none", from |-> 0, err |-> "HistoryUnavailable", at |-> target]]
       [] d = "noop"   -> [cur |-> c, out |-> [res |-> "ok", path |-> "noop", from |-> c.tick, err |-> "", at |-> 0]]
       [] d = "restore" ->
            LET r == ReplayAt(w, target)
            IN IF r.ok THEN [cur |-> [c EXCEPT !.tick = target, !.mat = r.mat],
                             out |-> [res |-> "ok", path |-> r.path, from |-> r.from, err |-> "", at |-> 0]]
               ELSE [cur |-> c, out |-> [res |-> "err", path |-> r.path, from |-> 0, err |-> r.err, at |-> r.at]]
       [] d = "advance" ->
            LET r == Advance(w, c.mat, c.tick, target)
            IN IF r.ok THEN [cur |-> [c EXCEPT !.tick = target, !.mat = r.mat],
                             out |-> [res |-> "ok", path |-> "advance", from |-> c.tick, err |-> "", at |-> 0]]
               ELSE [cur |-> c, out |-> [res |-> "err", path |-> "advance", from |-> c.tick, err |-> r.err, at |-> r.at]]

SeekTo(target) ==
  /\ LET r == SeekResult(cur, target) IN cur' = r.cur /\ last' = r.out
  /\ UNCHANGED storeVars

SetMode(m) == cur' = [cur EXCEPT !.mode = m] /\ last' = NoOutcome /\ UNCHANGED storeVars

\* PlaybackCursor::step evaluated on cursor c; SR(c, target) is the seek it delegates to
\* (SeekResult here; the decision-only AbsSeek in the trace specification)
StepResultWith(c, SR(_, _)) ==
  LET m == c.mode[1]
      fwd(pauseAfter) ==
        IF c.role = "Reader"
        THEN IF c.tick >= c.pin
             THEN [cur |-> [c EXCEPT !.mode = Paused], out |-> [res |-> "ReachedFrontier", path |-> "none", from |-> 0, err |-> "", at |-> 0]]
             ELSE LET r == SR(c, c.tick + 1)
                  IN IF r.out.res = "err" THEN r
                     ELSE [cur |-> IF pauseAfter THEN [r.cur EXCEPT !.mode = Paused] ELSE r.cur,
                           out |-> [r.out EXCEPT !.res = "Advanced"]]
        ELSE \* writer: Play is a stub (NoOp, mode kept); StepForward pauses
             [cur |-> IF pauseAfter THEN [c EXCEPT !.mode = Paused] ELSE c,
              out |-> [res |-> "NoOp", path |-> "none", from |-> 0, err |-> "", at |-> 0]]
  IN CASE m = "Paused" -> [cur |-> c, out |-> [res |-> "NoOp", path |-> "none", from |-> 0, err |-> "", at |-> 0]]
       [] m = "Play" -> fwd(FALSE)
       [] m = "StepForward" -> fwd(TRUE)
       [] m = "StepBack" ->
            LET r == SR(c, IF c.tick = 0 THEN 0 ELSE c.tick - 1)
            IN IF r.out.res = "err" THEN r
               ELSE [cur |-> [r.cur EXCEPT !.mode = Paused], out |-> [r.out EXCEPT !.res = "Seeked"]]
       [] m = "Seek" ->
            LET r == SR(c, c.mode[2])
            IN IF r.out.res = "err" THEN r
               ELSE [cur |-> [r.cur EXCEPT !.mode = IF c.mode[3] = "Play" THEN <<"Play">> ELSE Paused],
                     out |-> [r.out EXCEPT !.res = "Seeked"]]

StepResult(c) == StepResultWith(c, SeekResult)

\* Decision-only seek on an abstract cursor [tick, pin, role, mode] over (history length, checkpoint
\* ticks): same tick / path / restore base as SeekResult, no materialized value.
AbsSeek(len, ticks, c, target) ==
  LET d == SeekDecision(c.tick, c.pin, target, len, ticks)
      b == NearestAtOrBelow(ticks, target)
  IN CASE d = "pin"    -> [cur |-> c, out |-> [res |-> "err", path |-> "none", from |-> 0, err |-> "PinnedFrontierExceeded", at |-> target]]
       [] d = "nohist" -> [cur |-> c, out |-> [res |-> "err", path |-> "none", from |-> 0, err |-> "HistoryUnavailable", at |-> target]]
       [] d = "noop"   -> [cur |-> c, out |-> [res |-> "ok", path |-> "noop", from |-> c.tick, err |-> "", at |-> 0]]
       [] d = "restore" -> [cur |-> [c EXCEPT !.tick = target],
                            out |-> [res |-> "ok", path |-> IF b = -1 THEN "u0" ELSE "ckpt", from |-> IF b = -1 THEN 0 ELSE b, err |-> "", at |-> 0]]
       [] d = "advance" -> [cur |-> [c EXCEPT !.tick = target],
                            out |-> [res |-> "ok", path |-> "advance", from |-> c.tick, err |-> "", at |-> 0]]

Step ==
  /\ LET r == StepResult(cur) IN cur' = r.cur /\ last' = r.out
  /\ UNCHANGED storeVars

\* ---------------------------------------------------------------- C05: tampering and re-verification
\* A value different from x and from every honest value of the model.
Flip(x) == <<"tampered", x>>

\* What re-verification returns for a tick, split into the part the chain is meant to protect and the
\* diagnostic digests that merkle-commit.md (Decision 3) leaves outside commit id v2.
CoreSnap(s) == [cid |-> s.cid, root |-> s.root, parents |-> s.parents, pd |-> s.pd, policy |-> s.policy, tx |-> s.tx, receipt |-> s.receipt, rpatch |-> s.rpatch]
DiagSnap(s) == [plan |-> s.plan, decision |-> s.decision, rewrites |-> s.rewrites]
CoreOf(m) == [st |-> m.st, hist |-> [i \in 1..Len(m.hist) |-> CoreSnap(m.hist[i])], lm |-> m.lm, txc |-> m.txc]
DiagOf(m) == [i \in 1..Len(m.hist) |-> DiagSnap(m.hist[i])]

\* Replay over an explicit entry table / checkpoint table (the rebuilt, possibly tampered store)
ReplayIn(es, cks, w, target) ==
  IF w \notin DOMAIN es THEN [ok |-> FALSE, err |-> "WorldlineNotFound", at |-> target, mat |-> MatU0]
  ELSE IF target > Len(es[w]) THEN [ok |-> FALSE, err |-> "HistoryUnavailable", at |-> target, mat |-> MatU0]
  ELSE LET below == {c \in cks[w] : c.tick <= target}
           c == IF below = {} THEN None ELSE CHOOSE x \in below : \A y \in below : y.tick <= x.tick
           expRoot(t) == IF t = 0 THEN RootOf(U0) ELSE es[w][t].root
       IN IF c = None THEN LET r == AdvanceSeq(es[w], MatU0, 0, target) IN [ok |-> r.ok, err |-> r.err, at |-> r.at, mat |-> r.mat]
          ELSE IF c.root # expRoot(c.tick) \/ RootOf(c.mat.st) # expRoot(c.tick)
               THEN [ok |-> FALSE, err |-> "CheckpointStateRootMismatch", at |-> c.tick, mat |-> MatU0]
               ELSE LET r == AdvanceSeq(es[w], c.mat, c.tick, target) IN [ok |-> r.ok, err |-> r.err, at |-> r.at, mat |-> r.mat]

\* validate_shared_entry + validate_local_commit_entry over an explicit entry table
VerdictIn(es, w, e) ==
  IF e.w # w THEN "EntryWorldlineMismatch"    \* the verifier rebuilds worldline w: an entry claiming another worldline is not its history
  ELSE IF e.w \notin DOMAIN es THEN "WorldlineNotFound"
  ELSE IF e.tick # Len(es[w]) THEN "TickGap"
  ELSE IF \E i \in 1..Len(e.parents) :
            LET p == e.parents[i] IN p.w \notin DOMAIN es \/ p.tick < 0 \/ p.tick + 1 > Len(es[p.w]) THEN "MissingParentRef"
  ELSE IF \E i \in 1..Len(e.parents) :
            LET p == e.parents[i] IN es[p.w][p.tick + 1].cid # p.cid THEN "ParentCommitHashMismatch"
  ELSE IF e.head = None THEN "LocalCommitMissingHeadKey"
  ELSE IF e.head.w # e.w THEN "HeadWorldlineMismatch"
  ELSE IF e.patch = None THEN "LocalCommitMissingPatch"
  ELSE IF e.receipt # None /\ e.receipt.tx # e.tick + 1 THEN "LocalCommitReceiptTxMismatch"
  ELSE IF e.receipt # None /\ e.receipt.digest # e.patch.decision THEN "LocalCommitReceiptDigestMismatch"
  ELSE IF e.kind # "LocalCommit" THEN "InvalidLocalCommitEventKind"
  ELSE "ok"

\* Rebuild worldline w of a store from a retained entry sequence `seq` (the other worldlines `others`
\* are intact): append one by one; the first refusal ends the rebuild.
RECURSIVE RebuildFrom(_, _, _, _)
RebuildFrom(es, w, seq, i) ==
  IF i > Len(seq) THEN [ok |-> TRUE, err |-> "", at |-> 0, es |-> es]
  ELSE LET v == VerdictIn(es, w, seq[i])
       IN IF v # "ok" THEN [ok |-> FALSE, err |-> v, at |-> i - 1, es |-> es]
          ELSE RebuildFrom([es EXCEPT ![w] = Append(@, seq[i])], w, seq, i + 1)
Rebuild(others, w, seq) == RebuildFrom([x \in DOMAIN others \cup {w} |-> IF x = w THEN <<>> ELSE others[x]], w, seq, 1)

\* Outcome of re-verifying tick t of the rebuilt worldline against the original materialization `orig`:
\*   "err:<Variant>"  typed rejection;  "same" exactly the original result;
\*   "diff_diag" same protected result, different diagnostic digests;  "diff_core" a different result accepted
Classify(r, orig) ==
  IF ~r.ok THEN "err:" \o r.err
  ELSE IF CoreOf(r.mat) # CoreOf(orig) THEN "diff_core"
  ELSE IF DiagOf(r.mat) # DiagOf(orig) THEN "diff_diag"
  ELSE "same"

\* ---------------------------------------------------------------- properties
\* C07: the cursor's materialized state is the fold of the history, whatever path produced it
Inv_CursorIsStateAt == cur.w \in Worldlines => cur.mat = StateAt(cur.w, cur.tick)
\* ... and so is every stored checkpoint
Inv_CheckpointsAreStateAt == \A w \in Worldlines : \A c \in ckpts[w] : c.tick <= Len0(w) /\ c.mat = StateAt(w, c.tick)
\* the replay entry point is path independent as well
Inv_ReplayAtIsStateAt == \A w \in Worldlines : \A t \in 0..Len0(w) : LET r == ReplayAt(w, t) IN r.ok /\ r.mat = StateAt(w, t)

\* C05 (structure): ticks are gap-free, parents = previous tip, the commit id is the hash of exactly
\* (parents, root, patch digest, policy), and the worldline binding holds
Inv_ChainWellFormed ==
  \A w \in Worldlines : \A i \in 1..Len0(w) :
    LET e == entries[w][i] IN
      /\ e.w = w /\ e.tick = i - 1
      /\ e.parents = IF i = 1 THEN <<>> ELSE <<Ref(w, i - 2, entries[w][i - 1].cid)>>
      /\ e.cid = CommitId(ParentCids(e), e.root, e.pd, e.patch.policy)
      /\ e.head # None /\ e.head.w = w
\* append-only (action property)
AppendOnly == [][\A w \in Worldlines : w \in DOMAIN entries' /\ IsPrefix(entries[w], entries'[w])]_storeVars
=============================================================================
