"""C16 - observation is read-only and bound to its coordinate.

MC : MC_C16.tla over Observe.tla: in every reachable state of a bounded runtime (worldlines, fork
     child, scheduler passes, imported entries, checkpoints) EVERY request of a finite alphabet is
     evaluated; an Observe step leaves the runtime unchanged; a settled reading at an explicit tick
     (observe and optic) is invariant under every later Commit / Tick / Fork / Checkpoint / Register
     (only observed_after moves, the optic witness basis only through Checkpoint); freshness is the
     read time; unavailable history is an error; frontier = tip entry; a fork child reads the shared
     prefix like its parent; a mismatching provenance ref is never answered with a reading.
TV : harness c16 drives seeded multi-worldline histories on the real WorldlineRuntime /
     ProvenanceService / Engine (scheduler passes, imported worldlines with recorded outputs,
     fork_strand, replay checkpoints) with reads from the request alphabet interleaved, logging
     request, reading / typed error and state fingerprints around every read; ObserveTrace.tla must
     accept the trace.  The harness also decides the property directly on the real outcome
     (fingerprints, replay at the coordinate, re-asked historical requests, back-to-back equality).
     A separate small "probe" trace carries provenance refs whose commit id the worldline does not
     record at that tick (property: typed obstruction, never a reading).
"""
import concurrent.futures
import os
from lib import *

TRACE_JAVA = "-Xss1g -Dtlc2.tool.queue.IStateQueue=StateDeque"
PROV_KEY = "optic_provenance_ref_commit_not_checked"
_NONTRIVIAL = set()


def _event_class(ev):
    q = ev.get("req", {})
    if ev.get("event") == "observe":
        return f"observe:{q.get('frame')}/{q.get('proj')}:{q.get('at')}"
    if ev.get("event") == "optic":
        return f"optic:{q.get('focus')}/{q.get('shape')}:{q.get('at')}"
    return str(ev.get("event"))


def _is_prov_mismatch_reading(ev, state):
    """optic reading for a provenance ref whose commit id differs from the logged commit at that tick"""
    if ev.get("event") != "optic" or not ev["res"].get("ok") or ev["req"].get("at") != "prov":
        return False
    return ev["res"].get("pcommit") != ev["req"].get("pc")


def _collect_nontrivial(events):
    for e in events:
        if e["event"] in ("observe", "optic"):
            trivial = e["res"].get("err") in ("InvalidWorldline", "UnsupportedFrameProjection") and not e["res"]["ok"]
            if not trivial:
                _NONTRIVIAL.add((e["event"], json.dumps(e["req"], sort_keys=True), e["fp0"]["rt"], e["fp0"]["pv"]))


def _validate(ck, trace, name):
    """Runs ObserveTrace.tla on `trace`; returns (accepted, rejected_line or None).
    TLC exits 10 with 'Postcondition Accepted ... is false' on a rejected trace, which lib.tlc reports
    as tool trouble; the REJECTED_AT line printed by the postcondition is the verdict."""
    outp = os.path.join(WORK, f"tlc_{name}.out")
    n = sum(1 for _ in open(trace))
    try:
        res = tlc("ObserveTrace", "ObserveTrace.cfg", workers=1, env={"TRACE": trace}, java_opts=TRACE_JAVA,
                  timeout=7200, tags=(), out_name=name)
    except ToolError:
        text = open(outp).read() if os.path.exists(outp) else ""
        m = re.search(r'"REJECTED_AT", (\d+)', text)
        if not m or "Postcondition Accepted" not in text:
            raise
        ck.cov["states"] += int(m.group(1))
        ck.cov["transitions"] += int(m.group(1))
        return False, int(m.group(1))
    ck.add_tlc(res)
    if res.violation or res.postcondition_failed:
        m = re.search(r'"REJECTED_AT", (\d+)', open(res.stdout_path).read())
        if not m:
            raise ToolError(f"ObserveTrace: unexpected TLC verdict {res.violation}")
        return False, int(m.group(1))
    if res.distinct != n + 1:
        raise ToolError(f"ObserveTrace consumed {res.distinct - 1} of {n} events without a verdict")
    return True, None


def _tv(ck, trace, name, seed, tier, mode):
    """Trace validation with triage of the first rejected event. Returns number of events accepted."""
    events = read_ndjson(trace)
    _collect_nontrivial(events)
    ok, line = _validate(ck, trace, name)
    dropped = 0
    while not ok:
        ev = events[line - 1]
        if mode == "probe" and _is_prov_mismatch_reading(ev, None):
            # the known shape of the probe: report it once, drop every event of this shape (reads do
            # not change the model state, so the remainder is still a trace) and validate the rest
            keep = os.path.join(REPLAYS, f"C16-{seed}-probe.ndjson")
            write_ndjson(keep, events[:line])
            ck.violation(PROV_KEY, "ObserveTrace rejected an optic READING for a provenance ref naming a commit the worldline "
                         f"does not record at that tick (event {line}): {json.dumps(ev['req'])}",
                         {"trace": keep, "seed": seed, "tier": tier, "mode": mode, "key": PROV_KEY, "request": ev["req"]})
            events = [e for e in events if not _is_prov_mismatch_reading(e, None)]
            dropped += 1
            trace = trace + ".rest"
            write_ndjson(trace, events)
            ok, line = _validate(ck, trace, name + "_rest")
            if dropped > 1 and not ok and _is_prov_mismatch_reading(events[line - 1], None):
                raise ToolError("probe triage did not converge")
            continue
        keep = os.path.join(REPLAYS, f"C16-{seed}-{mode}-rejected.ndjson")
        write_ndjson(keep, events[:line])
        ck.violation(f"trace_rejected:{_event_class(ev)}", f"ObserveTrace.tla rejected event {line} of the {mode} trace: "
                     + json.dumps(ev)[:1500], {"trace": keep, "seed": seed, "tier": tier, "mode": mode, "line": line})
        return line - 1
    return len(events)


def run(tier, replay=None):
    ck = Check("C16", tier)
    binp = build_harness()
    seed, modes, htier = ck.seed, ["main", "probe"], tier
    if replay:
        case = json.load(open(replay))["case"]
        if "invariant" in case:
            modes = []
        else:
            seed, modes, htier = case.get("seed", ck.seed), [case.get("mode", "main")], case.get("tier", tier)
            if "line" in case or case.get("key") == PROV_KEY and os.path.exists(case.get("trace", "")):
                # a kept rejected prefix: re-validate exactly that
                ok, line = _validate(ck, case["trace"], "c16_replay")
                if not ok:
                    ev = read_ndjson(case["trace"])[line - 1]
                    key = PROV_KEY if _is_prov_mismatch_reading(ev, None) else f"trace_rejected:{_event_class(ev)}"
                    ck.violation(key, f"replayed trace rejected at event {line}", case)
                modes = [] if "line" in case else modes

    # --- MC (runs concurrently with the harness / trace validation: 4 + 1 TLC workers) ---------------
    mc_future = None
    if not replay or "invariant" in (json.load(open(replay))["case"]):
        cfgs = ["MC_C16_thorough.cfg" if tier == "thorough" else "MC_C16_quick.cfg", "MC_C16_ckpt.cfg"]
        pool = concurrent.futures.ThreadPoolExecutor(max_workers=1)
        mc_future = pool.submit(lambda: [(c, tlc("MC_C16", c, workers=4, timeout=3 * 3600, tags=())) for c in cfgs])

    # --- TV + direct decision ------------------------------------------------------------------------
    total_events = total_reads = accepted = 0
    classes = {}
    traces = []
    for mode in modes:
        trace = os.path.join(WORK, f"c16_{mode}.ndjson")
        results = os.path.join(WORK, f"c16_{mode}.results")
        out = harness(binp, ["c16", trace, results, str(seed), htier, mode], timeout=7200)
        summ = json.loads(out.strip().splitlines()[-1])
        if summ["reads"] < 200 or summ["ok_reads"] < 50 or summ["reasked"] < 50 or summ["replay_checked"] < 50:
            raise ToolError(f"c16 {mode}: vacuous run {summ['reads']}/{summ['ok_reads']}/{summ['reasked']}/{summ['replay_checked']}")
        total_events += summ["events"]
        total_reads += summ["reads"]
        for k, v in summ["classes"].items():
            classes[k] = classes.get(k, 0) + v
        ck.cov[f"{mode}_trace"] = {k: summ[k] for k in ("runs", "events", "reads", "ok_reads", "historical_reads", "reasked", "replay_checked")}
        mask = summ["mask"]
        for v in read_ndjson(results):
            keep = os.path.join(REPLAYS, f"C16-{seed}-{mode}-{re.sub(r'[^A-Za-z0-9_.-]', '_', v['key'])[:60]}.ndjson")
            with open(trace) as f, open(keep, "w") as g:
                for i, line in enumerate(f):
                    if i >= v["event_index"]:
                        break
                    g.write(line)
            ck.violation(v["key"], v["detail"], {"seed": seed, "tier": tier, "mode": mode, "key": v["key"],
                                                 "request": v["request"], "trace": keep})
        traces.append((mode, trace))
        if mode == "main":
            with open(trace) as f:
                evs = [json.loads(next(f)) for _ in range(12)]
            ck.sample({"trace_head": [e for e in evs if e["event"] != "observe"][:4]})
            ck.sample({"observe_event": next(e for e in evs if e["event"] == "observe")})

    # one TLC run over the concatenated traces (runs are separated by `reset` events); only if that is
    # rejected are the traces validated separately, with triage of the rejected event
    if len(traces) > 1:
        joined = os.path.join(WORK, "c16_all.ndjson")
        with open(joined, "w") as g:
            for _, t in traces:
                g.write(open(t).read())
        for _, t in traces:
            _collect_nontrivial(read_ndjson(t))
        ok, _line = _validate(ck, joined, "c16_all")
        if ok:
            accepted += sum(1 for _ in open(joined))
            traces = []
    for mode, trace in traces:
        accepted += _tv(ck, trace, f"c16_{mode}", seed, tier, mode)

    if mc_future is not None:
        ck.cov["mc_states"] = {}
        for cfg, res in mc_future.result():
            ck.add_tlc(res)
            if res.violation:
                ck.violation(f"spec:{cfg}:{res.violation}", "TLC property violated on the model:\n" + res.error_text[:3000],
                             {"cfg": cfg, "invariant": res.violation, "trace": res.error_text[:20000]})
            elif res.distinct < 50:
                raise ToolError(f"{cfg}: only {res.distinct} states (vacuous)")
            ck.cov["mc_states"][cfg] = res.distinct

    if modes:
        need = ["obs:CB/head:ok", "obs:CB/snapshot:ok", "obs:RT/truth:ok", "obs:QV/query:ok", "obs:RT/head:UnsupportedFrameProjection",
                "obs:CB/head:InvalidTick", "obs:CB/head:InvalidWorldline", "obs:QV/query:UnsupportedQuery",
                "obs:QV/query:ContractQueryObserverFailed", "obs:CB/head:BudgetExceeded", "optic:wl:head:ok/commit",
                "optic:wl:head:MissingWitness", "optic:wl:head:BudgetExceeded", "optic:att:attb:AttachmentDescentRequired"]
        need += ["posture:Worldline", "posture:StrandHistorical", "optic_ckpt_around:cptail"]
        if tier == "thorough":
            need += ["posture:StrandAtAnchor", "posture:StrandParentAdvancedDisjoint", "posture:StrandRevalidationRequired",
                     "optic:wl:head:ok/cptail", "optic:wl:head:LiveTailRequiresReduction"]
        missing = [c for c in need if c not in classes]
        if not replay and not any(c.startswith("posture:Strand") and c != "posture:StrandHistorical" for c in classes):
            missing.append("posture:<live strand frontier>")
        if missing and not replay:
            raise ToolError(f"request alphabet not covered: {missing}")
        ck.cov["result_classes"] = len(classes)
        ck.cov["result_class_counts"] = dict(sorted(classes.items()))
        ck.assumptions.append("fingerprint mask (exactly these `{:?}` fields, _for_test instrumentation counters): " + ", ".join(mask))
    ck.cov["traces_validated_against_impl"] = len(modes)
    ck.cov["trace_events_accepted"] = accepted
    ck.cov["evaluations"] = total_reads
    ck.cov["distinct_nontrivial"] = len(_NONTRIVIAL)
    ck.cov["rule"] = ("seeded runs: register/import/scheduler pass/fork/checkpoint actions with reads from the request alphabet in between (random reads, "
                      "re-asked historical requests, full sweeps of every frame x projection pair at every coordinate of every worldline); evaluations = observe / "
                      "observe_optic calls logged and validated (each executed twice back-to-back and compared); distinct_nontrivial = distinct (call, request, "
                      "runtime fingerprint, provenance fingerprint) tuples whose result is a reading or a typed error other than InvalidWorldline / "
                      "UnsupportedFrameProjection; states/transitions = TLC states of MC_C16 (whole request alphabet evaluated in each) plus trace-validation states")
    ck.cov["exhaustive"] = False
    ck.assumptions += [
        "fingerprints are BLAKE3 of the compact `{:?}` rendering of WorldlineRuntime and ProvenanceService (same fields as `{:#?}`, 10x cheaper) and of "
        "Engine::verif_fingerprint(); one fingerprint is taken after every read and the fingerprint before a read is the one taken after the "
        "previous call when nothing ran in between; both back-to-back executions of a read lie inside the bracket",
        "hashes in the trace are the first 16 hex digits of the real values; the harness compares full values",
        "the engine never emits materialization outputs ('Rules don't emit yet'): worldlines with recorded outputs are produced by real scheduler "
        "passes of a scratch runtime, their `outputs` filled in, appended with append_local_commit and registered from "
        "replay_worldline_state (public API only)",
        "one contract query observer (id 9001) is installed: a pure function of (query id, vars, resolved tick, state root)",
        "payload wire length (plen) is taken from the implementation and required to be a function of the payload; the harness recomputes it from to_abi() + encode_cbor",
        "artifact-hash equality is demanded only for equal abstract artifacts (same request, same history AND same global tick); observed_after_global_tick = read time",
        "strand parent-basis posture is modelled from the logged in/out slots of parent and child suffixes, not required constant",
        "optic witness basis is transcribed as built (for an explicit tick t the live tail is c..t-1)",
    ]
    return ck.finish()
