//! C10 - what was acknowledged survives any crash; what was not is invisible.
//!
//! Physical trace-validation leg. Generated submit/stage/tick workloads run on a REAL
//! `TrustedRuntimeHost` with a filesystem runtime WAL. Every host call is logged with the
//! segment length at its return and the ledger version on disk. Then, for byte lengths `b` of
//! the segment and every ledger version that can coexist with `b`, the directory is
//! materialised, a fresh host is opened (`enable_runtime_wal`), `recover_read_only` runs twice,
//! the recovered view is observed, retries must be duplicates and the continued run must end
//! like the uninterrupted one. One `probe` trace event per crash state; WalTrace.tla applies the
//! oracle. Store faults use the existing `FilesystemWalFaultPlan`.
//!
//! usage: echo-verif c10 <trace.ndjson> <seed> <quick|thorough> [replay.json]

use std::collections::{BTreeMap, BTreeSet};
use std::fs;
use std::path::{Path, PathBuf};

use rand::rngs::StdRng;
use rand::{Rng, SeedableRng};
use serde_json::{json, Value};
use warp_core::causal_wal::{
    doctor_filesystem_store, recover_filesystem_store, FilesystemWalFaultPlan, FilesystemWalFaultTarget,
    FilesystemWalStore, RecoveryAccessMode, WalManifest, WalSegmentId, WalStorePort,
};
use warp_core::{Hash, IntentOutcome, ProvenanceStore, TrustedRuntimeHost};

use crate::util::{catch, Out};
use crate::walfix_c10::*;

#[derive(Clone, Debug, PartialEq)]
pub enum Op {
    Submit(usize),
    Resubmit(usize),
    Stage(usize),
    Tick,
}

impl Op {
    fn json(&self) -> Value {
        match self {
            Op::Submit(i) => json!({"op": "submit", "sub": i}),
            Op::Resubmit(i) => json!({"op": "resubmit", "sub": i}),
            Op::Stage(i) => json!({"op": "stage", "sub": i}),
            Op::Tick => json!({"op": "tick"}),
        }
    }
}

#[derive(Clone, Debug)]
pub struct Workload {
    pub n: usize,
    /// worldline of each submission
    pub wl: Vec<usize>,
    pub ops: Vec<Op>,
    pub salt: String,
}

/// Seeded workload: every submission is submitted once (sometimes re-submitted), staged after
/// its submit, and ticked; a tick only ever sees staged work of ONE worldline (the filesystem
/// WAL rejects multi-head tick batches); up to `leave` submissions stay pending at the end.
pub fn gen_workload(rng: &mut StdRng, n: usize, leave: usize, salt: &str) -> Workload {
    let wl: Vec<usize> = (0..n).map(|_| rng.gen_range(0..NUM_WORLDLINES)).collect();
    let mut ops = Vec::new();
    let mut submitted: Vec<usize> = Vec::new();
    let mut unstaged: Vec<usize> = Vec::new();
    let mut staged: Vec<usize> = Vec::new();
    let mut next = 0usize;
    loop {
        let can_submit = next < n;
        let stageable: Vec<usize> =
            unstaged.iter().copied().filter(|i| staged.is_empty() || wl[staged[0]] == wl[*i]).collect();
        let can_stage = !stageable.is_empty() && staged.len() < 2;
        let can_tick = !staged.is_empty();
        if !can_submit && unstaged.len() <= leave && !can_tick {
            break;
        }
        let mut choices = Vec::new();
        if can_submit {
            choices.extend([0, 0]);
        }
        if can_stage && (can_submit || unstaged.len() > leave) {
            choices.extend([1, 1]);
        }
        if can_tick {
            choices.extend([2, 2]);
        }
        if !submitted.is_empty() && rng.gen_range(0..6) == 0 {
            choices.push(3);
        }
        if choices.is_empty() {
            break;
        }
        match choices[rng.gen_range(0..choices.len())] {
            0 => {
                ops.push(Op::Submit(next));
                submitted.push(next);
                unstaged.push(next);
                next += 1;
            }
            1 => {
                let i = stageable[rng.gen_range(0..stageable.len())];
                unstaged.retain(|x| *x != i);
                staged.push(i);
                ops.push(Op::Stage(i));
            }
            2 => {
                ops.push(Op::Tick);
                staged.clear();
            }
            _ => {
                let i = submitted[rng.gen_range(0..submitted.len())];
                ops.push(Op::Resubmit(i));
            }
        }
    }
    Workload { n, wl, ops, salt: salt.to_string() }
}

/// Result of one host call, as the application sees it.
#[derive(Clone, Debug)]
pub struct OpOutcome {
    pub res: String,
    pub detail: String,
    pub steps: usize,
}

pub struct Sim {
    pub host: TrustedRuntimeHost,
    pub dir: PathBuf,
    pub ids: Vec<Option<Hash>>,
    pub staged: BTreeSet<usize>,
}

impl Sim {
    pub fn apply(&mut self, wk: &Workload, op: &Op) -> OpOutcome {
        match op {
            Op::Submit(i) | Op::Resubmit(i) => {
                let env = envelope(*i, wk.wl[*i], &wk.salt);
                match self.host.app().submit_intent_with_runtime_wal_ack(env) {
                    Ok(handle) => {
                        self.ids[*i] = Some(handle.submission_id);
                        OpOutcome {
                            res: if handle.duplicate { "dup".into() } else { "acked".into() },
                            detail: String::new(),
                            steps: 0,
                        }
                    }
                    Err(e) => OpOutcome { res: "err".into(), detail: format!("{e:?}"), steps: 0 },
                }
            }
            Op::Stage(i) => match self.ids[*i] {
                None => OpOutcome { res: "err".into(), detail: "unknown submission".into(), steps: 0 },
                Some(id) => match self.host.admit_installed_contract_submission(id) {
                    Ok(_) => {
                        self.staged.insert(*i);
                        OpOutcome { res: "staged".into(), detail: String::new(), steps: 0 }
                    }
                    Err(e) => OpOutcome { res: "err".into(), detail: format!("{e:?}"), steps: 0 },
                },
            },
            Op::Tick => match self.host.tick_once() {
                Ok(steps) => {
                    self.staged.clear();
                    OpOutcome { res: "ticked".into(), detail: String::new(), steps: steps.len() }
                }
                Err(e) => OpOutcome { res: "err".into(), detail: format!("{e:?}"), steps: 0 },
            },
        }
    }
}

/// What is compared between the uninterrupted host after its k-th commit and a host recovered
/// from a crash state whose committed prefix has k transactions.
#[derive(Clone, Debug)]
pub struct View {
    /// strict fingerprint (includes log coordinates: LSN range, frontier root over commit digests)
    pub fp: String,
    /// fingerprint without log coordinates: what must coincide between the uninterrupted run and
    /// a run continued after recovery (writer epochs, hence commit digests, legitimately differ)
    pub fpc: String,
    pub subs: Vec<usize>,
    pub dec: Vec<usize>,
    pub k: u64,
    pub text: String,
}

pub fn view_of(host: &mut TrustedRuntimeHost, all_ids: &[Hash]) -> Result<View, String> {
    let mut text = String::new();
    let mut subs = Vec::new();
    let mut dec = Vec::new();
    for (i, id) in all_ids.iter().enumerate() {
        let o = host.app().observe_intent_outcome(id);
        match &o {
            IntentOutcome::Unknown { .. } => {}
            IntentOutcome::Pending { .. } => subs.push(i),
            _ => {
                subs.push(i);
                dec.push(i);
            }
        }
        text.push_str(&format!("sub{i}:{}\n", outcome_text(&o)));
    }
    for ix in 0..NUM_WORLDLINES {
        let wl = worldline(ix);
        let fr = host.runtime().worldlines().get(&wl).ok_or("worldline missing")?;
        let plen = host.provenance().len(wl).map_err(|e| format!("{e:?}"))?;
        text.push_str(&format!(
            "wl{ix}: tick={:?} root={} prov={}\n",
            fr.frontier_tick(),
            hash_hex(&fr.state().state_root()),
            plen
        ));
    }
    text.push_str(&format!("global_tick={:?}\n", host.runtime().global_tick()));
    text.push_str(&format!(
        "witnessed={} correlations={}\n",
        host.runtime().witnessed_submission_count(),
        host.runtime().receipt_correlation_count()
    ));
    let wal = host.runtime_wal().ok_or("no runtime wal")?;
    let rec = wal.recover_read_only().map_err(|e| format!("recover_read_only: {e:?}"))?;
    let k = rec.certificate.committed_transactions_replayed;
    text.push_str(&format!(
        "cert: n={} obstructions={} indexes={}\n",
        k,
        rec.certificate.obstruction_count,
        hash_hex(&rec.certificate.recovered_indexes_root)
    ));
    let coords = format!(
        "coords: first={:?} last={:?} frontier={}\n",
        rec.certificate.first_lsn,
        rec.certificate.last_lsn,
        hash_hex(&rec.certificate.recovered_frontier_root)
    );
    // the rebuilt submission index must agree with the app-facing view
    let mut idx_subs = Vec::new();
    for (i, id) in all_ids.iter().enumerate() {
        if let Some(e) = rec.submissions.get(id) {
            idx_subs.push(i);
            text.push_str(&format!("idx{i}: {:?} {:?}\n", e.posture, e.receipt_ref.map(|r| hash_hex(&r.commit_hash))));
        }
    }
    if idx_subs != subs {
        text.push_str(&format!("INDEX/APP MISMATCH idx={idx_subs:?} app={subs:?}\n"));
    }
    if rec.submissions.len() != idx_subs.len() {
        text.push_str(&format!("FOREIGN SUBMISSIONS IN INDEX: {}\n", rec.submissions.len()));
    }
    let fpc = h(text.as_bytes());
    text.push_str(&coords);
    Ok(View { fp: h(text.as_bytes()), fpc, subs, dec, k, text })
}

/// Log of one run (one incarnation of the host working through `ops[start_op..]`).
pub struct RunLog {
    pub start_op: usize,
    /// segment bytes at the start of the run (after the open) and at the end
    pub seg_start: Vec<u8>,
    pub seg_final: Vec<u8>,
    /// (first commit count it was seen with, bytes)
    pub ledgers: Vec<(usize, Vec<u8>)>,
    /// commits on disk when the run started
    pub k0: usize,
    /// view after k commits, index k - k0
    pub views: Vec<View>,
    /// per executed op: (op index, outcome, segment length after, commits after, staged-before set)
    pub steps: Vec<(usize, OpOutcome, usize, usize, BTreeSet<usize>)>,
    pub ids: Vec<Option<Hash>>,
    pub staged_end: BTreeSet<usize>,
    pub final_view: View,
}

fn commits_in(bytes: &[u8]) -> usize {
    parse_records(bytes).iter().filter(|r| r.kind == 2).count()
}

/// Runs ops[start_op..] on an already opened host, logging after every call.
pub fn run_ops(
    mut sim: Sim,
    wk: &Workload,
    all_ids: &[Hash],
    start_op: usize,
    fault: Option<(usize, FilesystemWalFaultTarget)>,
) -> Result<(RunLog, Sim), String> {
    let seg_start = read_segment(&sim.dir);
    let k0 = commits_in(&seg_start);
    let mut ledgers: Vec<(usize, Vec<u8>)> = Vec::new();
    if let Some(l) = read_ledger(&sim.dir) {
        ledgers.push((k0, l));
    }
    let mut views = vec![view_of(&mut sim.host, all_ids)?];
    let mut steps = Vec::new();
    let mut k = k0;
    for j in start_op..wk.ops.len() {
        let staged_before = sim.staged.clone();
        if let Some((fj, target)) = fault {
            if fj == j {
                sim.host
                    .inject_runtime_wal_filesystem_fault_for_test(FilesystemWalFaultPlan::fail_next(target))
                    .map_err(|e| format!("inject: {e:?}"))?;
            }
        }
        let out = sim.apply(wk, &wk.ops[j]);
        let seg = read_segment(&sim.dir);
        let kn = commits_in(&seg);
        if kn > k + 1 {
            return Err(format!("op {j} produced {} commits", kn - k));
        }
        if kn == k + 1 {
            views.push(view_of(&mut sim.host, all_ids)?);
            k = kn;
        } else if kn < k {
            return Err(format!("op {j} lost commits: {k} -> {kn}"));
        }
        if let Some(l) = read_ledger(&sim.dir) {
            if ledgers.last().map(|x| &x.1) != Some(&l) {
                ledgers.push((k, l));
            }
        }
        steps.push((j, out, seg.len(), k, staged_before));
    }
    let final_view = view_of(&mut sim.host, all_ids)?;
    let log = RunLog {
        start_op,
        seg_start,
        seg_final: read_segment(&sim.dir),
        ledgers,
        k0,
        views,
        steps,
        ids: sim.ids.clone(),
        staged_end: sim.staged.clone(),
        final_view,
    };
    Ok((log, sim))
}

/// Dry run on a scratch directory to learn the (deterministic) submission ids.
fn learn_ids(wk: &Workload, dir: &Path) -> Result<Vec<Hash>, String> {
    let _ = fs::remove_dir_all(dir);
    let mut host = open_host(dir)?;
    host.register_contract_package(package()).map_err(|e| format!("{e:?}"))?;
    let mut sim = Sim { host, dir: dir.to_path_buf(), ids: vec![None; wk.n], staged: BTreeSet::new() };
    for (j, op) in wk.ops.iter().enumerate() {
        let out = sim.apply(wk, op);
        if out.res == "err" {
            return Err(format!("dry run: op {j} {op:?} failed: {}", out.detail));
        }
    }
    let ids: Vec<Hash> = sim.ids.iter().map(|x| x.ok_or("id missing")).collect::<Result<_, _>>()?;
    drop(sim);
    let _ = fs::remove_dir_all(dir);
    Ok(ids)
}

#[derive(Clone, Debug)]
pub struct ProbeOut {
    pub ev: Value,
    pub ok_flags: bool,
    pub cont_log: Option<(Vec<u8>, Vec<(usize, Vec<u8>)>)>,
}

pub struct ProbeCtx<'a> {
    pub wk: &'a Workload,
    pub all_ids: &'a [Hash],
    pub log: &'a RunLog,
    /// commits-after-op of every op of the workload in the UNINTERRUPTED run (global commit numbers)
    pub op_commit: &'a [usize],
    pub staged_before: &'a [BTreeSet<usize>],
    pub uninterrupted_final: &'a View,
    pub total_commits: usize,
}

/// One crash state: segment cut to `b` bytes + ledger version `lv` (+ optional torn ledger temp
/// file). Opens a fresh host on it and observes; then continues.
pub fn probe(
    ctx: &ProbeCtx,
    dir: &Path,
    b: usize,
    lv: Option<usize>,
    tmp: bool,
    level: usize,
    want_cont_log: bool,
    reopen: bool,
    lite: bool,
) -> (Value, Option<(RunLog, PathBuf)>) {
    let seg = &ctx.log.seg_final[..b];
    let ledger = lv.map(|v| ctx.log.ledgers[v].1.as_slice());
    let tmp_bytes: Option<Vec<u8>> = if tmp {
        let nxt = lv.map(|v| v + 1).unwrap_or(0);
        ctx.log.ledgers.get(nxt).map(|x| x.1[..x.1.len() / 2].to_vec())
    } else {
        None
    };
    materialise(dir, seg, ledger, tmp_bytes.as_deref());
    let mut ev = json!({"event": "probe", "b": b, "lv": lv.map(|v| v as i64).unwrap_or(-1), "tmp": tmp, "level": level});
    let cb0 = callbacks();
    // read-only entry points first: they must not touch the directory
    let ro1 = catch(|| recover_filesystem_store(dir, RecoveryAccessMode::ReadOnly));
    let doc = catch(|| doctor_filesystem_store(dir));
    let ro_pure = read_segment(dir) == seg && read_ledger(dir).as_deref() == ledger;
    let ro_k = match &ro1 {
        Ok(Ok(r)) => r.transactions.len() as i64,
        _ => -1,
    };
    ev["ro_k"] = json!(ro_k);
    ev["ro_tail"] = json!(match &ro1 {
        Ok(Ok(r)) => format!("{:?}", r.tail_posture),
        Ok(Err(e)) => format!("ERR {e:?}"),
        Err(p) => format!("PANIC {p}"),
    });
    ev["doctor"] = json!(match &doc {
        Ok(Ok(d)) => format!("{:?}", d.posture),
        Ok(Err(e)) => format!("ERR {e:?}"),
        Err(p) => format!("PANIC {p}"),
    });
    ev["ro_pure"] = json!(ro_pure);
    // fresh host
    let opened = catch(|| open_host(dir));
    let mut host: TrustedRuntimeHost = match opened {
        Ok(Ok(hh)) => hh,
        Ok(Err(e)) => {
            ev["opened"] = json!(false);
            ev["err"] = json!(e);
            return (ev, None);
        }
        Err(p) => {
            ev["opened"] = json!(false);
            ev["err"] = json!(format!("PANIC {p}"));
            return (ev, None);
        }
    };
    ev["opened"] = json!(true);
    let r1 = host.runtime_wal().map(|w| w.recover_read_only());
    let r2 = host.runtime_wal().map(|w| w.recover_read_only());
    let idem = match (&r1, &r2) {
        (Some(Ok(a)), Some(Ok(b2))) => a == b2,
        _ => false,
    };
    ev["idem"] = json!(idem);
    let seg_after_open = read_segment(dir);
    ev["len_open"] = json!(seg_after_open.len());
    let view = match view_of(&mut host, ctx.all_ids) {
        Ok(v) => v,
        Err(e) => {
            ev["opened"] = json!(false);
            ev["err"] = json!(format!("view: {e}"));
            return (ev, None);
        }
    };
    let cb1 = callbacks();
    ev["cb"] = json!(cb0 == cb1);
    ev["k"] = json!(view.k);
    ev["fp"] = json!(view.fp);
    ev["subs"] = json!(view.subs);
    ev["dec"] = json!(view.dec);
    ev["tail_clean"] = json!(r1
        .as_ref()
        .and_then(|r| r.as_ref().ok())
        .map(|r| format!("{:?}", r.certificate.tail_posture))
        .unwrap_or_default());
    // optionally: a second incarnation on the recovered directory WITHOUT any write in between
    // (crash right after recovery): it must show the same view, and the continuation below then
    // runs on a host that was opened twice.
    ev["reopened"] = json!(reopen);
    if reopen {
        drop(host);
        host = match catch(|| open_host(dir)) {
            Ok(Ok(hh)) => hh,
            Ok(Err(e)) => {
                ev["reopen_same"] = json!(false);
                ev["err"] = json!(format!("second open failed: {e}"));
                return (ev, None);
            }
            Err(p) => {
                ev["reopen_same"] = json!(false);
                ev["err"] = json!(format!("second open panicked: {p}"));
                return (ev, None);
            }
        };
        let view2 = view_of(&mut host, ctx.all_ids);
        let same = matches!(&view2, Ok(v2) if v2.fp == view.fp) && read_segment(dir) == seg_after_open;
        ev["reopen_same"] = json!(same);
        if !same {
            ev["err"] = json!(format!("view after second open differs: {:?}", view2.map(|v| v.text)));
        }
        ev["cb"] = json!(callbacks() == cb0);
    }
    // ---- continue --------------------------------------------------------------
    let k = view.k as usize;
    // resume at the first op of the uninterrupted run that is not reflected by k commits
    let mut j = ctx.wk.ops.len();
    for (ix, c) in ctx.op_commit.iter().enumerate() {
        if *c > k {
            j = ix;
            break;
        }
    }
    if let Err(e) = host.register_contract_package(package()) {
        ev["cont"] = json!(false);
        ev["err"] = json!(format!("register: {e:?}"));
        return (ev, None);
    }
    let mut sim = Sim { host, dir: dir.to_path_buf(), ids: vec![None; ctx.wk.n], staged: BTreeSet::new() };
    // retries of everything submitted before the resume point must be duplicates and append nothing
    let mut dup_ok = true;
    let mut dup_detail = String::new();
    let len_before = read_segment(dir).len();
    for jj in 0..j {
        if let Op::Submit(i) = &ctx.wk.ops[jj] {
            let out = sim.apply(ctx.wk, &Op::Resubmit(*i));
            if out.res != "dup" || sim.ids[*i] != Some(ctx.all_ids[*i]) {
                dup_ok = false;
                dup_detail = format!("retry of sub {i}: {} {}", out.res, out.detail);
            }
        }
    }
    if read_segment(dir).len() != len_before {
        dup_ok = false;
        dup_detail.push_str(" retries appended to the log");
    }
    ev["dup"] = json!(dup_ok);
    if !dup_ok {
        ev["err"] = json!(dup_detail);
    }
    ev["lite"] = json!(lite);
    if lite {
        // every-byte sweep: the continuation (which appends and syncs) is run for the boundary
        // offsets only; here the recovered view, idempotence, callbacks and retries are judged
        ev["cont"] = json!(true);
        return (ev, None);
    }
    // staging is not WAL-recorded: re-stage what was staged and undecided at the resume point
    let restage: Vec<usize> = if j < ctx.staged_before.len() {
        ctx.staged_before[j].iter().copied().collect()
    } else {
        ctx.log.staged_end.iter().copied().collect()
    };
    for i in restage {
        let out = sim.apply(ctx.wk, &Op::Stage(i));
        if out.res == "err" {
            ev["cont"] = json!(false);
            ev["err"] = json!(format!("restage {i}: {}", out.detail));
            return (ev, None);
        }
    }
    match run_ops(sim, ctx.wk, ctx.all_ids, j, None) {
        Ok((clog, sim2)) => {
            let errs: Vec<String> = clog
                .steps
                .iter()
                .filter(|s| s.1.res == "err")
                .map(|s| format!("op {} {:?}: {}", s.0, ctx.wk.ops[s.0], s.1.detail))
                .collect();
            let same = clog.final_view.fpc == ctx.uninterrupted_final.fpc
                && commits_in(&clog.seg_final) == ctx.total_commits
                && errs.is_empty();
            ev["cont"] = json!(same);
            ev["resume_op"] = json!(j);
            if !same {
                ev["err"] = json!(format!(
                    "continued run differs: errs={errs:?} commits={} want {}\n--- got\n{}--- want\n{}",
                    commits_in(&clog.seg_final),
                    ctx.total_commits,
                    clog.final_view.text,
                    ctx.uninterrupted_final.text
                ));
            }
            drop(sim2);
            if want_cont_log {
                return (ev, Some((clog, dir.to_path_buf())));
            }
            (ev, None)
        }
        Err(e) => {
            ev["cont"] = json!(false);
            ev["err"] = json!(format!("continue: {e}"));
            (ev, None)
        }
    }
}

fn rec_events(bytes: &[u8], from: usize, txmap: &mut BTreeMap<[u8; 32], usize>, out: &mut Vec<Value>) {
    for r in parse_records(bytes).into_iter().filter(|r| r.start >= from) {
        let n = txmap.len() + 1;
        let tx = *txmap.entry(r.tx).or_insert(n);
        // writer epochs are numbered by first appearance (keys are prefixed to keep them apart from tx ids)
        let mut epochs: Vec<[u8; 32]> = Vec::new();
        for q in parse_records(bytes) {
            if !epochs.contains(&q.epoch) {
                epochs.push(q.epoch);
            }
        }
        let ep = epochs.iter().position(|e| *e == r.epoch).unwrap_or(0) + 1;
        out.push(json!({"event": "rec", "kind": if r.kind == 1 {"frame"} else {"commit"}, "tx": tx,
            "idx": if r.kind == 1 { r.idx + 1 } else { r.idx }, "lsn": r.lsn, "first": r.first, "ep": ep,
            "ext": r.end - r.start, "end": r.end}));
    }
}

/// Emits the trace of one run: records, host calls, ledger versions.
fn run_events(
    wk: &Workload,
    log: &RunLog,
    run_id: &str,
    level: usize,
    carried_subs: &[usize],
    carried_dec: &[usize],
    out: &mut Vec<Value>,
) {
    out.push(json!({"event": "reset", "run": run_id, "level": level, "k0": log.k0, "len0": log.seg_start.len(),
        "fp0": log.views[0].fp, "subs0": carried_subs, "dec0": carried_dec}));
    let mut txmap = BTreeMap::new();
    rec_events(&log.seg_start, 0, &mut txmap, out);
    out.push(json!({"event": "opened"}));
    let mut emitted = log.seg_start.len();
    let mut k = log.k0;
    let mut lv_emitted = 0usize;
    let emit_ledgers = |upto_k: usize, lv_emitted: &mut usize, out: &mut Vec<Value>| {
        while *lv_emitted < log.ledgers.len() && log.ledgers[*lv_emitted].0 <= upto_k {
            out.push(json!({"event": "ledger", "ver": *lv_emitted, "k": log.ledgers[*lv_emitted].0}));
            *lv_emitted += 1;
        }
    };
    emit_ledgers(k, &mut lv_emitted, out);
    for (j, o, len, kn, _) in &log.steps {
        // a host call that shrank or rewrote the file (fault repair) is announced by a rewrite event
        if *len < emitted {
            out.push(json!({"event": "rewrite", "len": len}));
            txmap.clear();
            emitted = 0;
        }
        rec_events(&log.seg_final[..*len], emitted, &mut txmap, out);
        emitted = *len;
        emit_ledgers(*kn, &mut lv_emitted, out);
        let mut e = wk.ops[*j].json();
        e["event"] = json!("call");
        e["j"] = json!(j);
        e["res"] = json!(o.res);
        e["len"] = json!(len);
        e["k"] = json!(kn);
        e["steps"] = json!(o.steps);
        if *kn > k {
            e["fp"] = json!(log.views[*kn - log.k0].fp);
            e["vsubs"] = json!(log.views[*kn - log.k0].subs);
            e["vdec"] = json!(log.views[*kn - log.k0].dec);
            k = *kn;
        }
        out.push(e);
    }
}

fn probe_offsets(rng: &mut StdRng, seg: &[u8], lo: usize, tier: &str, extra: usize) -> Vec<usize> {
    let mut set = BTreeSet::new();
    if tier == "thorough" {
        for b in lo..=seg.len() {
            set.insert(b);
        }
        return set.into_iter().collect();
    }
    for r in parse_records(seg) {
        for b in [r.start, r.start + 1, r.start + REC_HEADER, r.end - 33, r.end - 32, r.end - 1, r.end] {
            if b >= lo && b <= seg.len() {
                set.insert(b);
            }
        }
        if r.start > 0 && r.start - 1 >= lo {
            set.insert(r.start - 1);
        }
    }
    set.insert(lo);
    set.insert(seg.len());
    if seg.len() > lo {
        for _ in 0..extra {
            set.insert(rng.gen_range(lo..=seg.len()));
        }
    }
    set.into_iter().collect()
}

/// ledger versions of a run that can coexist with a segment cut at b: version with k_at = kv is
/// on disk from the moment commit kv is synced until the version for commit kv+1 replaces it,
/// which happens right after commit kv+1 is synced and before anything else is appended.
fn coexisting(log: &RunLog, b: usize) -> Vec<usize> {
    let recs = parse_records(&log.seg_final);
    let commit_ends: Vec<usize> = recs.iter().filter(|r| r.kind == 2).map(|r| r.end).collect();
    let mut out = Vec::new();
    for (v, (kv, _)) in log.ledgers.iter().enumerate() {
        let is_last_with_k = log.ledgers.iter().skip(v + 1).all(|x| x.0 != *kv);
        if !is_last_with_k {
            continue;
        }
        let lo = if *kv <= log.k0 { 0 } else { commit_ends.get(*kv - 1).copied().unwrap_or(usize::MAX) };
        let hi = commit_ends.get(*kv).copied().unwrap_or(usize::MAX);
        if b >= lo && b <= hi {
            out.push(v);
        }
    }
    out
}

pub fn run(args: &[String]) -> i32 {
    if args.len() < 3 {
        eprintln!("usage: echo-verif c10 <trace.ndjson> <seed> <quick|thorough> [replay.json]");
        return 2;
    }
    let seed: u64 = args[1].parse().unwrap_or(1);
    let tier = args[2].as_str();
    let replay: Option<Value> =
        args.get(3).map(|p| serde_json::from_str(&fs::read_to_string(p).expect("replay readable")).expect("replay json"));
    let scratch = PathBuf::from(SCRATCH).join(format!("c10-{}", std::process::id()));
    let _ = fs::remove_dir_all(&scratch);
    fs::create_dir_all(&scratch).expect("scratch");
    let mut out = Out::create(&args[0]);
    let code = match main_leg(seed, tier, replay.as_ref(), &scratch, &mut out) {
        Ok(summary) => {
            println!("{summary}");
            0
        }
        Err(e) => {
            eprintln!("c10 harness error: {e}");
            2
        }
    };
    out.finish();
    let _ = fs::remove_dir_all(&scratch);
    code
}

fn main_leg(seed: u64, tier: &str, replay: Option<&Value>, scratch: &Path, out: &mut Out) -> Result<Value, String> {
    let (n_workloads, n_subs, extra, l2_parents, l2_extra, fault_runs) = match tier {
        "thorough" => (3usize, 5usize, 300usize, 10usize, 80usize, usize::MAX),
        _ => (2, 4, 80, 4, 25, usize::MAX),
    };
    let mut probes = 0u64;
    let mut torn = 0u64;
    let mut level2 = 0u64;
    let mut faults = 0u64;
    let mut runs = 0u64;
    let mut seg_bytes = Vec::new();
    for w in 0..n_workloads {
        let mut rng = StdRng::seed_from_u64(seed.wrapping_mul(1_000_003).wrapping_add(w as u64));
        let wk = gen_workload(&mut rng, n_subs + w, w % 2, "");
        if let Some(r) = replay {
            if r["w"].as_u64() != Some(w as u64) {
                continue;
            }
        }
        let all_ids = learn_ids(&wk, &scratch.join("dry"))?;
        // ---- the uninterrupted, logged run -----------------------------------------
        let base = scratch.join("base");
        let _ = fs::remove_dir_all(&base);
        let mut host = open_host(&base)?;
        host.register_contract_package(package()).map_err(|e| format!("{e:?}"))?;
        let sim = Sim { host, dir: base.clone(), ids: vec![None; wk.n], staged: BTreeSet::new() };
        let (log, sim) = run_ops(sim, &wk, &all_ids, 0, None)?;
        drop(sim);
        for s in &log.steps {
            if s.1.res == "err" {
                return Err(format!("uninterrupted run: op {} {:?} failed: {}", s.0, wk.ops[s.0], s.1.detail));
            }
        }
        if log.ids.iter().zip(all_ids.iter()).any(|(a, b)| a.as_ref() != Some(b)) {
            return Err("submission ids are not deterministic".into());
        }
        let op_commit: Vec<usize> = log.steps.iter().map(|s| s.3).collect();
        let staged_before: Vec<BTreeSet<usize>> = log.steps.iter().map(|s| s.4.clone()).collect();
        let total = commits_in(&log.seg_final);
        seg_bytes.push(log.seg_final.len());
        let mut events = Vec::new();
        let run_id = format!("w{w}");
        out.line(&json!({"event": "workload", "w": w, "ops": wk.ops.iter().map(Op::json).collect::<Vec<_>>(), "wl": wk.wl,
            "segment_bytes": log.seg_final.len(), "commits": total}));
        run_events(&wk, &log, &run_id, 1, &[], &[], &mut events);
        runs += 1;
        let ctx = ProbeCtx {
            wk: &wk,
            all_ids: &all_ids,
            log: &log,
            op_commit: &op_commit,
            staged_before: &staged_before,
            uninterrupted_final: &log.final_view,
            total_commits: total,
        };
        // ---- level 1 probes -------------------------------------------------------------
        let rp_parent = replay.and_then(|r| r.get("parent_b")).and_then(Value::as_u64).map(|x| x as usize);
        let rp_b = replay.and_then(|r| r.get("b")).and_then(Value::as_u64).map(|x| x as usize);
        let rp_fault_only = replay.map(|r| r.get("fault").is_some()).unwrap_or(false);
        let offsets = match (rp_parent, rp_b) {
            _ if rp_fault_only => vec![],
            (Some(p), _) => vec![p],
            (None, Some(b)) => vec![b],
            _ => probe_offsets(&mut rng, &log.seg_final, 0, if tier == "thorough" && w == 0 { "thorough" } else { "quick" }, extra),
        };
        // offsets that get the full probe (continuation, second cycle); all others are swept "lite"
        let full_offsets: BTreeSet<usize> = match (rp_parent, rp_b) {
            (None, None) if !rp_fault_only && tier == "thorough" && w == 0 => {
                let mut r2 = StdRng::seed_from_u64(seed ^ 0x5eed);
                probe_offsets(&mut r2, &log.seg_final, 0, "quick", extra).into_iter().collect()
            }
            _ => offsets.iter().copied().collect(),
        };
        let rec_ends: BTreeSet<usize> = parse_records(&log.seg_final).iter().map(|r| r.end).collect();
        // choose parents for level-2 cycles: spread over the offsets
        let mut parents: BTreeSet<usize> = BTreeSet::new();
        if let Some(p) = rp_parent {
            parents.insert(p);
        }
        if replay.is_none() && !offsets.is_empty() {
            let fo: Vec<usize> = full_offsets.iter().copied().collect();
            for p in 0..l2_parents {
                parents.insert(fo[(p * 2 + 1) * fo.len() / (2 * l2_parents)]);
            }
        }
        let reopen_mode = std::env::var("VERIF_C10_REOPEN").map(|v| v != "0").unwrap_or(true);
        let pdir = scratch.join("probe");
        let mut deferred: Vec<Value> = Vec::new();
        for (ix, b) in offsets.iter().enumerate() {
            let mut lvs: Vec<Option<usize>> = coexisting(&log, *b).into_iter().map(Some).collect();
            if *b == 0 {
                lvs.push(None);
            }
            for lv in lvs {
                let tmp = match replay.and_then(|r| r.get("tmp")).and_then(Value::as_bool) {
                    Some(t) => t,
                    None => ix % 7 == 3,
                };
                let reopen_this = match replay.and_then(|r| r.get("reopen")).and_then(Value::as_bool) {
                    Some(t) => t,
                    None => reopen_mode && ix % 5 == 2,
                };
                let want = parents.contains(b) && lv.is_some();
                let lite = !full_offsets.contains(b);
                let (mut ev, cont) = probe(&ctx, &pdir, *b, lv, tmp, 1, want && !lite, reopen_this && !lite, lite);
                ev["run"] = json!(run_id);
                ev["w"] = json!(w);
                probes += 1;
                if *b > 0 && !rec_ends.contains(b) {
                    torn += 1;
                }
                events.push(ev.clone());
                // ---- level 2: crash the continued run again ----------------------------------
                if let Some((clog, _)) = cont {
                    let run2 = format!("w{w}b{b}");
                    let mut ev2s = Vec::new();
                    let carried_subs: Vec<usize> = ev["subs"].as_array().map(|a| a.iter().filter_map(|x| x.as_u64().map(|y| y as usize)).collect()).unwrap_or_default();
                    let carried_dec: Vec<usize> = ev["dec"].as_array().map(|a| a.iter().filter_map(|x| x.as_u64().map(|y| y as usize)).collect()).unwrap_or_default();
                    run_events(&wk, &clog, &run2, 2, &carried_subs, &carried_dec, &mut ev2s);
                    runs += 1;
                    // op_commit for the continued run: ops before its start are reflected by k0
                    let mut oc2: Vec<usize> = vec![0; wk.ops.len()];
                    let mut sb2: Vec<BTreeSet<usize>> = vec![BTreeSet::new(); wk.ops.len()];
                    for jj in 0..clog.start_op {
                        oc2[jj] = op_commit[jj].min(clog.k0);
                        sb2[jj] = staged_before[jj].clone();
                    }
                    for s in &clog.steps {
                        oc2[s.0] = s.3;
                        sb2[s.0] = s.4.clone();
                    }
                    let ctx2 = ProbeCtx {
                        wk: &wk,
                        all_ids: &all_ids,
                        log: &clog,
                        op_commit: &oc2,
                        staged_before: &sb2,
                        uninterrupted_final: &log.final_view,
                        total_commits: total,
                    };
                    let lo2 = clog.seg_start.len();
                    let mut rng2 = StdRng::seed_from_u64(seed ^ (*b as u64) << 8);
                    let offs2 = if tier == "thorough" {
                        probe_offsets(&mut rng2, &clog.seg_final, lo2, "quick", l2_extra)
                    } else {
                        let all = probe_offsets(&mut rng2, &clog.seg_final, lo2, "quick", l2_extra);
                        let step = (all.len() / 30).max(1);
                        all.into_iter().step_by(step).collect()
                    };
                    let p2 = scratch.join("probe2");
                    let offs2: Vec<usize> = match (rp_parent, rp_b) {
                        (Some(_), Some(b2)) => vec![b2],
                        _ => offs2,
                    };
                    for b2 in offs2 {
                        for lv2 in coexisting(&clog, b2) {
                            let (mut e2, _) = probe(&ctx2, &p2, b2, Some(lv2), false, 2, false, false, false);
                            e2["run"] = json!(run2);
                            e2["w"] = json!(w);
                            e2["parent_b"] = json!(b);
                            probes += 1;
                            level2 += 1;
                            ev2s.push(e2);
                        }
                    }
                    let _ = fs::remove_dir_all(&p2);
                    // level-2 runs are appended after the level-1 run's events
                    deferred.extend(ev2s);
                }
            }
        }
        let _ = fs::remove_dir_all(&pdir);
        for e in events.iter().chain(deferred.iter()) {
            out.line(e);
        }
        // ---- store faults at every operation index ---------------------------------------------
        if replay.is_none() || replay.and_then(|r| r.get("fault")).is_some() {
            let targets = [
                (FilesystemWalFaultTarget::AppendFrame, "append_frame"),
                (FilesystemWalFaultTarget::FlushCommit, "flush_commit"),
                (FilesystemWalFaultTarget::CommitMarkerSynced, "commit_marker_synced"),
            ];
            let mut done = 0usize;
            for j in 0..wk.ops.len() {
                for (target, tname) in targets {
                    if done >= fault_runs {
                        break;
                    }
                    let evs = fault_run(&wk, &all_ids, &log, j, target, tname, &scratch.join("fault"), w)?;
                    faults += 1;
                    done += 1;
                    for e in evs {
                        out.line(&e);
                    }
                }
            }
            let e = manifest_fault(&log, &scratch.join("manifest"), w)?;
            out.line(&e);
            faults += 1;
        }
        let _ = fs::remove_dir_all(&base);
    }
    Ok(json!({"probes": probes, "torn_probes": torn, "level2_probes": level2, "fault_runs": faults, "runs": runs,
        "segment_bytes": seg_bytes}))
}

/// Runs the workload with a store fault injected right before op j. The host must either report
/// an error with nothing un-durable acknowledged/published (and memory rolled back), or - when
/// the transaction is already durable - return Ok. Afterwards the op is retried and the run must
/// end like the uninterrupted one; the final directory is crash-probed at its full length.
fn fault_run(
    wk: &Workload,
    all_ids: &[Hash],
    base: &RunLog,
    j: usize,
    target: FilesystemWalFaultTarget,
    tname: &str,
    dir: &Path,
    w: usize,
) -> Result<Vec<Value>, String> {
    match fault_run_inner(wk, all_ids, base, j, target, tname, dir, w) {
        Ok(v) => Ok(v),
        // a failure AFTER the fault was injected is an observation about the code under test
        Err(e) if e.starts_with("after-fault:") => {
            let _ = fs::remove_dir_all(dir);
            Ok(vec![json!({
                "event": "fault", "w": w, "j": j, "op": wk.ops[j].json(), "target": tname, "writes": true,
                "res": "err", "detail": e, "k_before": 0, "k_after": 0, "mem_same": false, "fp_after": "",
                "crash_k": -1, "crash_fp": "", "fp_before": "", "retry": "err", "tail_err": e, "final_same": false,
            })])
        }
        Err(e) => Err(e),
    }
}

fn fault_run_inner(
    wk: &Workload,
    all_ids: &[Hash],
    base: &RunLog,
    j: usize,
    target: FilesystemWalFaultTarget,
    tname: &str,
    dir: &Path,
    w: usize,
) -> Result<Vec<Value>, String> {
    let _ = fs::remove_dir_all(dir);
    let mut host = open_host(dir)?;
    host.register_contract_package(package()).map_err(|e| format!("{e:?}"))?;
    let mut sim = Sim { host, dir: dir.to_path_buf(), ids: vec![None; wk.n], staged: BTreeSet::new() };
    for jj in 0..j {
        let o = sim.apply(wk, &wk.ops[jj]);
        if o.res == "err" {
            return Err(format!("fault run prefix op {jj}: {}", o.detail));
        }
    }
    let before = view_of(&mut sim.host, all_ids)?;
    let seg_before = read_segment(dir);
    let k_before = commits_in(&seg_before);
    sim.host
        .inject_runtime_wal_filesystem_fault_for_test(FilesystemWalFaultPlan::fail_next(target))
        .map_err(|e| format!("inject: {e:?}"))?;
    let staged_before = sim.staged.clone();
    let o = sim.apply(wk, &wk.ops[j]);
    let after = view_of(&mut sim.host, all_ids).map_err(|e| format!("after-fault: {e}"))?;
    let seg_after = read_segment(dir);
    let k_after = commits_in(&seg_after);
    let writes = matches!(wk.ops[j], Op::Submit(_) | Op::Tick) && base.steps[j].3 > if j == 0 { base.k0 } else { base.steps[j - 1].3 };
    // what would a crash right now recover?
    let pdir = dir.with_extension("p");
    materialise(&pdir, &seg_after, read_ledger(dir).as_deref(), None);
    let crash_view = match catch(|| open_host(&pdir)) {
        Ok(Ok(mut h2)) => view_of(&mut h2, all_ids).map(|v| (v.k as i64, v.fp)).unwrap_or((-1, String::new())),
        _ => (-1, String::new()),
    };
    let _ = fs::remove_dir_all(&pdir);
    // disarm a fault that was not consumed (the op wrote nothing), then retry and finish
    sim.host
        .inject_runtime_wal_filesystem_fault_for_test(FilesystemWalFaultPlan::default())
        .map_err(|e| format!("disarm: {e:?}"))?;
    let mut retry_res = String::new();
    if o.res == "err" {
        sim.staged = staged_before;
        let r = sim.apply(wk, &wk.ops[j]);
        retry_res = r.res.clone();
        if r.res == "err" {
            retry_res = format!("err: {}", r.detail);
        }
    }
    let mut tail_err = String::new();
    for jj in (j + 1)..wk.ops.len() {
        let r = sim.apply(wk, &wk.ops[jj]);
        if r.res == "err" {
            tail_err = format!("op {jj}: {}", r.detail);
            break;
        }
    }
    let fin = view_of(&mut sim.host, all_ids).map_err(|e| format!("after-fault: {e}"))?;
    drop(sim);
    let _ = fs::remove_dir_all(dir);
    Ok(vec![json!({
        "event": "fault", "w": w, "j": j, "op": wk.ops[j].json(), "target": tname, "writes": writes,
        "res": o.res, "detail": o.detail, "k_before": k_before, "k_after": k_after,
        "mem_same": before.fp == after.fp, "fp_after": after.fp,
        "crash_k": crash_view.0, "crash_fp": crash_view.1, "fp_before": before.fp,
        "retry": retry_res, "tail_err": tail_err,
        "final_same": fin.fpc == base.final_view.fpc && tail_err.is_empty(),
    })])
}

/// Manifest publish fault on the store itself (the host never publishes a manifest).
fn manifest_fault(base: &RunLog, dir: &Path, w: usize) -> Result<Value, String> {
    materialise(dir, &base.seg_final, base.ledgers.last().map(|x| x.1.as_slice()), None);
    let before = recover_filesystem_store(dir, RecoveryAccessMode::ReadOnly).map_err(|e| format!("{e:?}"))?;
    let mut store = FilesystemWalStore::open_with_fault_plan_for_test(
        dir,
        WalSegmentId::from_raw(1),
        FilesystemWalFaultPlan::fail_next(FilesystemWalFaultTarget::PublishManifest),
    )
    .map_err(|e| format!("{e:?}"))?;
    let next = before.last_committed_lsn().map(|l| l.as_u64() + 1).unwrap_or(0);
    let epoch =
        store.acquire_fresh_writer_epoch(warp_core::causal_wal::Lsn::from_raw(next)).map_err(|e| format!("{e:?}"))?;
    let res = store.publish_manifest(
        epoch.epoch_id,
        WalManifest {
            manifest_digest: [7; 32],
            last_committed_lsn: before.last_committed_lsn(),
            last_commit_digest: before.last_commit_digest(),
            sealed_segment_count: 1,
        },
    );
    let exists = dir.join("manifest.ecwal").exists() || dir.join(".manifest.ecwal.tmp").exists();
    drop(store);
    let after = recover_filesystem_store(dir, RecoveryAccessMode::ReadOnly).map_err(|e| format!("{e:?}"))?;
    let _ = fs::remove_dir_all(dir);
    Ok(json!({"event": "manifest_fault", "w": w, "res": if res.is_err() {"err"} else {"ok"}, "manifest_written": exists,
        "history_same": before.transactions == after.transactions}))
}

/// Experiment / fixed scenario: open, commit, reopen WITHOUT writing, reopen again, commit,
/// then recover. usage: echo-verif c10-gap <out.ndjson> <reopens>
pub fn run_gap(args: &[String]) -> i32 {
    let reopens: usize = args.get(1).and_then(|x| x.parse().ok()).unwrap_or(2);
    let dir = PathBuf::from(SCRATCH).join(format!("c10gap-{}", std::process::id()));
    let _ = fs::remove_dir_all(&dir);
    let mut out = Out::create(&args[0]);
    let ev = gap_scenario(&dir, reopens);
    println!("{ev}");
    out.line(&ev);
    out.finish();
    let _ = fs::remove_dir_all(&dir);
    0
}

pub fn gap_scenario(dir: &Path, reopens: usize) -> Value {
    let wk = Workload { n: 2, wl: vec![0, 0], ops: vec![Op::Submit(0), Op::Submit(1)], salt: String::new() };
    let mut ev = json!({"event": "gap", "reopens": reopens});
    let mut lsns = Vec::new();
    let mut step = |host: TrustedRuntimeHost, op: Option<&Op>| -> Result<String, String> {
        let mut sim = Sim { host, dir: dir.to_path_buf(), ids: vec![None; 2], staged: BTreeSet::new() };
        let r = match op {
            Some(o) => {
                let out = sim.apply(&wk, o);
                format!("{} {}", out.res, out.detail)
            }
            None => String::from("-"),
        };
        let rec = sim.host.runtime_wal().ok_or("no wal")?.recover_read_only();
        Ok(format!("{r} | recover_read_only: {}", match rec { Ok(r) => format!("ok n={}", r.certificate.committed_transactions_replayed), Err(e) => format!("ERR {e:?}") }))
    };
    let mut trace = Vec::new();
    match open_host(dir) {
        Ok(hh) => trace.push(format!("open#0 ok; {}", step(hh, Some(&Op::Submit(0))).unwrap_or_else(|e| e))),
        Err(e) => trace.push(format!("open#0 ERR {e}")),
    }
    for r in 0..reopens {
        match open_host(dir) {
            Ok(hh) => trace.push(format!("reopen#{r} ok; {}", step(hh, None).unwrap_or_else(|e| e))),
            Err(e) => trace.push(format!("reopen#{r} ERR {e}")),
        }
    }
    match open_host(dir) {
        Ok(hh) => trace.push(format!("open#w ok; {}", step(hh, Some(&Op::Submit(1))).unwrap_or_else(|e| e))),
        Err(e) => trace.push(format!("open#w ERR {e}")),
    }
    for r in parse_records(&read_segment(dir)) {
        lsns.push(json!([r.kind, r.lsn]));
    }
    let fin = match open_host(dir) {
        Ok(mut hh) => format!("final open ok: {:?}", hh.runtime_wal().map(|w| w.recover_read_only().map(|r| r.certificate.committed_transactions_replayed).map_err(|e| format!("{e:?}")))),
        Err(e) => format!("final open ERR {e}"),
    };
    ev["trace"] = json!(trace);
    ev["lsns"] = json!(lsns);
    ev["final"] = json!(fin);
    ev
}

/// usage: echo-verif c10-mkcrash <out.ndjson> <dir>
/// Builds a crash state in <dir>: several acknowledged (committed) submissions followed by an
/// uncommitted tail (the last transaction is cut inside its second record). Reports the
/// acknowledged submission ids and RLIMIT_FSIZE values at which to kill the recovering process.
pub fn run_mkcrash(args: &[String]) -> i32 {
    let dir = PathBuf::from(&args[1]);
    let _ = fs::remove_dir_all(&dir);
    let wk = Workload { n: 4, wl: vec![0; 4], ops: (0..4).map(Op::Submit).collect(), salt: String::new() };
    let r = (|| -> Result<Value, String> {
        let host = open_host(&dir)?;
        let mut sim = Sim { host, dir: dir.clone(), ids: vec![None; 4], staged: BTreeSet::new() };
        for op in &wk.ops {
            let o = sim.apply(&wk, op);
            if o.res != "acked" {
                return Err(format!("{op:?}: {} {}", o.res, o.detail));
            }
        }
        let ids = sim.ids.clone();
        drop(sim);
        let seg = read_segment(&dir);
        let recs = parse_records(&seg);
        let commits: Vec<&DiskRec> = recs.iter().filter(|r| r.kind == 2).collect();
        // cut inside the second record of the last transaction
        let last_tx_start = commits[commits.len() - 2].end;
        let second = recs.iter().filter(|r| r.start >= last_tx_start).nth(1).ok_or("short tx")?;
        let cut = second.start + (second.end - second.start) / 2;
        fs::write(segment_file(&dir), &seg[..cut]).map_err(|e| e.to_string())?;
        let kept: Vec<&DiskRec> = recs.iter().filter(|r| r.end <= last_tx_start).collect();
        let frames_bytes: usize = kept.iter().filter(|r| r.kind == 1).map(|r| r.end - r.start).sum();
        let total: usize = kept.iter().map(|r| r.end - r.start).sum();
        let first = kept[0].end - kept[0].start;
        let acked: Vec<String> = ids.iter().take(3).map(|x| hash_hex(&x.unwrap())).collect();
        Ok(json!({"event": "mkcrash", "acked": acked, "cut": cut, "segment_bytes": seg.len(),
            "rewritten_bytes": total, "limits": [first / 2, first + 20, frames_bytes / 2, frames_bytes, frames_bytes + 40, total - 10]}))
    })();
    let mut out = Out::create(&args[0]);
    let code = match r {
        Ok(v) => {
            out.line(&v);
            0
        }
        Err(e) => {
            eprintln!("c10-mkcrash: {e}");
            2
        }
    };
    out.finish();
    code
}

/// usage: echo-verif c10-reopen <out.ndjson> <dir>: opens a fresh host on <dir> and reports what it recovered.
pub fn run_reopen(args: &[String]) -> i32 {
    let dir = PathBuf::from(&args[1]);
    let mut ev = json!({"event": "reopen"});
    match catch(|| open_host(&dir)) {
        Ok(Ok(host)) => {
            ev["opened"] = json!(true);
            match host.runtime_wal().map(|w| w.recover_read_only()) {
                Some(Ok(rec)) => {
                    ev["k"] = json!(rec.certificate.committed_transactions_replayed);
                    ev["subs"] = json!(rec.submissions.entries().map(|(id, _)| hash_hex(id)).collect::<Vec<_>>());
                }
                other => {
                    ev["err"] = json!(format!("{:?}", other.map(|r| r.map(|_| ()))));
                }
            }
        }
        Ok(Err(e)) => {
            ev["opened"] = json!(false);
            ev["err"] = json!(e);
        }
        Err(p) => {
            ev["opened"] = json!(false);
            ev["err"] = json!(format!("PANIC {p}"));
        }
    }
    let mut out = Out::create(&args[0]);
    out.line(&ev);
    out.finish();
    0
}
