SPECIFICATION Spec
CONSTANTS
  Warps = {"w0", "w1"}
  Nodes = {"n0", "n1", "n2"}
  Edges = {"e0", "e1", "e2"}
  Types = {"tA", "tB"}
  Atoms = {"p0", "p1"}
  RankW <- MC_RankW
  RankN <- MC_RankN
  RankE <- MC_RankE
  Prog <- MC_Prog
  KeyRank <- MC_KeyRank
  Root <- MC_Root
  CandU <- MC_CandU_portal
  AbortSets <- MC_AbortSets_portal
  MaxTicks = 3
  MaxCands = 2
  MaxCandsA = 2
  MaxAborts = 1
  MaxFails = 0
  MaxJumps = 0
  PreNames = {"hubportal"}
  Export = TRUE
  None = None
INVARIANTS Inv_PatchStep Inv_Linear Inv_Jump Inv_Chain Inv_WellFormed Inv_TxBook Inv_ScriptFold Inv_AbortInvisible Inv_SliceDefs Inv_SliceWeak Inv_Unproduced Inv_Export
PROPERTIES Prop_AbortNoTrace
CHECK_DEADLOCK FALSE
