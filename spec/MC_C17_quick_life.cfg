SPECIFICATION MCSpec
CONSTANTS
  Reqs = {"r1"}
  None = None
  RecordVs = {"ok"}
  ClaimVs = {"ok", "stale_basis"}
  SettleVs = {"s1", "unk", "cand_wrong_attempt", "oversized", "foreign_grant"}
  RetryVs = {"s1", "s2"}
  Fates = {"ok", "fault_frame_pre", "fault_frame_post", "fault_commit_pre", "fault_commit_post", "crash_frame", "crash_commit_keep", "crash_commit_lose", "crash_ack"}
  KeepHist = TRUE
  MaxOps = 6
  MaxNoops = 1
  MaxFaults = 2
  MaxRecovers = 2
  Export = TRUE
INVARIANTS
  Inv_LifecyclePrefix Inv_LiveShape Inv_OneGrant Inv_SettlementExact Inv_DurableBeforeReturn
  Inv_RecoveryNeverObstructed Inv_RecoveredEqLive Inv_PoisonedLagsByOne Inv_IncrementalRoot
  Inv_IssuedSurvive Inv_RetryFromRetained Inv_NoStepRepeated Inv_LsnContiguous Inv_TailShape
  Inv_Export
CHECK_DEADLOCK FALSE
