---------------------------- MODULE MC_C11s_life ----------------------------
(***************************************************************************)
(* Lifecycle instance of WalSeg.tla: every interleaving of Acquire /       *)
(* AppendTx / Rotate / CloseEpoch / PublishManifest up to LifeMaxSeg       *)
(* segment files, LifeMaxTx transactions of LifeNF frames and LifeMaxEp    *)
(* writer epochs.  On every reachable (uncorrupted) store the transcribed  *)
(* entry points agree with the declarative oracles: recovery returns       *)
(* exactly the committed history, open admits the ledger, a manifest       *)
(* validates exactly when it describes the files present.                  *)
(***************************************************************************)
EXTENDS WalSeg
=============================================================================
