"""C08, legacy-inbox leg - the graph-backed inbox of the Engine (`sim/inbox`, `Engine::ingest_intent`,
`ingest_inbox_event`, `dispatch_next_intent`, `sys/ack_pending`, `sys/dispatch_inbox`).

MC : MC_C08l.tla over Inbox.tla.
     graph cfgs - ALL interleavings of ingest (both APIs, unbounded retries: self-loops under the VIEW that hides
       history but NOT the arrival order of the pending edges), begin / dispatch_next_intent / apply
       sys/dispatch_inbox / commit / abort, ingests landing inside an open transaction.
     beh cfgs   - complete behaviours: every arrival permutation of the intent set x retry placements x placements
       of the transactions.
     State invariants GraphWellFormed, PendingIsSet, LedgerPartition, AtMostOnce, ConsumedInCanonicalOrder,
     HandledExactlyOnce, LogSound, LegacyIngressBlocksFresh, TicksSound, DrainIsFunctionOfSet (declarative oracle);
     transition laws RetryChangesNothing, IngestLaw, DispatchPicksMin, OnlyCommitConsumes.  thorough: the model
     mutant "dispatch takes the oldest arrival" (MC_C08l_mut_head.cfg) must be REJECTED by TLC.
RP : graph cfgs: EVERY transition, replayed from a witness path; beh cfgs: every call of every behaviour.  The
     harness decides the property on the real outcome (identity = H(bytes), retry = Duplicate and changes nothing,
     pending is a set, dispatch = smallest real id whatever the arrival order, only a committed tick consumes and
     exactly the dispatched intent, at most once, handler ran exactly once in consumed order, ledger append-only,
     fresh-state law) and reports deviations from the model that keep the property as drift.
MR : decided here over all replayed behaviours of one id salt: equal abstract key => equal real hash, different key
     => different hash, for   state root <- (structural, pending SET, handler effects),
     commit hash <- sequence of tick keys,   patch / receipt / plan digest <- (consumed intent, handler, drained set,
     handler state).  Arrival order and retry multiplicity are not part of any key.
The canonical order is the real BLAKE3 order of the intent ids and handler rule ids (`echo-verif c08l-ranks`).
"""
import concurrent.futures
import json
import os

from lib import *

# (cfg, id salt).  Salt "" orders handler a before b, salts "c" / "e" order b before a.
RUNS = {
    "quick": [("MC_C08l_quick.cfg", ""), ("MC_C08l_quick_perm.cfg", "c"), ("MC_C08l_quick_retry.cfg", "e")],
    "thorough": [("MC_C08l_thorough.cfg", "e"), ("MC_C08l_thorough.cfg", "g"), ("MC_C08l_thorough_perm.cfg", "d"),
                 ("MC_C08l_thorough_mid.cfg", "h"), ("MC_C08l_quick.cfg", ""),
                 ("MC_C08l_quick_perm.cfg", "c"), ("MC_C08l_quick_retry.cfg", "f")],
}
if os.environ.get("VERIF_C08L_DEEP"):      # 5 intents: 362 983 transitions / 598k commits, ~3 GB of decoded cases
    RUNS["thorough"].append(("MC_C08l_deep.cfg", "b"))
PROCS = 3
P = "legacy_inbox:"


def ranks(binp, salt):
    out = harness(binp, ["c08l-ranks"], env={"VERIF_ID_SALT": salt})
    info = json.loads(out.strip().splitlines()[-1])
    path = os.path.join(WORK, f"c08l_ranks_{salt or '0'}.json")
    with open(path, "w") as f:
        json.dump({"intents": info["intents"], "handlers": info["handlers"]}, f)
        f.write("\n")
    return path, info


def replay_cases(binp, tag, salt, cases):
    """Replays `cases` on PROCS harness processes (every commit of the code under test spawns a worker thread;
    separate processes do not contend on one address space)."""
    n = max(1, min(PROCS, len(cases) // 200 or 1))
    size = (len(cases) + n - 1) // n
    chunks = [cases[k * size:(k + 1) * size] for k in range(n)]
    chunks = [c for c in chunks if c]

    def one(k):
        cin = write_ndjson(os.path.join(WORK, f"{tag}.{k}.cases"), chunks[k])
        cout = os.path.join(WORK, f"{tag}.{k}.results")
        harness(binp, ["c08l", cin, cout], timeout=7200, env={"VERIF_ID_SALT": salt})
        res = read_ndjson(cout)
        if len(res) != len(chunks[k]):
            raise ToolError("c08l: harness result count mismatch")
        return res

    with concurrent.futures.ThreadPoolExecutor(max_workers=len(chunks)) as ex:
        parts = list(ex.map(one, range(len(chunks))))
    return [r for part in parts for r in part]


def canon(o):
    return json.dumps(o, sort_keys=True, separators=(",", ":"))


def patch_key(t):
    return canon({"ack": t["ack"], "cmd": t["cmd"], "h": sorted(t["h"]), "drain": t["drain"], "a": t["root"]["a"]})


class Relation:
    """key -> real hash must be a function (and, if `injective`, one-to-one)."""

    def __init__(self, name, injective):
        self.name, self.injective = name, injective
        self.fwd, self.bwd, self.members = {}, {}, {}

    def add(self, key, real, witness):
        self.members[key] = self.members.get(key, 0) + 1
        self.fwd.setdefault(key, {}).setdefault(real, witness)
        if self.injective:
            self.bwd.setdefault(real, {}).setdefault(key, witness)

    def violations(self):
        for key, reals in self.fwd.items():
            if len(reals) > 1:
                ws = list(reals.items())[:2]
                yield ("not_a_function", key, ws)
        for real, keys in self.bwd.items():
            if len(keys) > 1:
                ws = list(keys.items())[:2]
                yield ("collision", real, ws)


def run_leg(ck, binp, tier, replay=None):
    runs = []
    spec_mutant = None
    if replay:
        obj = json.load(open(replay))["case"]
        if obj.get("leg") != "legacy_inbox":
            return
        runs.append((obj["cfg"], obj.get("salt", ""), obj["cases"]))
    else:
        only = os.environ.get("VERIF_C08L_ONLY")          # debugging aid: run a single cfg of the tier
        for cfg, salt in RUNS[tier]:
            if only and only not in cfg:
                continue
            path, _ = ranks(binp, salt)
            res = tlc("MC_C08l", cfg, workers=4, env={"VERIF_C08L_RANKS": path}, timeout=3600, tags=("CASE",),
                      out_name=f"c08l_{cfg.replace('.cfg', '')}_{salt or '0'}", heap="8g")
            ck.add_tlc(res)
            if res.violation:
                ck.violation(f"{P}spec:{cfg}:{res.violation}", "TLC invariant / transition law violated on the inbox model:\n" + res.error_text[:3000],
                             {"leg": "legacy_inbox_spec", "cfg": cfg, "salt": salt, "invariant": res.violation, "trace": res.error_text[:20000]})
                continue
            if not res.lines:
                raise ToolError(f"{cfg}: nothing exported")
            cases = [c for _, c in res.lines]
            res.lines = []
            runs.append((cfg, salt, cases))
        if tier == "thorough":
            path, _ = ranks(binp, "")
            res = tlc("MC_C08l", "MC_C08l_mut_head.cfg", workers=2, env={"VERIF_C08L_RANKS": path}, timeout=900, tags=("CASE",), out_name="c08l_mut_head")
            spec_mutant = res.violation
            if not res.violation:
                raise ToolError("the model mutant 'dispatch takes the oldest arrival' satisfies every invariant of Inbox.tla: the properties are vacuous")

    total = nontrivial = drift = 0
    kinds = {}
    seen_keys = {}
    rels = {}
    arrival_orders = {}
    for cfg, salt, cases in runs:
        tag = f"c08l_{cfg.replace('.cfg', '')}_{salt or '0'}"
        results = replay_cases(binp, tag, salt, cases)
        R = rels.setdefault(salt, {"root": Relation("state_root", True), "commit": Relation("commit_hash", True),
                                   "patch": Relation("patch_digest", False), "receipt": Relation("receipt_digest", False),
                                   "plan": Relation("plan_digest", False)})
        for c, r in zip(cases, results):
            total += 1
            slim = {"leg": "legacy_inbox", "cfg": cfg, "salt": salt, "cases": [c]}
            if r["verdict"] == "tool_error":
                raise ToolError(f"c08l harness: {r.get('detail')}")
            if r["verdict"] == "violation":
                key = f"{P}{r['kind']}"
                seen_keys[key] = seen_keys.get(key, 0) + 1
                if seen_keys[key] <= 2:
                    ck.violation(key, f"step {r.get('step')} {json.dumps(r.get('op'))}: {r.get('detail')}"[:3000], slim)
                continue
            if r.get("drift"):
                drift += 1
                if len(ck.notes) < 5:
                    ck.notes.append({"legacy_inbox_model_drift": r["drift"][:2], "path": c["path"]})
            chain = c["chain"]
            if len(chain) != len(r["ticks"]):
                raise ToolError(f"c08l: {len(r['ticks'])} real ticks for {len(chain)} model ticks without a reported deviation")
            wit = {"cfg": cfg, "path": c["path"]}
            prefix = []
            for t, real in zip(chain, r["ticks"]):
                prefix.append(canon(t))
                R["root"].add(canon(t["root"]), real["root"], wit)
                R["commit"].add("|".join(prefix), real["commit"], wit)
                R["patch"].add(patch_key(t), real["patch"], wit)
                R["receipt"].add(patch_key(t), real["receipt"], wit)
                R["plan"].add(patch_key(t), real["plan"], wit)
            R["root"].add(canon(c["final"]["root"]), r["final_root"], wit)
            # bookkeeping: which kinds of calls were exercised, vacuity of the arrival-order quantifier
            for op, o in zip(c["path"][len(c["path"]) - len(c["obs"]):], c["obs"]):
                k = op["a"] + ("/" + op["api"] if op["a"] == "ingest" else "") + ("/" + o["r"]["d"] if o["r"]["d"] != "-" else "")
                kinds[k] = kinds.get(k, 0) + 1
            if r.get("dups") or r.get("consumed", 0) >= 2:
                nontrivial += 1
            if c["mode"] == "beh" and not c["late"]:
                first = []
                for op in c["path"]:
                    if op["a"] == "ingest" and op["i"] not in first:
                        first.append(op["i"])
                arrival_orders.setdefault((salt, tuple(sorted(first))), set()).add(tuple(first))
        if cases:
            mid = cases[len(cases) // 2]
            ck.sample({"legacy_inbox_cfg": cfg, "path": mid["path"], "predicted": mid["obs"][-1], "consumed_order": mid["final"]["consumed"]}, limit=6)
        del cases, results

    # ---- MR: hashes are functions of the abstract keys (arrival order and retries are not in any key)
    groups = shared = 0
    for salt, R in rels.items():
        for name, rel in R.items():
            groups += len(rel.fwd)
            shared += sum(1 for n in rel.members.values() if n > 1)
            for what, k, ws in rel.violations():
                if what == "not_a_function":
                    key = {"state_root": "state_root_depends_on_arrival_or_retries", "commit_hash": "commit_depends_on_arrival_or_retries"}.get(
                        rel.name, f"{rel.name}_depends_on_arrival_or_retries")
                    ck.violation(f"{P}mr:{key}",
                                 f"same abstract key, different {rel.name}: key {k[:400]}; {ws[0][0][:16]} via {json.dumps(ws[0][1]['path'])[:600]} vs "
                                 f"{ws[1][0][:16]} via {json.dumps(ws[1][1]['path'])[:600]}",
                                 {"leg": "legacy_inbox_mr", "salt": salt, "relation": rel.name, "key": k, "witnesses": [w for _, w in ws]})
                else:
                    ck.violation(f"{P}mr:{rel.name}_collision",
                                 f"different abstract keys share {rel.name} {k[:16]}: {ws[0][0][:300]} vs {ws[1][0][:300]}",
                                 {"leg": "legacy_inbox_mr", "salt": salt, "relation": rel.name, "hash": k, "witnesses": [w for _, w in ws]})
    # vacuity guards (violating cases leave the relations early, so the guards apply to clean runs only)
    if not replay and not seen_keys and not os.environ.get("VERIF_C08L_ONLY"):
        perms = max((len(v) for (s_, st), v in arrival_orders.items() if len(st) == 4), default=0)
        if perms < 24:
            raise ToolError(f"c08l: only {perms} arrival orders of a 4-intent set reached the metamorphic relation")
        for need in ("ingest/intent/Accepted", "ingest/intent/Duplicate", "ingest/event/Accepted", "ingest/event/Duplicate",
                     "dispatch/Consumed", "dispatch/NoPending", "drainall/Applied", "drainall/NoMatch", "commit/Committed",
                     "commit/Panic", "abort", "begin"):
            if not kinds.get(need):
                raise ToolError(f"c08l: vacuous replay, no call of kind {need}: {kinds}")

    ck.cov["traces_validated_against_impl"] += total
    ck.cov["evaluations"] += total
    ck.cov["distinct_nontrivial"] += nontrivial
    ck.cov["rule"] += ("; legacy inbox leg: %d cases (graph cfgs: one per transition of the MC_C08l state graph replayed from a witness path; beh cfgs: "
                       "one per maximal behaviour, every call checked), cfgs %s; non-trivial = the behaviour contains a retry answered Duplicate or "
                       "consumes >= 2 intents; %d (key -> hash) groups in the metamorphic relation" % (total, [r[0] for r in RUNS.get(tier, [])], groups))
    ck.cov["legacy_inbox"] = {"cases": total, "call_kinds": kinds, "model_drift_cases": drift, "mr_groups": groups,
                              "mr_groups_reached_by_several_behaviours": shared,
                              "arrival_orders_of_full_set": max((len(v) for v in arrival_orders.values()), default=0),
                              "model_mutant_head_rejected_by": spec_mutant}
    ck.assumptions += [
        "legacy inbox: <=4 intents quick / 5 thorough (two handlers, an intent matching both, one matching none, the empty byte string), unbounded retries in the "
        "graph cfgs, <=2 retries in the behaviour cfgs; one transaction at a time, at most one intent dispatched per transaction, sys/dispatch_inbox not mixed "
        "with dispatch_next_intent in one transaction",
        "legacy inbox: sys/ack_pending is registered and command handlers are honest and independent of it (they write neither the inbox node, the event node nor "
        "the pending edge); a handler that writes its event node makes sys/ack_pending lose the footprint conflict every tick (see DESIGN)",
        "legacy inbox: one witness path per abstract state in the graph cfgs (the behaviour cfgs vary the path for the hash relations); BLAKE3 collision-freeness",
    ]
