"""C14 - undeclared access never commits.

MC : MC_C02.tla with Variants 1..4: rewrites whose executor performs one undeclared access (node read,
     adjacency read, node/edge attachment read, edge existence; every op kind as undeclared write;
     cross-instance emission; instance-level ops; plain panic) or whose declaration omits one footprint
     class, placed among honest rewrites, under every worker schedule; invariants: an accepted violator
     always poisons the tick and nothing becomes visible; honest rewrites are never flagged.
     Graph.tla Touched/Attributed: the write targets attributed to each op cover what it can change (MC_C14attr).
RP : every (scenario, script) is scripted into the real work queue; the real commit must fail with the
     engine state unchanged exactly when the model says a violator was accepted and executed.
"""
import os
from lib import *
import c02


def run(tier, replay=None):
    ck = Check("C14", tier)
    binp = build_harness()
    if replay:
        obj = json.load(open(replay))["case"]
        cin = write_ndjson(os.path.join(WORK, "c14_replay.cases"), obj["cases"])
        cout = os.path.join(WORK, "c14_replay.results")
        harness(binp, ["c02", cin, cout])
        pairs = list(zip(obj["cases"], read_ndjson(cout)))
        total = len(pairs)
    else:
        wreqs = [2] if tier == "quick" else [1, 2, 3]
        maxd = 2 if tier == "quick" else 3
        total, pairs = c02.gen_and_replay(ck, binp, [5], wreqs, maxd, label="c14")
    multi, failed, drift, ngroups = c02.judge(ck, pairs)
    kinds = {}
    for c, r in pairs:
        if c["fail"]:
            kinds[" ".join(c["poison"])] = kinds.get(" ".join(c["poison"]), 0) + 1
    if pairs:
        bad = [(c, r) for c, r in pairs if c["fail"]]
        if bad:
            c, r = bad[len(bad) // 2]
            ck.sample({"preName": c["preName"], "candidates": c["seq"], "script": c["script"], "model_poison": c["poison"], "real": r.get("what")})
    # attribution: Touched(op) subset Attributed(op): model prediction + recomputation on the real store
    attr_states = 0
    if not replay or "attr_cases" in json.load(open(replay))["case"]:
        if replay:
            acases = json.load(open(replay))["case"]["attr_cases"]
        else:
            acfg = "MC_C14attr_quick.cfg" if tier == "quick" else "MC_C14attr.cfg"
            res = tlc("MC_C14attr", acfg, workers=8, env={"VERIF_IDS": id_ranks(binp)}, timeout=3600, tags=("CASE",))
            ck.add_tlc(res)
            if res.violation:
                ck.violation(f"spec:attribution:{res.violation}", res.error_text[:3000], {"cases": [], "trace": res.error_text[:20000]})
            acases = [c for _, c in res.lines]
            if not acases:
                raise ToolError("attribution model exported nothing")
        cin = write_ndjson(os.path.join(WORK, "c14_attr.cases"), acases)
        cout = os.path.join(WORK, "c14_attr.results")
        harness(binp, ["c14-attr", cin, cout], timeout=7200)
        ares = read_ndjson(cout)
        attr_states = len(ares)
        seen = {}
        for c, r in zip(acases, ares):
            if r.get("drift"):
                drift += 1
                if len(ck.notes) < 6:
                    ck.notes.append({"attribution_drift": r["drift"][:1]})
            for u, wit in zip(r.get("uncovered", []), r.get("witness", []) + [None] * 99):
                if u not in seen:
                    seen[u] = (c, r)
        for u, (c, r) in seen.items():
            ck.violation(f"attribution:{u}", "an op changes observable content at a location that op_write_targets does not attribute to it: "
                         + json.dumps([w for w in r.get("witness", []) if f"{w['op']['op']}:{w['class']}" == u][:1]),
                         {"cases": [], "attr_cases": [c]})
        ck.cov["attribution_states"] = attr_states
        ck.cov["attribution_uncovered_classes"] = sorted(seen)
    ck.cov["traces_validated_against_impl"] = total + attr_states
    ck.cov["evaluations"] = total
    ck.cov["distinct_nontrivial"] = failed
    ck.cov["violation_kinds_exercised"] = kinds
    ck.cov["model_drift_cases"] = drift
    ck.cov["rule"] = ("every distinct final (scenario, claim script) state of MC_C02 Variants 1-4 (fault-injecting / under-declaring programs among honest ones); "
                      "non-trivial = the model predicts a poisoned tick; violation kinds exercised are counted")
    ck.cov["exhaustive"] = replay is None
    ck.assumptions += ["enforcement is compiled in (debug-assertions build of the harness)", "executor reads are performed unconditionally in a fixed order (harness/src/programs.rs) so outcomes are state-independent",
                       "bounded scenarios as for C02"]
    return ck.finish()
