------------------------------- MODULE Graph -------------------------------
(***************************************************************************)
(* Abstract multi-instance graph state of warp-core (WarpState/GraphStore) *)
(* and the patch algebra over it, transcribed from                         *)
(*   crates/warp-core/src/tick_patch.rs  (WarpOp, sort_key, apply_*,       *)
(*                                         validate_portal_invariants,     *)
(*                                         diff_state)                     *)
(*   crates/warp-core/src/graph.rs       (delete_node_isolated,            *)
(*                                         delete_edge_exact, upsert_edge) *)
(*   crates/warp-core/src/snapshot.rs    (collect_reachable_graph)         *)
(*   crates/warp-core/src/footprint_guard.rs (op_write_targets)            *)
(*                                                                         *)
(* Identifiers are model strings; the order of the real 32-byte ids is     *)
(* supplied by the harness (RankW, RankN, RankE), because canonical op order is the byte *)
(* order of BLAKE3-derived ids.                                            *)
(***************************************************************************)
EXTENDS Naturals, Sequences, FiniteSets, SequencesExt, TLC

CONSTANTS Warps, Nodes, Edges, Types, Atoms,
          RankW, RankN, RankE,         \* id -> Nat, byte order of the real ids
          None                         \* model value: "absent" (compares unequal to everything)

(***************************************************************************)
(* Keys and values                                                         *)
(***************************************************************************)
NKey(w, n) == <<w, n>>
EKey(w, e) == <<w, e>>
NAtt(w, n) == <<"n", w, n>>            \* AttachmentKey::node_alpha
EAtt(w, e) == <<"e", w, e>>            \* AttachmentKey::edge_beta
Atom(p)    == <<"atom", p>>
Desc(w)    == <<"desc", w>>
IsDesc(v)  == v # None /\ v[1] = "desc"

AttKeys == {NAtt(w, n) : w \in Warps, n \in Nodes} \cup {EAtt(w, e) : w \in Warps, e \in Edges}
AttVals == {Atom(p) : p \in Atoms} \cup {Desc(w) : w \in Warps}

EdgeRec(f, t, ty) == [from |-> f, to |-> t, ty |-> ty]
InstRec(r, p)     == [root |-> r, parent |-> p]

(***************************************************************************)
(* Finite-map helpers (functions with explicit, shrinking/growing domains) *)
(***************************************************************************)
Upd(f, k, v) == [x \in (DOMAIN f) \cup {k} |-> IF x = k THEN v ELSE f[x]]
Del(f, k)    == [x \in (DOMAIN f) \ {k} |-> f[x]]
Keep(f, D)   == [x \in (DOMAIN f) \cap D |-> f[x]]
Get(f, k)    == IF k \in DOMAIN f THEN f[k] ELSE None
EmptyMap     == [x \in {} |-> None]

EmptyState == [inst |-> EmptyMap, node |-> EmptyMap, edge |-> EmptyMap,
               natt |-> EmptyMap, eatt |-> EmptyMap]

HasWarp(s, w) == w \in DOMAIN s.inst     \* stores and instances are kept in sync by ops

AttGet(s, k) == IF k[1] = "n" THEN Get(s.natt, NKey(k[2], k[3])) ELSE Get(s.eatt, EKey(k[2], k[3]))

OutEdges(s, w, n) == {k \in DOMAIN s.edge : k[1] = w /\ s.edge[k].from = n}
InEdges(s, w, n)  == {k \in DOMAIN s.edge : k[1] = w /\ s.edge[k].to = n}

(***************************************************************************)
(* Ops (WarpOp)                                                            *)
(***************************************************************************)
OpOpenPortal(key, cw, cr, init) == [op |-> "OpenPortal", key |-> key, child |-> cw, croot |-> cr, init |-> init]
   \* init = <<"empty", ty>> | <<"require">>
OpUpsertInst(w, r, p)   == [op |-> "UpsertWarpInstance", w |-> w, root |-> r, parent |-> p]
OpDeleteInst(w)         == [op |-> "DeleteWarpInstance", w |-> w]
OpUpsertNode(w, n, ty)  == [op |-> "UpsertNode", w |-> w, n |-> n, ty |-> ty]
OpDeleteNode(w, n)      == [op |-> "DeleteNode", w |-> w, n |-> n]
OpUpsertEdge(w, e, f, t, ty) == [op |-> "UpsertEdge", w |-> w, e |-> e, from |-> f, to |-> t, ty |-> ty]
OpDeleteEdge(w, f, e)   == [op |-> "DeleteEdge", w |-> w, from |-> f, e |-> e]
OpSetAtt(key, v)        == [op |-> "SetAttachment", key |-> key, value |-> v]

Kind(o) == CASE o.op = "OpenPortal" -> 1
             [] o.op = "UpsertWarpInstance" -> 2
             [] o.op = "DeleteWarpInstance" -> 3
             [] o.op = "DeleteEdge" -> 4
             [] o.op = "DeleteNode" -> 5
             [] o.op = "UpsertNode" -> 6
             [] o.op = "UpsertEdge" -> 7
             [] o.op = "SetAttachment" -> 8

\* WarpOp::sort_key as a 4-tuple of naturals <<kind, warp, a, b>>.
\* For attachment-keyed ops `a` is the (owner_tag, plane_tag) prefix: node=1, edge=2.
AttKeyA(k) == IF k[1] = "n" THEN 1 ELSE 2
AttKeyB(k) == IF k[1] = "n" THEN RankN[k[3]] ELSE RankE[k[3]]
SortKey(o) ==
  CASE o.op \in {"OpenPortal", "SetAttachment"} -> <<Kind(o), RankW[o.key[2]], AttKeyA(o.key), AttKeyB(o.key)>>
    [] o.op \in {"UpsertWarpInstance", "DeleteWarpInstance"} -> <<Kind(o), RankW[o.w], RankW[o.w], 0>>
    [] o.op \in {"DeleteEdge", "UpsertEdge"} -> <<Kind(o), RankW[o.w], RankN[o.from], RankE[o.e]>>
    [] o.op \in {"DeleteNode", "UpsertNode"} -> <<Kind(o), RankW[o.w], RankN[o.n], 0>>

KeyLess(a, b) ==
  \/ a[1] < b[1]
  \/ a[1] = b[1] /\ a[2] < b[2]
  \/ a[1] = b[1] /\ a[2] = b[2] /\ a[3] < b[3]
  \/ a[1] = b[1] /\ a[2] = b[2] /\ a[3] = b[3] /\ a[4] < b[4]

OpLess(o1, o2) == KeyLess(SortKey(o1), SortKey(o2))

\* Canonical sequence of a set of ops with pairwise distinct sort keys.
CanonSeq(ops) == SetToSortSeq(ops, OpLess)

(***************************************************************************)
(* Apply (apply_op_to_state).  Result: [ok, s] or [ok, err]                *)
(***************************************************************************)
Ok(s)  == [ok |-> TRUE, s |-> s, err |-> None]
Err(e) == [ok |-> FALSE, s |-> EmptyState, err |-> e]

\* validate_attachment_owner_exists: None if fine, else the error class
OwnerError(s, k) ==
  IF ~HasWarp(s, k[2]) THEN "MissingWarp"
  ELSE IF k[1] = "n" THEN (IF NKey(k[2], k[3]) \in DOMAIN s.node THEN None ELSE "MissingNode")
  ELSE (IF EKey(k[2], k[3]) \in DOMAIN s.edge THEN None ELSE "MissingEdge")

SetAttRaw(s, k, v) ==
  IF k[1] = "n"
  THEN [s EXCEPT !.natt = IF v = None THEN Del(@, NKey(k[2], k[3])) ELSE Upd(@, NKey(k[2], k[3]), v)]
  ELSE [s EXCEPT !.eatt = IF v = None THEN Del(@, EKey(k[2], k[3])) ELSE Upd(@, EKey(k[2], k[3]), v)]

DropWarp(s, w) ==
  [inst |-> Del(s.inst, w),
   node |-> Keep(s.node, {k \in DOMAIN s.node : k[1] # w}),
   edge |-> Keep(s.edge, {k \in DOMAIN s.edge : k[1] # w}),
   natt |-> Keep(s.natt, {k \in DOMAIN s.natt : k[1] # w}),
   eatt |-> Keep(s.eatt, {k \in DOMAIN s.eatt : k[1] # w})]

ApplyOpenPortal(s, o) ==
  LET k == o.key  cw == o.child  cr == o.croot
      oerr == OwnerError(s, k)
  IN IF oerr # None THEN Err(oerr)
     ELSE IF HasWarp(s, cw)
          THEN IF s.inst[cw].parent # k \/ s.inst[cw].root # cr THEN Err("PortalInvariantViolation")
               ELSE \* ensure_child_root
                    IF o.init[1] = "empty"
                    THEN IF NKey(cw, cr) \notin DOMAIN s.node
                         THEN Ok(SetAttRaw([s EXCEPT !.node = Upd(@, NKey(cw, cr), o.init[2])], k, Desc(cw)))
                         ELSE IF s.node[NKey(cw, cr)] # o.init[2] THEN Err("PortalInvariantViolation")
                              ELSE Ok(SetAttRaw(s, k, Desc(cw)))
                    ELSE IF NKey(cw, cr) \notin DOMAIN s.node THEN Err("MissingNode")
                         ELSE Ok(SetAttRaw(s, k, Desc(cw)))
          ELSE IF o.init[1] = "empty"
               THEN Ok(SetAttRaw([s EXCEPT !.inst = Upd(@, cw, InstRec(cr, k)),
                                           !.node = Upd(@, NKey(cw, cr), o.init[2])], k, Desc(cw)))
               ELSE Err("PortalInitRequired")

ApplyOp(s, o) ==
  CASE o.op = "OpenPortal" -> ApplyOpenPortal(s, o)
    [] o.op = "UpsertWarpInstance" -> Ok([s EXCEPT !.inst = Upd(@, o.w, InstRec(o.root, o.parent))])
    [] o.op = "DeleteWarpInstance" ->
         IF HasWarp(s, o.w) THEN Ok(DropWarp(s, o.w)) ELSE Err("MissingWarp")
    [] o.op = "UpsertNode" ->
         IF HasWarp(s, o.w) THEN Ok([s EXCEPT !.node = Upd(@, NKey(o.w, o.n), o.ty)]) ELSE Err("MissingWarp")
    [] o.op = "DeleteNode" ->
         IF ~HasWarp(s, o.w) THEN Err("MissingWarp")
         ELSE IF NKey(o.w, o.n) \notin DOMAIN s.node THEN Err("MissingNode")
         ELSE IF OutEdges(s, o.w, o.n) # {} \/ InEdges(s, o.w, o.n) # {} THEN Err("NodeNotIsolated")
         ELSE Ok([s EXCEPT !.node = Del(@, NKey(o.w, o.n)), !.natt = Del(@, NKey(o.w, o.n))])
    [] o.op = "UpsertEdge" ->
         IF HasWarp(s, o.w)
         THEN Ok([s EXCEPT !.edge = Upd(@, EKey(o.w, o.e), EdgeRec(o.from, o.to, o.ty))])
         ELSE Err("MissingWarp")
    [] o.op = "DeleteEdge" ->
         IF ~HasWarp(s, o.w) THEN Err("MissingWarp")
         ELSE IF EKey(o.w, o.e) \notin DOMAIN s.edge \/ s.edge[EKey(o.w, o.e)].from # o.from THEN Err("MissingEdge")
         ELSE Ok([s EXCEPT !.edge = Del(@, EKey(o.w, o.e)), !.eatt = Del(@, EKey(o.w, o.e))])
    [] o.op = "SetAttachment" ->
         LET oerr == OwnerError(s, o.key)
         IN IF oerr # None THEN Err(oerr) ELSE Ok(SetAttRaw(s, o.key, o.value))

\* warp_op_touches_portal_topology (evaluated on the state *before* the op)
TouchesPortal(s, o) ==
  CASE o.op \in {"OpenPortal", "UpsertWarpInstance", "DeleteWarpInstance"} -> TRUE
    [] o.op = "SetAttachment" -> IsDesc(o.value) \/ IsDesc(AttGet(s, o.key))
    [] o.op = "DeleteNode" -> IsDesc(Get(s.natt, NKey(o.w, o.n)))
    [] o.op = "DeleteEdge" -> IsDesc(Get(s.eatt, EKey(o.w, o.e)))
    [] OTHER -> FALSE

\* validate_portal_invariants: the set of error classes the validation can raise
\* (which one is raised first depends on map iteration order; conformance accepts any).
PortalErrors(s) ==
  LET instErrs ==
        {IF OwnerError(s, s.inst[w].parent) # None THEN OwnerError(s, s.inst[w].parent)
         ELSE IF AttGet(s, s.inst[w].parent) # Desc(w) THEN "PortalInvariantViolation" ELSE None
           : w \in {x \in DOMAIN s.inst : s.inst[x].parent # None}}
      descOk(key, cw) == HasWarp(s, cw) /\ s.inst[cw].parent = key
      nErrs == {IF descOk(NAtt(k[1], k[2]), s.natt[k][2]) THEN None ELSE "PortalInvariantViolation"
                  : k \in {x \in DOMAIN s.natt : IsDesc(s.natt[x])}}
      eErrs == {IF descOk(EAtt(k[1], k[2]), s.eatt[k][2]) THEN None ELSE "PortalInvariantViolation"
                  : k \in {x \in DOMAIN s.eatt : IsDesc(s.eatt[x])}}
  IN (instErrs \cup nErrs \cup eErrs) \ {None}

PortalsValid(s) == PortalErrors(s) = {}

\* apply_ops_to_state: result record [ok, s, err, errs]; errs = admissible error classes
RECURSIVE ApplySeqRec(_, _, _, _)
ApplySeqRec(s, ops, i, touched) ==
  IF i > Len(ops)
  THEN IF touched /\ ~PortalsValid(s)
       THEN [ok |-> FALSE, s |-> EmptyState, errs |-> PortalErrors(s)]
       ELSE [ok |-> TRUE, s |-> s, errs |-> {}]
  ELSE LET r == ApplyOp(s, ops[i])
       IN IF r.ok THEN ApplySeqRec(r.s, ops, i + 1, touched \/ TouchesPortal(s, ops[i]))
          ELSE [ok |-> FALSE, s |-> EmptyState, errs |-> {r.err}]

ApplyOps(s, ops) == ApplySeqRec(s, ops, 1, FALSE)

(***************************************************************************)
(* Well-formedness (what "two well-formed states" means for C04/C06)       *)
(***************************************************************************)
WellFormed(s) ==
  /\ \A k \in DOMAIN s.node : HasWarp(s, k[1])
  /\ \A k \in DOMAIN s.edge : /\ HasWarp(s, k[1])
                              /\ NKey(k[1], s.edge[k].from) \in DOMAIN s.node
                              /\ NKey(k[1], s.edge[k].to) \in DOMAIN s.node
  /\ DOMAIN s.natt \subseteq DOMAIN s.node
  /\ DOMAIN s.eatt \subseteq DOMAIN s.edge
  /\ PortalsValid(s)

(***************************************************************************)
(* Diff (diff_state), transcribed; returns the canonical op sequence       *)
(***************************************************************************)
Diff(a, b) ==
  LET \* new instances realised as portals
      portalWarps == {w \in (DOMAIN b.inst) \ (DOMAIN a.inst) :
                        /\ b.inst[w].parent # None
                        /\ AttGet(b, b.inst[w].parent) = Desc(w)
                        /\ NKey(w, b.inst[w].root) \in DOMAIN b.node}
      portalOps  == {OpOpenPortal(b.inst[w].parent, w, b.inst[w].root,
                                  <<"empty", b.node[NKey(w, b.inst[w].root)]>>) : w \in portalWarps}
      skipNodes  == {NKey(w, b.inst[w].root) : w \in portalWarps}
      skipAtts   == {b.inst[w].parent : w \in portalWarps}
      delInst    == {OpDeleteInst(w) : w \in (DOMAIN a.inst) \ (DOMAIN b.inst)}
      upInst     == {OpUpsertInst(w, b.inst[w].root, b.inst[w].parent) :
                        w \in {x \in DOMAIN b.inst :
                                 IF x \in DOMAIN a.inst THEN a.inst[x] # b.inst[x] ELSE x \notin portalWarps}}
      \* per-instance diffs run over the stores present in `after`
      W == DOMAIN b.inst
      aNode(k) == Get(a.node, k)
      delNode == {OpDeleteNode(k[1], k[2]) :
                    k \in {x \in DOMAIN a.node : x[1] \in W /\ x \notin skipNodes /\ x \notin DOMAIN b.node}}
      upNode  == {OpUpsertNode(k[1], k[2], b.node[k]) :
                    k \in {x \in DOMAIN b.node : x \notin skipNodes /\ aNode(x) # b.node[x]}}
      nattOps == {OpSetAtt(NAtt(k[1], k[2]), Get(b.natt, k)) :
                    k \in {x \in DOMAIN b.node : Get(a.natt, x) # Get(b.natt, x) /\ NAtt(x[1], x[2]) \notin skipAtts}}
      delEdge == {OpDeleteEdge(k[1], a.edge[k].from, k[2]) :
                    k \in {x \in DOMAIN a.edge : x[1] \in W /\ x \notin DOMAIN b.edge}}
      migrated == {k \in (DOMAIN a.edge) \cap (DOMAIN b.edge) : a.edge[k].from # b.edge[k].from}
      delMig  == {OpDeleteEdge(k[1], a.edge[k].from, k[2]) : k \in migrated}
      upEdge  == {OpUpsertEdge(k[1], k[2], b.edge[k].from, b.edge[k].to, b.edge[k].ty) :
                    k \in {x \in DOMAIN b.edge : Get(a.edge, x) # b.edge[x]}}
      \* a migrated edge is replayed as DeleteEdge+UpsertEdge; DeleteEdge clears the
      \* attachment, so a surviving attachment is re-emitted (fix F1).
      eattOps == {OpSetAtt(EAtt(k[1], k[2]), Get(b.eatt, k)) :
                    k \in {x \in DOMAIN b.edge :
                             /\ EAtt(x[1], x[2]) \notin skipAtts
                             /\ \/ Get(a.eatt, x) # Get(b.eatt, x)
                                \/ x \in migrated /\ Get(b.eatt, x) # None}}
  IN CanonSeq(portalOps \cup delInst \cup upInst \cup delNode \cup upNode \cup nattOps
              \cup delEdge \cup delMig \cup upEdge \cup eattOps)

\* C04, second sentence: the delta either yields exactly `b` or fails; never a third state.
DiffLaw(a, b) == LET r == ApplyOps(a, Diff(a, b)) IN r.ok => r.s = b

(***************************************************************************)
(* Reachability and canonical content (C06)                                *)
(***************************************************************************)
\* one BFS step over node keys: edge targets in the same instance, and the
\* root of any instance descended into from a reachable node or from an edge
\* leaving a reachable node.
DescRoot(s, v) == IF IsDesc(v) /\ HasWarp(s, v[2]) THEN {NKey(v[2], s.inst[v[2]].root)} ELSE {}
Succ(s, k) ==
  {NKey(k[1], s.edge[e].to) : e \in OutEdges(s, k[1], k[2])}
  \cup DescRoot(s, Get(s.natt, k))
  \cup UNION {DescRoot(s, Get(s.eatt, e)) : e \in OutEdges(s, k[1], k[2])}

RECURSIVE ReachFrom(_, _)
ReachFrom(s, R) == LET R2 == R \cup UNION {Succ(s, k) : k \in R}
                   IN IF R2 = R THEN R ELSE ReachFrom(s, R2)
ReachNodes(s, root) == ReachFrom(s, {root})
ReachWarps(s, root) ==
  {root[1]} \cup {v[2] : v \in {Get(s.natt, k) : k \in ReachNodes(s, root)} \cap {Desc(w) : w \in Warps}}
            \cup {v[2] : v \in {Get(s.eatt, e) : e \in UNION {OutEdges(s, k[1], k[2]) : k \in ReachNodes(s, root)}}
                                 \cap {Desc(w) : w \in Warps}}

\* The content the state root commits to (transcribed from compute_state_root):
\* the root key; for every reachable instance its header; every reachable node
\* that exists, with type and attachment; every edge leaving a reachable node,
\* with type, target and attachment.
Canon(s, root) ==
  LET RN == ReachNodes(s, root)
      RW == {w \in ReachWarps(s, root) : HasWarp(s, w)}
  IN [root  |-> root,
      insts |-> [w \in RW |-> s.inst[w]],
      nodes |-> [k \in {x \in RN : x \in DOMAIN s.node /\ x[1] \in RW} |-> <<s.node[k], Get(s.natt, k)>>],
      edges |-> [e \in {x \in DOMAIN s.edge : NKey(x[1], s.edge[x].from) \in RN /\ x[1] \in RW}
                   |-> <<s.edge[e], Get(s.eatt, e)>>]]

(***************************************************************************)
(* Write-target attribution (C14): what an op can change vs what the guard *)
(* attributes to it (op_write_targets)                                     *)
(***************************************************************************)
\* Observable locations: <<"node", w, n>> (node record AND its edges_from list),
\* <<"edge", w, e>> (edge existence/record), attachment keys.
Attributed(o) ==
  CASE o.op = "UpsertNode" -> {<<"node", o.w, o.n>>}
    [] o.op = "DeleteNode" -> {<<"node", o.w, o.n>>, NAtt(o.w, o.n)}
    [] o.op = "UpsertEdge" -> {<<"node", o.w, o.from>>, <<"edge", o.w, o.e>>}
    [] o.op = "DeleteEdge" -> {<<"node", o.w, o.from>>, <<"edge", o.w, o.e>>, EAtt(o.w, o.e)}
    [] o.op = "SetAttachment" -> {o.key}
    [] o.op = "OpenPortal" -> {o.key}
    [] OTHER -> {}

\* Locations whose observable content differs between s and t (same instance set assumed)
Observable(s, loc) ==
  CASE loc[1] = "node" -> <<Get(s.node, NKey(loc[2], loc[3])),
                            {<<e[2], s.edge[e]>> : e \in OutEdges(s, loc[2], loc[3])}>>
    [] loc[1] = "edge" -> Get(s.edge, EKey(loc[2], loc[3]))
    [] loc[1] = "n"    -> Get(s.natt, NKey(loc[2], loc[3]))
    [] loc[1] = "e"    -> Get(s.eatt, EKey(loc[2], loc[3]))
AllLocs == {<<"node", w, n>> : w \in Warps, n \in Nodes} \cup {<<"edge", w, e>> : w \in Warps, e \in Edges}
           \cup AttKeys
Touched(s, o) == LET r == ApplyOp(s, o)
                 IN IF r.ok THEN {l \in AllLocs : Observable(s, l) # Observable(r.s, l)} ELSE {}
=============================================================================
