SPECIFICATION Spec
CONSTANTS
  MaxLen = 2
  MaxG = 2
  MaxForks = 1
  MaxCkpt = 1
  Base = {"w1"}
  Variants = {"a", "b"}
  Cold = TRUE
  Rich = TRUE
INVARIANTS
  InvFreshness
  InvUnavailable
  InvFrontierIsTip
  InvForkFaithful
  InvProvRef
  InvOpticTyped
PROPERTIES
  ReadOnly
  HistoricalBound
  OpticBound
CHECK_DEADLOCK FALSE
