SPECIFICATION MC_Spec
CONSTANTS
  Intents <- MC_Intents
  BehOf <- MC_BehOf
  BadInputs = {"malformed", "control", "import_malformed"}
  DupMode = "code"
  LimitMode = "code"
  RunnableMode = "code"
  None = None
  IntentSet = {"a1", "a2", "n1"}
  BadSet = {}
  LimitSet = {1}
  NoLimit = FALSE
  HeadSet = {}
  EligSet = {}
  ReadSet = {}
  UseStop = FALSE
  Mode = "beh"
  MaxRuns = 3
  MaxCalls = 8
  Export = TRUE
INVARIANTS TypeOK TicksAdvanceOnlyByCycles HistoryAppendOnly AtMostOnce LedgerIsLog DuplicateChangesNothing AcceptedIsNew RunCommitsPendingSet RunIdsFresh StartCompletionConsistent StatusFresh RefusedChangesNothing FailedRunCommitsNothing DormantNeverCommitted ReadChangesNothing ResponseCarriesStatus Inv_Export
PROPERTIES Laws
CHECK_DEADLOCK FALSE
