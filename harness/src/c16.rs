//! C16 - observation is read-only and bound to its coordinate.
//!
//! `echo-verif c16 <trace.ndjson> <results.ndjson> <seed> <tier> [main|probe]`
//!
//! Generates seeded multi-worldline histories on a REAL `WorldlineRuntime` / `ProvenanceService` /
//! `Engine` (live scheduler passes through `SchedulerCoordinator::super_tick`, worldlines imported
//! with recorded outputs, strand forks through `WorldlineRuntime::fork_strand`, replay checkpoints),
//! interleaved with reads drawn from a finite request alphabet (`ObservationService::observe` and
//! `ObservationService::observe_optic`).  Every action is logged at its linearization point (the
//! return of the public call) as one ndjson event for spec/ObserveTrace.tla.
//!
//! The harness ALSO decides the property on the real outcome:
//!  (a) read-only: `{:#?}` fingerprints of runtime, provenance and `Engine::verif_fingerprint()` are
//!      equal before and after every read (mask: FP_MASK);
//!  (b) a reading at an explicit historical coordinate equals the state replayed at that coordinate
//!      (`ProvenanceService::replay_worldline_state_at` and `PlaybackCursor::seek_to`): state root,
//!      commit id and payload;
//!  (c) re-asking the same historical request later yields the same coordinate-bound reading;
//!  (d) unavailable history (future tick, unknown worldline, provenance ref naming a commit the
//!      worldline does not have at that tick) yields a typed error, never a reading;
//!  (e) the same request asked twice against the same runtime yields `==` artifacts.

use std::collections::BTreeMap;

use rand::rngs::StdRng;
use rand::{Rng, SeedableRng};
use serde_json::{json, Value};
use warp_core::materialization::{make_channel_id, ChannelId};
use warp_core::{
    make_edge_id, make_head_id, make_intent_kind, make_node_id, make_strand_id, make_type_id, make_warp_id, ActorId,
    AtomPayload, AttachmentDescentPolicy, EdgeKey, EdgeRecord,
    AttachmentKey, AttachmentValue, AuthorityBinding, AuthorityDomainId, AuthorityDomainRef, AuthoredObserverPlan,
    BuiltinObserverPlan, CausalAuthority, CausalPosture, ConflictPolicy, ContractQueryObserver,
    ContractQueryObserverError, ContractQueryObserverResult, CoordinateAt, CursorId, CursorRole, EchoCoordinate,
    Engine, EngineBuilder, Footprint, ForkStrandRequest, GraphStore, GraphView, InboxPolicy, IngressDisposition,
    IngressEnvelope, IngressTarget, NodeId, NodeKey, NodeRecord, ObservationArtifact, ObservationAt,
    ObservationBasisPosture, ObservationCoordinate, ObservationError, ObservationFrame, ObservationPayload,
    ObservationProjection, ObservationReadBudget, ObservationRequest, ObservationRights, ObservationService,
    ObserveOpticRequest, ObserveOpticResult, ObserverInstanceId, ObserverInstanceRef, ObserverPlanId, OpticAperture,
    OpticApertureShape, OpticCapabilityId, OpticFocus, OpticId, OpticReadBudget, OriginId, PatternGraph,
    PlaybackCursor, PlaybackMode, PostureDerivation, ProjectionVersion, ProvenanceRef, ProvenanceService,
    ProvenanceStore, ReadingBudgetPosture, ReadingObserverPlan, ReadingResidualPosture, ReadingWitnessRef,
    RetentionContractId, RetentionPosture, RewriteRule, SchedulerCoordinator, SealStrength, TickDelta, WarpOp,
    WitnessBasis, WorldlineId, WorldlineRuntime, WorldlineState, WorldlineTick, WriterHead, WriterHeadKey,
};

use crate::util;

/// `{:#?}` fields removed from every fingerprint: `_for_test` instrumentation counters compiled in
/// by `host_test` (DESIGN section 5).  Nothing else is masked.
/// (The other counter DESIGN names, `recover_read_only_call_count`, lives in the trusted runtime host's
/// WAL wrapper, which is not part of the three fingerprinted objects.)
pub const FP_MASK: &[&str] = &["receipt_correlation_full_scan_count"];

const INSTALLED_QID: u32 = 9001;
const CHANNELS: &[&str] = &["c1", "c2", "c3"];

// ------------------------------------------------------------------------------------------
// identities
// ------------------------------------------------------------------------------------------

fn h(label: &str) -> [u8; 32] {
    *blake3::hash(label.as_bytes()).as_bytes()
}
fn wid(name: &str) -> WorldlineId {
    WorldlineId::from_bytes(h(&format!("verif-c16-wl|{name}")))
}
fn head_key(name: &str) -> WriterHeadKey {
    WriterHeadKey { worldline_id: wid(name), head_id: make_head_id(&format!("verif-c16-head|{name}")) }
}
fn chan(label: &str) -> ChannelId {
    make_channel_id(&format!("verif:c16:{label}"))
}
fn chan_label(c: &ChannelId) -> String {
    for l in CHANNELS.iter().chain(["c9"].iter()) {
        if chan(l) == *c {
            return (*l).to_string();
        }
    }
    hex::encode(&c.0[..4])
}
fn sh(x: &[u8]) -> String {
    hex::encode(&x[..8])
}
fn dig(bytes: &[u8]) -> String {
    sh(blake3::hash(bytes).as_bytes())
}

// ------------------------------------------------------------------------------------------
// the command rule: intent bytes "L<label>|<nonce>" upsert the node of <label>
// ------------------------------------------------------------------------------------------

const RULE_NAME: &str = "cmd/verif-c16";

fn label_of(view: &GraphView<'_>, scope: &NodeId) -> Option<(String, String)> {
    match view.node_attachment(scope) {
        Some(AttachmentValue::Atom(p)) => {
            let s = std::str::from_utf8(p.bytes.as_ref()).ok()?;
            let mut it = s.split('|');
            let l = it.next()?.to_string();
            if !l.starts_with('L') {
                return None;
            }
            Some((l, it.next().unwrap_or("").to_string()))
        }
        _ => None,
    }
}
fn target_node(label: &str) -> NodeId {
    make_node_id(&format!("verif-c16-target|{label}"))
}
fn hub_node(label: &str) -> NodeId {
    make_node_id(&format!("verif-c16-hub|{label}"))
}
fn c16_match(view: GraphView<'_>, scope: &NodeId) -> bool {
    label_of(&view, scope).is_some()
}
/// label L<k>: node target(L<k>) hangs off the pre-existing hub(L<k>) (reachable from the root, so
/// the state root changes) and carries the nonce as its alpha attachment.  Two commits with the same
/// label touch the same slots; different labels are disjoint.
fn c16_footprint(view: GraphView<'_>, scope: &NodeId) -> Footprint {
    let warp = view.warp_id();
    let nk = |n: NodeId| NodeKey { warp_id: warp, local_id: n };
    let mut fp = Footprint { factor_mask: 1, ..Footprint::default() };
    fp.n_read.insert(nk(*scope));
    fp.a_read.insert(AttachmentKey::node_alpha(nk(*scope)));
    if let Some((l, _)) = label_of(&view, scope) {
        let (hub, tgt) = (hub_node(&l), target_node(&l));
        fp.n_read.insert(nk(hub));
        fp.n_read.insert(nk(tgt));
        fp.n_write.insert(nk(hub));
        fp.n_write.insert(nk(tgt));
        fp.e_write.insert(EdgeKey { warp_id: warp, local_id: make_edge_id(&format!("verif-c16-edge|{l}")) });
        fp.a_read.insert(AttachmentKey::node_alpha(nk(tgt)));
        fp.a_write.insert(AttachmentKey::node_alpha(nk(tgt)));
    }
    fp
}
fn c16_exec(view: GraphView<'_>, scope: &NodeId, delta: &mut TickDelta) {
    let warp = view.warp_id();
    if let Some((l, nonce)) = label_of(&view, scope) {
        let (hub, tgt) = (hub_node(&l), target_node(&l));
        let node = NodeKey { warp_id: warp, local_id: tgt };
        delta.push(WarpOp::UpsertNode { node, record: NodeRecord { ty: make_type_id("verif/c16/target") } });
        delta.push(WarpOp::UpsertEdge {
            warp_id: warp,
            record: EdgeRecord { id: make_edge_id(&format!("verif-c16-edge|{l}")), from: hub, to: tgt, ty: make_type_id("verif/c16/edge") },
        });
        delta.push(WarpOp::SetAttachment {
            key: AttachmentKey::node_alpha(node),
            value: Some(AttachmentValue::Atom(AtomPayload::new(make_type_id("verif/c16/nonce"), bytes::Bytes::from(nonce.into_bytes())))),
        });
    }
}
fn c16_rule() -> RewriteRule {
    RewriteRule {
        id: h(&format!("rule:{RULE_NAME}")),
        name: RULE_NAME,
        left: PatternGraph { nodes: vec![] },
        matcher: c16_match,
        executor: c16_exec,
        compute_footprint: c16_footprint,
        factor_mask: 1,
        conflict_policy: ConflictPolicy::Abort,
        join_fn: None,
    }
}

fn installed_plan() -> AuthoredObserverPlan {
    AuthoredObserverPlan {
        plan_id: ObserverPlanId::from_bytes([90; 32]),
        artifact_hash: [91; 32],
        schema_hash: [92; 32],
        state_schema_hash: [93; 32],
        update_law_hash: [94; 32],
        emission_law_hash: [95; 32],
    }
}
fn other_plan() -> AuthoredObserverPlan {
    AuthoredObserverPlan { plan_id: ObserverPlanId::from_bytes([80; 32]), ..installed_plan() }
}

fn build_engine() -> Result<Engine, String> {
    let mut store = GraphStore::default();
    let root = make_node_id("root");
    store.insert_node(root, NodeRecord { ty: make_type_id("world") });
    let mut engine = EngineBuilder::new(store, root).workers(1).build();
    engine.register_rule(c16_rule()).map_err(|e| format!("register rule: {e:?}"))?;
    // a pure function of (query id, vars, resolved tick, state root)
    engine
        .register_contract_query_observer(ContractQueryObserver::new(INSTALLED_QID, installed_plan(), |ctx| {
            let vars = String::from_utf8_lossy(ctx.vars_bytes).to_string();
            let bytes = format!(
                "q|{}|{}|{}|{}",
                ctx.query_id,
                vars,
                ctx.resolved.resolved_worldline_tick.as_u64(),
                hex::encode(ctx.resolved.state_root)
            )
            .into_bytes();
            match vars.as_str() {
                "fail" => Err(ContractQueryObserverError::failed(ctx.query_id, "verif: injected observer failure")),
                "badvars" => Err(ContractQueryObserverError::invalid_vars(ctx.query_id, "verif: injected bad vars")),
                "residual" => Ok(ContractQueryObserverResult::residual(bytes)),
                _ => Ok(ContractQueryObserverResult::complete(bytes)),
            }
        }))
        .map_err(|e| format!("register query observer: {e:?}"))?;
    Ok(engine)
}

fn retention_posture() -> Result<RetentionPosture, String> {
    let origin_id = OriginId::from_bytes([0x41; 32]);
    let authority = AuthorityDomainRef::new(origin_id, AuthorityDomainId::from_bytes([0x42; 32]));
    RetentionPosture::new(
        CausalPosture::AuthorOnly,
        PostureDerivation::ExplicitIntent,
        CausalAuthority::new(
            origin_id,
            ActorId::from_bytes([0x43; 32]),
            authority,
            AuthorityBinding::LocalUnbound { origin: origin_id },
            SealStrength::Advisory,
        )
        .map_err(|e| format!("authority: {e:?}"))?,
        RetentionContractId::from_bytes([0x44; 32]),
        None,
    )
    .map_err(|e| format!("retention posture: {e:?}"))
}

// ------------------------------------------------------------------------------------------
// fingerprints
// ------------------------------------------------------------------------------------------

/// Removes the masked fields (`name: <balanced value>`) from a compact `{:?}` rendering.
fn mask(dbg: &str) -> String {
    let mut s = dbg.to_string();
    for m in FP_MASK {
        let pat = format!("{m}: ");
        while let Some(start) = s.find(&pat) {
            let bytes = s.as_bytes();
            let mut i = start + pat.len();
            let mut depth = 0i32;
            let mut in_str = false;
            while i < bytes.len() {
                let c = bytes[i];
                if in_str {
                    if c == b'\\' {
                        i += 1;
                    } else if c == b'"' {
                        in_str = false;
                    }
                } else {
                    match c {
                        b'"' => in_str = true,
                        b'(' | b'[' | b'{' => depth += 1,
                        b')' | b']' | b'}' if depth == 0 => break,
                        b')' | b']' | b'}' => depth -= 1,
                        b',' if depth == 0 => break,
                        _ => {}
                    }
                }
                i += 1;
            }
            s.replace_range(start..i, &format!("{m}=<masked>"));
        }
    }
    s
}

#[derive(Clone, PartialEq, Eq)]
struct Fp {
    rt: [u8; 32],
    pv: [u8; 32],
    en: [u8; 32],
}
impl Fp {
    fn json(&self) -> Value {
        json!({"rt": sh(&self.rt), "pv": sh(&self.pv), "en": sh(&self.en)})
    }
    fn diff(&self, o: &Fp) -> Vec<&'static str> {
        let mut v = Vec::new();
        if self.rt != o.rt {
            v.push("runtime");
        }
        if self.pv != o.pv {
            v.push("provenance");
        }
        if self.en != o.en {
            v.push("engine");
        }
        v
    }
}

// ------------------------------------------------------------------------------------------
// the world
// ------------------------------------------------------------------------------------------

struct World {
    rt: WorldlineRuntime,
    prov: ProvenanceService,
    engine: Engine,
    names: Vec<String>,
    /// child -> (parent, anchor)
    strands: BTreeMap<String, (String, u64)>,
    ckpts: BTreeMap<String, Vec<u64>>,
    nonce: u64,
}

/// U0 of every worldline: the canonical root plus four hub nodes reachable from it
fn base_state() -> WorldlineState {
    let root = make_node_id("root");
    let mut store = GraphStore::new(make_warp_id("root"));
    store.insert_node(root, NodeRecord { ty: make_type_id("world") });
    for k in 1..5 {
        let l = format!("L{k}");
        store.insert_node(hub_node(&l), NodeRecord { ty: make_type_id("verif/c16/hub") });
        store.insert_edge(root, EdgeRecord { id: make_edge_id(&format!("verif-c16-hubedge|{l}")), from: root, to: hub_node(&l), ty: make_type_id("verif/c16/edge") });
    }
    match WorldlineState::from_root_store(store, root) {
        Ok(s) => s,
        Err(e) => {
            eprintln!("c16: base state: {e:?}");
            std::process::exit(2)
        }
    }
}

impl World {
    fn new() -> Result<Self, String> {
        Ok(Self {
            rt: WorldlineRuntime::new(),
            prov: ProvenanceService::new(),
            engine: build_engine()?,
            names: Vec::new(),
            strands: BTreeMap::new(),
            ckpts: BTreeMap::new(),
            nonce: 0,
        })
    }

    fn fp(&self) -> Fp {
        Fp {
            rt: *blake3::hash(mask(&format!("{:?}", self.rt)).as_bytes()).as_bytes(),
            pv: *blake3::hash(mask(&format!("{:?}", self.prov)).as_bytes()).as_bytes(),
            en: *blake3::hash(mask(&self.engine.verif_fingerprint()).as_bytes()).as_bytes(),
        }
    }

    fn len(&self, name: &str) -> u64 {
        self.prov.len(wid(name)).unwrap_or(0)
    }

    fn register_head(&mut self, name: &str) -> Result<(), String> {
        self.rt
            .register_writer_head(WriterHead::with_routing(head_key(name), PlaybackMode::Play, InboxPolicy::AcceptAll, None, true))
            .map_err(|e| format!("register head {name}: {e:?}"))
    }

    /// registers an empty live worldline; returns the `register` event
    fn register(&mut self, name: &str) -> Result<Value, String> {
        let state = base_state();
        self.prov.register_worldline(wid(name), &state).map_err(|e| format!("prov register: {e:?}"))?;
        self.rt.register_worldline(wid(name), state).map_err(|e| format!("rt register: {e:?}"))?;
        self.register_head(name)?;
        self.names.push(name.to_string());
        self.ckpts.insert(name.to_string(), Vec::new());
        let frontier = self.rt.worldlines().get(&wid(name)).ok_or("frontier missing")?;
        let snap = self.engine.snapshot_for_state(frontier.state());
        Ok(json!({"event":"register","w":name,"root0":sh(&snap.state_root),"commit0":sh(&snap.hash)}))
    }

    fn commit_event(&self, name: &str, tick: u64, live: bool) -> Result<Value, String> {
        let e = self.prov.entry(wid(name), WorldlineTick::from_raw(tick)).map_err(|e| format!("entry: {e:?}"))?;
        let (reads, writes) = match &e.patch {
            Some(p) => (
                p.in_slots.iter().map(|s| dig(format!("{s:?}").as_bytes())).collect::<Vec<_>>(),
                p.out_slots.iter().map(|s| dig(format!("{s:?}").as_bytes())).collect::<Vec<_>>(),
            ),
            None => (Vec::new(), Vec::new()),
        };
        let outs: Vec<Value> = e.outputs.iter().map(|(c, d)| json!({"ch": chan_label(c), "d": dig(d)})).collect();
        Ok(json!({"event":"commit","w":name,"tick":tick,"root":sh(&e.expected.state_root),"commit":sh(&e.expected.commit_hash),
                  "cgt":e.commit_global_tick.as_u64(),"outs":outs,"reads":reads,"writes":writes,"live":live}))
    }

    fn ingest(&mut self, name: &str, label: u32) -> Result<(), String> {
        self.nonce += 1;
        let bytes = format!("L{label}|{}", self.nonce).into_bytes();
        let env = IngressEnvelope::local_intent(
            IngressTarget::DefaultWriter { worldline_id: wid(name) },
            make_intent_kind("verif/c16"),
            bytes,
        );
        match self.rt.ingest(env) {
            Ok(IngressDisposition::Accepted { .. }) => Ok(()),
            other => Err(format!("ingest into {name}: {other:?}")),
        }
    }

    /// one scheduler pass; returns the commit events followed by the tick event
    fn pass(&mut self) -> Result<Vec<Value>, String> {
        let records = SchedulerCoordinator::super_tick(&mut self.rt, &mut self.prov, &mut self.engine)
            .map_err(|e| format!("super_tick: {e:?}"))?;
        let mut out = Vec::new();
        for r in &records {
            let name = self
                .names
                .iter()
                .find(|n| wid(n) == r.head_key.worldline_id)
                .cloned()
                .ok_or("step record for unknown worldline")?;
            let tick = r.worldline_tick_after.as_u64() - 1;
            out.push(self.commit_event(&name, tick, true)?);
        }
        out.push(json!({"event":"tick","g":self.rt.global_tick().as_u64()}));
        Ok(out)
    }

    /// A worldline whose history (k entries WITH recorded outputs) was produced elsewhere: the
    /// entries come from real scheduler passes of a scratch runtime, their `outputs` are filled in
    /// (the engine never emits: "Rules don't emit yet"), they are appended to the provenance service
    /// under test, and the replayed state is registered with the runtime under test.
    fn import(&mut self, name: &str, k: u64, rng: &mut StdRng) -> Result<Vec<Value>, String> {
        let mut scratch = World::new()?;
        scratch.register(name)?;
        // stagger the scratch global tick so imported commit ticks are unrelated to ours
        for _ in 0..rng.gen_range(0..3) {
            scratch.pass()?;
        }
        for _ in 0..k {
            for _ in 0..rng.gen_range(1..3) {
                scratch.ingest(name, rng.gen_range(1..5))?;
            }
            scratch.pass()?;
        }
        let n = scratch.len(name);
        if n == 0 {
            return Err("import produced no entries".into());
        }
        let state0 = base_state();
        self.prov.register_worldline(wid(name), &state0).map_err(|e| format!("prov register: {e:?}"))?;
        let snap0 = self.engine.snapshot_for_state(&state0);
        let mut events =
            vec![json!({"event":"register","w":name,"root0":sh(&snap0.state_root),"commit0":sh(&snap0.hash)})];
        for t in 0..n {
            let mut e = scratch.prov.entry(wid(name), WorldlineTick::from_raw(t)).map_err(|e| format!("scratch entry: {e:?}"))?;
            let mut outs: Vec<(ChannelId, Vec<u8>)> = Vec::new();
            let nch = rng.gen_range(0..=CHANNELS.len());
            for l in CHANNELS.iter().take(nch) {
                outs.push((chan(l), format!("{name}|t{t}|{l}|{}", rng.gen::<u32>()).into_bytes()));
            }
            if t == 0 && outs.is_empty() {
                outs.push((chan("c1"), format!("{name}|t0|c1").into_bytes()));
            }
            outs.sort_by(|a, b| a.0.cmp(&b.0));
            e.outputs = outs;
            self.prov.append_local_commit(e).map_err(|e| format!("append imported entry: {e:?}"))?;
        }
        let state = self.prov.replay_worldline_state(wid(name), &state0).map_err(|e| format!("replay imported: {e:?}"))?;
        self.rt.register_worldline(wid(name), state).map_err(|e| format!("rt register imported: {e:?}"))?;
        self.register_head(name)?;
        self.names.push(name.to_string());
        self.ckpts.insert(name.to_string(), Vec::new());
        for t in 0..n {
            events.push(self.commit_event(name, t, false)?);
        }
        Ok(events)
    }

    fn fork(&mut self, parent: &str, t: u64, child: &str) -> Result<Value, String> {
        let req = ForkStrandRequest {
            strand_id: make_strand_id(&format!("verif-c16-strand|{child}")),
            source_lane_id: wid(parent),
            fork_tick: WorldlineTick::from_raw(t),
            child_worldline_id: wid(child),
            writer_heads: vec![WriterHead::with_routing(head_key(child), PlaybackMode::Play, InboxPolicy::AcceptAll, None, true)],
            retention_posture: retention_posture()?,
        };
        self.rt.fork_strand(&mut self.prov, req).map_err(|e| format!("fork_strand: {e:?}"))?;
        self.names.push(child.to_string());
        self.strands.insert(child.to_string(), (parent.to_string(), t));
        let inherited: Vec<u64> = self.ckpts.get(parent).map(|v| v.iter().copied().filter(|c| *c <= t + 1).collect()).unwrap_or_default();
        self.ckpts.insert(child.to_string(), inherited);
        Ok(json!({"event":"fork","parent":parent,"t":t,"child":child}))
    }

    fn checkpoint(&mut self, name: &str, c: u64) -> Result<Value, String> {
        let state = self
            .prov
            .replay_worldline_state_at(wid(name), &base_state(), WorldlineTick::from_raw(c))
            .map_err(|e| format!("replay for checkpoint: {e:?}"))?;
        self.prov.checkpoint(wid(name), &state).map_err(|e| format!("checkpoint: {e:?}"))?;
        let v = self.ckpts.entry(name.to_string()).or_default();
        if !v.contains(&c) {
            v.push(c);
        }
        Ok(json!({"event":"checkpoint","w":name,"c":c}))
    }
}

// ------------------------------------------------------------------------------------------
// the request alphabet
// ------------------------------------------------------------------------------------------

#[derive(Clone, Debug, PartialEq, Eq, PartialOrd, Ord)]
struct ObsReq {
    w: String,
    at: Option<u64>,
    frame: &'static str,
    proj: &'static str,
    chs: Vec<&'static str>,
    fall: bool,
    qid: u32,
    vars: &'static str,
    plan: &'static str,
    inst: bool,
    rights: &'static str,
    bounded: bool,
    maxb: i64,
    maxw: i64,
}

fn builtin_plan_for(frame: &str, proj: &str) -> &'static str {
    match (frame, proj) {
        ("CB", "head") => "CommitBoundaryHead",
        ("CB", "snapshot") => "CommitBoundarySnapshot",
        ("RT", "truth") => "RecordedTruthChannels",
        ("QV", "query") => "QueryBytes",
        _ => "CommitBoundaryHead",
    }
}

impl ObsReq {
    fn pair(w: &str, at: Option<u64>, frame: &'static str, proj: &'static str) -> Self {
        Self {
            w: w.to_string(),
            at,
            frame,
            proj,
            chs: Vec::new(),
            fall: true,
            qid: INSTALLED_QID,
            vars: "v0",
            plan: builtin_plan_for(frame, proj),
            inst: false,
            rights: "public",
            bounded: false,
            maxb: -1,
            maxw: -1,
        }
    }
    fn json(&self) -> Value {
        json!({"w": self.w, "at": if self.at.is_some() {"tick"} else {"frontier"}, "t": self.at.unwrap_or(0),
               "frame": self.frame, "proj": self.proj, "chs": self.chs, "fall": self.fall, "qid": self.qid,
               "vars": self.vars, "plan": self.plan, "inst": self.inst, "rights": self.rights,
               "bounded": self.bounded, "maxb": self.maxb, "maxw": self.maxw})
    }
    fn class(&self) -> String {
        format!("{}/{}", self.frame, self.proj)
    }
    fn real(&self) -> ObservationRequest {
        let frame = match self.frame {
            "CB" => ObservationFrame::CommitBoundary,
            "RT" => ObservationFrame::RecordedTruth,
            _ => ObservationFrame::QueryView,
        };
        let projection = match self.proj {
            "head" => ObservationProjection::Head,
            "snapshot" => ObservationProjection::Snapshot,
            "truth" => ObservationProjection::TruthChannels {
                channels: if self.fall { None } else { Some(self.chs.iter().map(|l| chan(l)).collect()) },
            },
            _ => ObservationProjection::Query { query_id: self.qid, vars_bytes: self.vars.as_bytes().to_vec() },
        };
        let observer_plan = match self.plan {
            "CommitBoundaryHead" => ReadingObserverPlan::Builtin { plan: BuiltinObserverPlan::CommitBoundaryHead },
            "CommitBoundarySnapshot" => ReadingObserverPlan::Builtin { plan: BuiltinObserverPlan::CommitBoundarySnapshot },
            "RecordedTruthChannels" => ReadingObserverPlan::Builtin { plan: BuiltinObserverPlan::RecordedTruthChannels },
            "QueryBytes" => ReadingObserverPlan::Builtin { plan: BuiltinObserverPlan::QueryBytes },
            "authored:installed" => ReadingObserverPlan::Authored { plan: Box::new(installed_plan()) },
            _ => ReadingObserverPlan::Authored { plan: Box::new(other_plan()) },
        };
        ObservationRequest {
            coordinate: ObservationCoordinate {
                worldline_id: wid(&self.w),
                at: match self.at {
                    None => ObservationAt::Frontier,
                    Some(t) => ObservationAt::Tick(WorldlineTick::from_raw(t)),
                },
            },
            frame,
            projection,
            observer_plan,
            observer_instance: if self.inst {
                Some(ObserverInstanceRef {
                    instance_id: ObserverInstanceId::from_bytes([70; 32]),
                    plan_id: ObserverPlanId::from_bytes([90; 32]),
                    state_hash: [71; 32],
                })
            } else {
                None
            },
            budget: if self.bounded {
                ObservationReadBudget::Bounded {
                    max_payload_bytes: self.maxb as u64,
                    max_witness_refs: if self.maxw < 0 { u64::MAX } else { self.maxw as u64 },
                }
            } else {
                ObservationReadBudget::UnboundedOneShot
            },
            rights: if self.rights == "cap" {
                ObservationRights::CapabilityScoped { capability: OpticCapabilityId::from_bytes([72; 32]) }
            } else {
                ObservationRights::KernelPublic
            },
        }
    }
}

const FRAMES: &[&str] = &["CB", "RT", "QV"];
const PROJS: &[&str] = &["head", "snapshot", "truth", "query"];
const BUDGETS: &[(i64, i64)] = &[(512, 1), (8, 1), (512, 0), (4096, -1), (80, 1)];

/// every variation of a (coordinate, valid pair) request the alphabet contains
fn variations(base: &ObsReq) -> Vec<ObsReq> {
    let mut v = Vec::new();
    for plan in ["CommitBoundaryHead", "CommitBoundarySnapshot", "RecordedTruthChannels", "QueryBytes", "authored:installed", "authored:other"] {
        if plan != base.plan {
            v.push(ObsReq { plan, ..base.clone() });
        }
    }
    v.push(ObsReq { inst: true, ..base.clone() });
    v.push(ObsReq { rights: "cap", ..base.clone() });
    v.push(ObsReq { inst: true, rights: "cap", plan: "authored:other", ..base.clone() });
    for (b, w) in BUDGETS {
        v.push(ObsReq { bounded: true, maxb: *b, maxw: *w, ..base.clone() });
    }
    if base.proj == "truth" {
        // filters are caller-ordered lists: every order of a channel set must select the same recorded channels
        for chs in [
            vec!["c1"], vec!["c2", "c3"], vec!["c3", "c2"], vec!["c1", "c2", "c3"], vec!["c3", "c1", "c2"], vec!["c2", "c1", "c3"],
            vec!["c3", "c2", "c1"], vec!["c2", "c9", "c1"], vec!["c9"], vec![],
        ] {
            v.push(ObsReq { chs: chs.clone(), fall: false, ..base.clone() });
            v.push(ObsReq { chs, fall: false, bounded: true, maxb: 40, maxw: 1, ..base.clone() });
        }
    }
    if base.proj == "query" {
        for qid in [INSTALLED_QID, 7] {
            for vars in ["v0", "v1", "residual", "fail", "badvars"] {
                if qid != base.qid || vars != base.vars {
                    v.push(ObsReq { qid, vars, ..base.clone() });
                    v.push(ObsReq { qid, vars, plan: "authored:installed", ..base.clone() });
                }
            }
        }
        v.push(ObsReq { vars: "residual", bounded: true, maxb: 16, maxw: 1, ..base.clone() });
        v.push(ObsReq { vars: "fail", rights: "cap", ..base.clone() });
    }
    v
}

fn coords(world: &World) -> Vec<(String, Option<u64>)> {
    let mut v = Vec::new();
    for name in world.names.iter().map(String::as_str).chain(["wX"]) {
        v.push((name.to_string(), None));
        let n = world.len(name);
        for t in 0..=(n + 1) {
            v.push((name.to_string(), Some(t)));
        }
        v.push((name.to_string(), Some(n + 7)));
    }
    v
}

#[derive(Clone, Debug, PartialEq, Eq, PartialOrd, Ord)]
struct OptReq {
    focus: &'static str,
    ck: &'static str,
    fw: String,
    w: String,
    at: &'static str,
    t: u64,
    pw: String,
    pc: [u8; 32],
    shape: &'static str,
    rlen: u64,
    maxb: i64,
    maxt: i64,
    maxa: i64,
    descent: &'static str,
}

impl OptReq {
    fn base(w: &str) -> Self {
        Self {
            focus: "wl",
            ck: "wl",
            fw: w.to_string(),
            w: w.to_string(),
            at: "frontier",
            t: 0,
            pw: String::new(),
            pc: [0; 32],
            shape: "head",
            rlen: 0,
            maxb: 512,
            maxt: -1,
            maxa: -1,
            descent: "boundary",
        }
    }
    fn json(&self) -> Value {
        json!({"focus": self.focus, "ck": self.ck, "fw": self.fw, "w": self.w, "at": self.at, "t": self.t, "pw": self.pw,
               "pc": if self.at == "prov" { sh(&self.pc) } else { String::new() }, "shape": self.shape, "rlen": self.rlen,
               "maxb": self.maxb, "maxt": self.maxt, "maxa": self.maxa, "descent": self.descent})
    }
    fn opt(x: i64) -> Option<u64> {
        if x < 0 { None } else { Some(x as u64) }
    }
    fn real(&self) -> ObserveOpticRequest {
        let at = match self.at {
            "frontier" => CoordinateAt::Frontier,
            "tick" => CoordinateAt::Tick(WorldlineTick::from_raw(self.t)),
            _ => CoordinateAt::Provenance(ProvenanceRef {
                worldline_id: wid(&self.pw),
                worldline_tick: WorldlineTick::from_raw(self.t),
                commit_hash: self.pc,
            }),
        };
        let strand_id = make_strand_id(&format!("verif-c16-strand|{}", self.w));
        ObserveOpticRequest {
            optic_id: OpticId::from_bytes([60; 32]),
            focus: match self.focus {
                "wl" => OpticFocus::Worldline { worldline_id: wid(&self.fw) },
                "strand" => OpticFocus::Strand { strand_id },
                _ => OpticFocus::AttachmentBoundary {
                    key: AttachmentKey::node_alpha(NodeKey { warp_id: base_state().root().warp_id, local_id: make_node_id("root") }),
                },
            },
            coordinate: match self.ck {
                "wl" => EchoCoordinate::Worldline { worldline_id: wid(&self.w), at },
                _ => EchoCoordinate::Strand { strand_id, at, parent_basis: None },
            },
            aperture: OpticAperture {
                shape: match self.shape {
                    "head" => OpticApertureShape::Head,
                    "snapmeta" => OpticApertureShape::SnapshotMetadata,
                    "truth" => OpticApertureShape::TruthChannels { channels: None },
                    "query" => OpticApertureShape::QueryBytes { query_id: INSTALLED_QID, vars_digest: [5; 32] },
                    "range" => OpticApertureShape::ByteRange { start: 0, len: self.rlen },
                    _ => OpticApertureShape::AttachmentBoundary,
                },
                budget: OpticReadBudget {
                    max_bytes: Self::opt(self.maxb),
                    max_nodes: Some(8),
                    max_ticks: Self::opt(self.maxt),
                    max_attachments: Self::opt(self.maxa),
                },
                attachment_descent: if self.descent == "explicit" { AttachmentDescentPolicy::Explicit } else { AttachmentDescentPolicy::BoundaryOnly },
            },
            projection_version: ProjectionVersion::from_raw(1),
            reducer_version: None,
            capability: OpticCapabilityId::from_bytes([61; 32]),
        }
    }
}

fn optic_variations(o: &OptReq) -> Vec<OptReq> {
    let mut v = vec![o.clone()];
    for shape in ["snapmeta", "truth", "query", "attb"] {
        v.push(OptReq { shape, ..o.clone() });
    }
    v.push(OptReq { shape: "range", rlen: 16, ..o.clone() });
    v.push(OptReq { shape: "range", rlen: 4096, ..o.clone() });
    for maxb in [-1i64, 0, 64, 127, 128, 140, 4096] {
        v.push(OptReq { maxb, ..o.clone() });
        v.push(OptReq { maxb, shape: "snapmeta", ..o.clone() });
    }
    for maxt in [0i64, 1, 2, 8] {
        v.push(OptReq { maxt, ..o.clone() });
    }
    v.push(OptReq { focus: "strand", ..o.clone() });
    v.push(OptReq { ck: "strand", ..o.clone() });
    v.push(OptReq { focus: "att", ..o.clone() });
    v.push(OptReq { focus: "att", shape: "attb", ..o.clone() });
    v.push(OptReq { focus: "att", shape: "attb", descent: "explicit", ..o.clone() });
    v.push(OptReq { focus: "att", shape: "attb", descent: "explicit", maxa: 0, ..o.clone() });
    v.push(OptReq { focus: "att", shape: "attb", descent: "explicit", maxa: 2, ..o.clone() });
    v.push(OptReq { focus: "att", shape: "attb", descent: "explicit", maxa: 2, maxb: -1, ..o.clone() });
    v
}

// ------------------------------------------------------------------------------------------
// reading -> json
// ------------------------------------------------------------------------------------------

fn posture_json(p: &ObservationBasisPosture) -> Value {
    let none = |k: &str| json!({"k": k, "pft": -1, "pfc": "", "ptt": -1, "ptc": "", "ov": 0});
    match p {
        ObservationBasisPosture::Worldline => none("Worldline"),
        ObservationBasisPosture::StrandHistorical { .. } => none("StrandHistorical"),
        ObservationBasisPosture::StrandAtAnchor { .. } => none("StrandAtAnchor"),
        ObservationBasisPosture::StrandParentAdvancedDisjoint { parent_from, parent_to, .. } => json!({
            "k": "StrandParentAdvancedDisjoint", "pft": parent_from.worldline_tick.as_u64(), "pfc": sh(&parent_from.commit_hash),
            "ptt": parent_to.worldline_tick.as_u64(), "ptc": sh(&parent_to.commit_hash), "ov": 0}),
        ObservationBasisPosture::StrandRevalidationRequired { parent_from, parent_to, overlapping_slots, .. } => json!({
            "k": "StrandRevalidationRequired", "pft": parent_from.worldline_tick.as_u64(), "pfc": sh(&parent_from.commit_hash),
            "ptt": parent_to.worldline_tick.as_u64(), "ptc": sh(&parent_to.commit_hash), "ov": overlapping_slots.len()}),
    }
}

fn wit_json(w: &[ReadingWitnessRef]) -> Value {
    match w {
        [ReadingWitnessRef::ResolvedCommit { reference }] => {
            json!({"k": "commit", "t": reference.worldline_tick.as_u64(), "c": sh(&reference.commit_hash), "r": ""})
        }
        [ReadingWitnessRef::EmptyFrontier { state_root, commit_hash, .. }] => {
            json!({"k": "empty", "t": -1, "c": sh(commit_hash), "r": sh(state_root)})
        }
        other => json!({"k": format!("unexpected:{}", other.len()), "t": -1, "c": "", "r": ""}),
    }
}

fn opt_tick(t: Option<warp_core::GlobalTick>) -> i64 {
    t.map(|g| g.as_u64() as i64).unwrap_or(-1)
}

/// payload fields: (ptype, ptick, pcgt, proot, pcommit, truth, qd)
fn payload_json(p: &ObservationPayload, out: &mut serde_json::Map<String, Value>) {
    let ptype: &str;
    let (mut ptick, mut pcgt, mut proot, mut pcommit) = (-1i64, -1i64, String::new(), String::new());
    let mut truth: Vec<Value> = Vec::new();
    let mut qd = String::new();
    match p {
        ObservationPayload::Head(x) => {
            ptype = "head";
            ptick = x.worldline_tick.as_u64() as i64;
            pcgt = opt_tick(x.commit_global_tick);
            proot = sh(&x.state_root);
            pcommit = sh(&x.commit_hash);
        }
        ObservationPayload::Snapshot(x) => {
            ptype = "snapshot";
            ptick = x.worldline_tick.as_u64() as i64;
            pcgt = opt_tick(x.commit_global_tick);
            proot = sh(&x.state_root);
            pcommit = sh(&x.commit_hash);
        }
        ObservationPayload::TruthChannels(c) => {
            ptype = "truth";
            truth = c.iter().map(|(c, d)| json!({"ch": chan_label(c), "d": dig(d)})).collect();
        }
        ObservationPayload::QueryBytes(b) => {
            ptype = "query";
            qd = dig(b);
        }
    }
    out.insert("ptype".into(), json!(ptype));
    out.insert("ptick".into(), json!(ptick));
    out.insert("pcgt".into(), json!(pcgt));
    out.insert("proot".into(), json!(proot));
    out.insert("pcommit".into(), json!(pcommit));
    out.insert("truth".into(), json!(truth));
    out.insert("qd".into(), json!(qd));
    out.insert("pd".into(), json!(dig(format!("{p:?}").as_bytes())));
}

fn residual_name(r: ReadingResidualPosture) -> &'static str {
    match r {
        ReadingResidualPosture::Complete => "Complete",
        ReadingResidualPosture::Residual => "Residual",
        ReadingResidualPosture::PluralityPreserved => "PluralityPreserved",
        ReadingResidualPosture::Obstructed => "Obstructed",
    }
}

fn plan_name(p: &ReadingObserverPlan) -> String {
    match p {
        ReadingObserverPlan::Builtin { plan } => format!("{plan:?}"),
        ReadingObserverPlan::Authored { plan } if **plan == installed_plan() => "authored:installed".to_string(),
        ReadingObserverPlan::Authored { .. } => "authored:other".to_string(),
    }
}

fn empty_res() -> serde_json::Map<String, Value> {
    let v = json!({"ok": false, "err": "", "rtick": -1, "cgt": -1, "oag": -1, "root": "", "commit": "",
        "wit": {"k": "", "t": -1, "c": "", "r": ""}, "post": {"k": "", "pft": -1, "pfc": "", "ptt": -1, "ptc": "", "ov": 0},
        "ptype": "", "ptick": -1, "pcgt": -1, "proot": "", "pcommit": "", "truth": [], "qd": "", "pd": "",
        "residual": "", "planout": "", "plen": -1, "hash": "", "bmaxb": -1, "bmaxw": -1, "bwit": -1});
    match v {
        Value::Object(m) => m,
        _ => serde_json::Map::new(),
    }
}

/// CBOR wire length of an artifact's payload, computed by the harness (independent of the
/// `payload_bytes` the implementation reports)
fn wire_len(a: &ObservationArtifact) -> i64 {
    echo_wasm_abi::encode_cbor(&a.to_abi().payload).map(|b| b.len() as i64).unwrap_or(-2)
}

fn err_name(e: &ObservationError) -> String {
    let s = format!("{e:?}");
    s.split(|c: char| !(c.is_ascii_alphanumeric() || c == '_')).next().unwrap_or("").to_string()
}

fn big(x: u64) -> i64 {
    if x > i32::MAX as u64 { -1 } else { x as i64 }
}

fn obs_res_json(r: &Result<ObservationArtifact, ObservationError>) -> Value {
    let mut m = empty_res();
    match r {
        Err(e) => {
            m.insert("err".into(), json!(err_name(e)));
            if let ObservationError::BudgetExceeded { payload_bytes, .. } = e {
                m.insert("plen".into(), json!(big(*payload_bytes)));
            }
        }
        Ok(a) => {
            m.insert("ok".into(), json!(true));
            m.insert("rtick".into(), json!(a.resolved.resolved_worldline_tick.as_u64()));
            m.insert("cgt".into(), json!(opt_tick(a.resolved.commit_global_tick)));
            m.insert("oag".into(), json!(opt_tick(a.resolved.observed_after_global_tick)));
            m.insert("root".into(), json!(sh(&a.resolved.state_root)));
            m.insert("commit".into(), json!(sh(&a.resolved.commit_hash)));
            m.insert("wit".into(), wit_json(&a.reading.witness_refs));
            m.insert("post".into(), posture_json(&a.reading.parent_basis_posture));
            payload_json(&a.payload, &mut m);
            m.insert("residual".into(), json!(residual_name(a.reading.residual_posture)));
            m.insert("planout".into(), json!(plan_name(&a.reading.observer_plan)));
            if let ReadingBudgetPosture::Bounded { max_payload_bytes, payload_bytes, max_witness_refs, witness_refs } = a.reading.budget_posture {
                m.insert("plen".into(), json!(big(payload_bytes)));
                m.insert("bmaxb".into(), json!(big(max_payload_bytes)));
                m.insert("bmaxw".into(), json!(big(max_witness_refs)));
                m.insert("bwit".into(), json!(big(witness_refs)));
            }
            m.insert("hash".into(), json!(sh(&a.artifact_hash)));
        }
    }
    Value::Object(m)
}

fn basis_json(b: &WitnessBasis) -> Value {
    match b {
        WitnessBasis::ResolvedCommit { .. } => json!({"k": "commit", "cpt": -1, "cpc": "", "tail": []}),
        WitnessBasis::WitnessSet { .. } => json!({"k": "set", "cpt": -1, "cpc": "", "tail": []}),
        WitnessBasis::CheckpointPlusTail { checkpoint_ref, tail_witness_refs, .. } => json!({
            "k": "cptail", "cpt": checkpoint_ref.worldline_tick.as_u64(), "cpc": sh(&checkpoint_ref.commit_hash),
            "tail": tail_witness_refs.iter().map(|r| json!({"t": r.worldline_tick.as_u64(), "c": sh(&r.commit_hash)})).collect::<Vec<_>>()}),
        WitnessBasis::Missing { reason } => json!({"k": format!("missing:{reason:?}"), "cpt": -1, "cpc": "", "tail": []}),
    }
}

fn optic_res_json(r: &ObserveOpticResult) -> Value {
    let mut m = empty_res();
    m.insert("kind".into(), json!(""));
    m.insert("reason".into(), json!(""));
    m.insert("basis".into(), json!({"k": "", "cpt": -1, "cpc": "", "tail": []}));
    m.insert("rid".into(), json!(""));
    match r {
        ObserveOpticResult::Obstructed(o) => {
            m.insert("kind".into(), json!(format!("{:?}", o.kind)));
            if let Some(WitnessBasis::Missing { reason }) = &o.witness_basis {
                m.insert("reason".into(), json!(format!("{reason:?}")));
            }
        }
        ObserveOpticResult::Reading(rd) => {
            m.insert("ok".into(), json!(true));
            m.insert("wit".into(), wit_json(&rd.envelope.witness_refs));
            m.insert("post".into(), posture_json(&rd.envelope.parent_basis_posture));
            payload_json(&rd.payload, &mut m);
            m.insert("residual".into(), json!(residual_name(rd.envelope.residual_posture)));
            m.insert("planout".into(), json!(plan_name(&rd.envelope.observer_plan)));
            if let ReadingBudgetPosture::Bounded { max_payload_bytes, payload_bytes, max_witness_refs, witness_refs } = rd.envelope.budget_posture {
                m.insert("plen".into(), json!(big(payload_bytes)));
                m.insert("bmaxb".into(), json!(big(max_payload_bytes)));
                m.insert("bmaxw".into(), json!(big(max_witness_refs)));
                m.insert("bwit".into(), json!(big(witness_refs)));
            }
            m.insert("basis".into(), basis_json(&rd.read_identity.witness_basis));
            m.insert("rid".into(), json!(sh(&rd.read_identity.read_identity_hash)));
        }
    }
    Value::Object(m)
}

// ------------------------------------------------------------------------------------------
// the driver
// ------------------------------------------------------------------------------------------

struct Replayed {
    root: [u8; 32],
    commit: Option<[u8; 32]>,
    cursor_root: [u8; 32],
    outputs: Vec<(ChannelId, Vec<u8>)>,
}

struct Driver {
    world: World,
    out: util::Out,
    viol: Vec<Value>,
    viol_keys: std::collections::BTreeSet<String>,
    events: u64,
    reads: u64,
    ok_reads: u64,
    hist_reads: u64,
    reasked: u64,
    replay_checked: u64,
    classes: BTreeMap<String, u64>,
    /// historical request -> coordinate-bound reading first seen
    memo: BTreeMap<ObsReq, (Value, u64)>,
    /// (historical optic request, checkpoints strictly below its tick) -> full optic reading first seen
    omemo: BTreeMap<(OptReq, Vec<u64>), (Value, u64)>,
    replay_cache: BTreeMap<(String, u64), Option<Replayed>>,
    last_fp: Option<Fp>,
    prefix: Vec<Value>,
    probe: bool,
}

fn coord_bound(res: &Value) -> Value {
    let mut m = serde_json::Map::new();
    for k in ["ok", "err", "rtick", "cgt", "root", "commit", "wit", "ptype", "ptick", "pcgt", "proot", "pcommit", "truth", "qd", "pd", "residual", "planout", "plen"] {
        m.insert(k.to_string(), res[k].clone());
    }
    Value::Object(m)
}

impl Driver {
    fn emit(&mut self, v: Value) {
        self.prefix.push(v.clone());
        self.out.line(&v);
        self.events += 1;
    }

    fn mutated(&mut self) {
        self.last_fp = None;
        self.replay_cache.clear();
    }

    fn violation(&mut self, key: String, detail: String, req: Value) {
        if self.viol_keys.insert(key.clone()) {
            let upto = self.prefix.len();
            self.viol.push(json!({"key": key, "detail": detail, "request": req, "event_index": upto}));
        }
    }

    fn class_hit(&mut self, c: String) {
        *self.classes.entry(c).or_insert(0) += 1;
    }

    fn replayed(&mut self, w: &str, t: u64) -> Option<&Replayed> {
        let key = (w.to_string(), t);
        if !self.replay_cache.contains_key(&key) {
            let target = WorldlineTick::from_raw(t + 1);
            let base = base_state();
            let st = self.world.prov.replay_worldline_state_at(wid(w), &base, target).ok();
            let val = st.map(|st| {
                let mut cur = PlaybackCursor::new(CursorId(h("verif-c16-cursor")), wid(w), base.root().warp_id, CursorRole::Reader, &base, WorldlineTick::MAX);
                let cursor_root = match cur.seek_to(target, &self.world.prov, &base) {
                    Ok(()) => cur.current_state_root(),
                    Err(_) => [0xEE; 32],
                };
                Replayed {
                    root: st.state_root(),
                    commit: st.last_snapshot().map(|s| s.hash),
                    cursor_root,
                    outputs: st.last_materialization().iter().map(|c| (c.channel, c.data.clone())).collect(),
                }
            });
            self.replay_cache.insert(key.clone(), val);
        }
        self.replay_cache.get(&key).and_then(|x| x.as_ref())
    }

    fn fp_before(&mut self) -> Fp {
        match &self.last_fp {
            Some(f) => f.clone(),
            None => self.world.fp(),
        }
    }

    fn observe(&mut self, q: &ObsReq) {
        let fp0 = self.fp_before();
        let real = q.real();
        let real2 = real.clone();
        let r = util::catch(|| ObservationService::observe(&self.world.rt, &self.world.prov, &self.world.engine, real));
        let again = util::catch(|| ObservationService::observe(&self.world.rt, &self.world.prov, &self.world.engine, real2));
        let fp1 = self.world.fp();
        self.last_fp = Some(fp1.clone());
        self.reads += 1;
        let r = match r {
            Ok(r) => r,
            Err(p) => {
                self.violation(format!("observe_panicked:{}", q.class()), p, q.json());
                return;
            }
        };
        let res = obs_res_json(&r);
        // (a) read-only
        for comp in fp0.diff(&fp1) {
            self.violation(format!("read_mutated_state:{comp}:observe:{}", q.class()), format!("{comp} fingerprint changed across observe"), q.json());
        }
        // (e) determinism against an identical runtime
        if again.as_ref().ok() != Some(&r) {
            self.violation(format!("identical_request_different_artifact:{}", q.class()), "two back-to-back observes differ".into(), q.json());
        }
        let known = self.world.names.contains(&q.w);
        self.class_hit(format!("obs:{}:{}", q.class(), if res["ok"] == json!(true) { "ok".to_string() } else { res["err"].as_str().unwrap_or("").to_string() }));
        if let Ok(a) = &r {
            self.ok_reads += 1;
            self.class_hit(format!("posture:{}", posture_json(&a.reading.parent_basis_posture)["k"].as_str().unwrap_or("")));
            if let ReadingBudgetPosture::Bounded { payload_bytes, .. } = a.reading.budget_posture {
                if payload_bytes as i64 != wire_len(a) {
                    self.violation(format!("payload_bytes_misreported:{}", q.class()), format!("posture says {payload_bytes}, CBOR payload is {} bytes", wire_len(a)), q.json());
                }
            }
            // (d) unavailable history must not be answered
            if !known {
                self.violation("unknown_worldline_answered".into(), "reading for an unregistered worldline".into(), q.json());
            }
            if let Some(t) = q.at {
                if t >= self.world.len(&q.w) {
                    self.violation(format!("future_tick_answered:{}", q.class()), format!("tick {t} >= history length {}", self.world.len(&q.w)), q.json());
                } else {
                    // (b) equals the state replayed at that coordinate
                    self.replay_checked += 1;
                    let (w, root, commit, payload) = (q.w.clone(), a.resolved.state_root, a.resolved.commit_hash, a.payload.clone());
                    let fall = q.fall;
                    let chs: Vec<ChannelId> = q.chs.iter().map(|l| chan(l)).collect();
                    let mut bad: Vec<String> = Vec::new();
                    match self.replayed(&w, t) {
                        None => bad.push("replay of the coordinate failed although a reading was returned".into()),
                        Some(rp) => {
                            if rp.root != root {
                                bad.push(format!("state root {} != replayed {}", sh(&root), sh(&rp.root)));
                            }
                            if rp.cursor_root != root {
                                bad.push(format!("state root {} != playback cursor {}", sh(&root), sh(&rp.cursor_root)));
                            }
                            if rp.commit != Some(commit) {
                                bad.push(format!("commit id {} != replayed snapshot {:?}", sh(&commit), rp.commit.map(|c| sh(&c))));
                            }
                            match &payload {
                                ObservationPayload::Head(x) if x.state_root != rp.root || x.commit_hash != commit || x.worldline_tick.as_u64() != t => {
                                    bad.push("head payload differs from the replayed coordinate".into())
                                }
                                ObservationPayload::Snapshot(x) if x.state_root != rp.root || x.commit_hash != commit || x.worldline_tick.as_u64() != t => {
                                    bad.push("snapshot payload differs from the replayed coordinate".into())
                                }
                                ObservationPayload::TruthChannels(c) => {
                                    let want: Vec<(ChannelId, Vec<u8>)> = rp.outputs.iter().filter(|(ch, _)| fall || chs.contains(ch)).cloned().collect();
                                    if *c != want {
                                        bad.push(format!("truth payload {} channels != replayed materialization {} channels", c.len(), want.len()));
                                    }
                                }
                                _ => {}
                            }
                        }
                    }
                    for b in bad {
                        self.violation(format!("reading_differs_from_replay:{}", q.class()), b, q.json());
                    }
                }
            }
        }
        // (c) the same historical request, re-asked
        if q.at.is_some() && known {
            self.hist_reads += 1;
            let cb = coord_bound(&res);
            let settled = res["ok"] == json!(true) || !matches!(res["err"].as_str(), Some("InvalidTick") | Some("InvalidWorldline"));
            match self.memo.get(q) {
                Some((old, at_event)) => {
                    self.reasked += 1;
                    if *old != cb {
                        let at_event = *at_event;
                        self.violation(format!("historical_reading_changed:{}", q.class()),
                            format!("first asked at event {at_event}: {old} ; now: {cb}"), q.json());
                    }
                }
                None if settled => {
                    self.memo.insert(q.clone(), (cb, self.events));
                }
                None => {}
            }
        }
        self.emit(json!({"event": "observe", "req": q.json(), "res": res, "fp0": fp0.json(), "fp1": fp1.json()}));
    }

    fn optic(&mut self, o: &OptReq) {
        let fp0 = self.fp_before();
        let real = o.real();
        let real2 = real.clone();
        let r = util::catch(|| ObservationService::observe_optic(&self.world.rt, &self.world.prov, &self.world.engine, real));
        let again = util::catch(|| ObservationService::observe_optic(&self.world.rt, &self.world.prov, &self.world.engine, real2));
        // the obstruction does not carry the payload length the budget was compared with: measure it
        // with an unbounded read of the same coordinate (still inside the fingerprint bracket)
        let mut helper_plen: i64 = -1;
        if let Ok(ObserveOpticResult::Obstructed(ob)) = &r {
            if format!("{:?}", ob.kind) == "BudgetExceeded" && o.focus == "wl" && o.ck == "wl" && matches!(o.shape, "head" | "snapmeta") {
                let lowered = ObsReq::pair(&o.w, if o.at == "frontier" { None } else { Some(o.t) }, "CB", if o.shape == "head" { "head" } else { "snapshot" });
                if let Ok(Ok(a)) = util::catch(|| ObservationService::observe(&self.world.rt, &self.world.prov, &self.world.engine, lowered.real())) {
                    helper_plen = wire_len(&a);
                }
            }
        }
        let fp1 = self.world.fp();
        self.last_fp = Some(fp1.clone());
        self.reads += 1;
        let r = match r {
            Ok(r) => r,
            Err(p) => {
                self.violation(format!("observe_optic_panicked:{}", o.shape), p, o.json());
                return;
            }
        };
        let mut res = optic_res_json(&r);
        if helper_plen >= 0 {
            res["plen"] = json!(helper_plen);
        }
        for comp in fp0.diff(&fp1) {
            self.violation(format!("read_mutated_state:{comp}:observe_optic:{}", o.shape), format!("{comp} fingerprint changed across observe_optic"), o.json());
        }
        if again.as_ref().ok() != Some(&r) {
            self.violation(format!("identical_request_different_artifact:optic:{}", o.shape), "two back-to-back observe_optic calls differ".into(), o.json());
        }
        self.class_hit(format!("optic:{}:{}:{}", o.focus, o.shape, if res["ok"] == json!(true) { format!("ok/{}", res["basis"]["k"].as_str().unwrap_or("")) } else { res["kind"].as_str().unwrap_or("").to_string() }));
        let known = self.world.names.contains(&o.w);
        if let ObserveOpticResult::Reading(rd) = &r {
            self.ok_reads += 1;
            if !known {
                self.violation("unknown_worldline_answered:optic".into(), "optic reading for an unregistered worldline".into(), o.json());
            }
            if o.at != "frontier" {
                let n = self.world.len(&o.w);
                if o.t >= n {
                    self.violation("future_tick_answered:optic".into(), format!("tick {} >= history length {n}", o.t), o.json());
                } else {
                    let (proot, pcommit) = match &rd.payload {
                        ObservationPayload::Head(x) => (x.state_root, x.commit_hash),
                        ObservationPayload::Snapshot(x) => (x.state_root, x.commit_hash),
                        _ => ([0; 32], [0; 32]),
                    };
                    // (d) a provenance coordinate names (worldline, tick, commit id): a reading of a
                    //     different commit is a reading of some other state
                    if o.at == "prov" && pcommit != o.pc {
                        self.violation("optic_provenance_ref_commit_not_checked".into(),
                            format!("CoordinateAt::Provenance named commit {} at tick {} of {}, the reading is of commit {}", sh(&o.pc), o.t, o.w, sh(&pcommit)), o.json());
                    }
                    self.replay_checked += 1;
                    let w = o.w.clone();
                    let t = o.t;
                    let mut bad: Vec<String> = Vec::new();
                    match self.replayed(&w, t) {
                        None => bad.push("replay of the coordinate failed although a reading was returned".into()),
                        Some(rp) => {
                            if rp.root != proot || rp.cursor_root != proot {
                                bad.push(format!("optic payload state root {} != replayed {}", sh(&proot), sh(&rp.root)));
                            }
                            if rp.commit != Some(pcommit) {
                                bad.push("optic payload commit id != replayed snapshot".into());
                            }
                        }
                    }
                    for b in bad {
                        self.violation(format!("reading_differs_from_replay:optic:{}", o.shape), b, o.json());
                    }
                }
            }
        }
        if o.at != "frontier" && known && o.focus == "wl" && o.ck == "wl" {
            self.hist_reads += 1;
            // The whole optic reading at an explicit coordinate t - payload, envelope, witness basis and read
            // identity - is bound to (history up to t, checkpoints strictly below t).  Later commits, passes,
            // forks and checkpoints taken at or above t must not change it; only a checkpoint below t
            // legitimately offers another basis (or LiveTailRequiresReduction), hence it is part of the key.
            let mut low: Vec<u64> = self.world.ckpts.get(&o.w).map(|v| v.iter().copied().filter(|c| *c < o.t).collect()).unwrap_or_default();
            low.sort_unstable();
            let mut cb = coord_bound(&res);
            cb["kind"] = res["kind"].clone();
            let mut full = cb.clone();
            full["basis"] = res["basis"].clone();
            full["rid"] = res["rid"].clone();
            full["reason"] = res["reason"].clone();
            let settled = res["ok"] == json!(true) || res["kind"] == json!("LiveTailRequiresReduction");
            let n = self.world.len(&o.w);
            let above = self.world.ckpts.get(&o.w).is_some_and(|v| v.iter().any(|c| *c >= o.t && *c < n));
            if res["ok"] == json!(true) && !low.is_empty() && above {
                // a checkpoint below AND one at/above the coordinate (below the current length)
                self.class_hit(format!("optic_ckpt_around:{}", res["basis"]["k"].as_str().unwrap_or("")));
            }
            let key = (o.clone(), low);
            match self.omemo.get(&key) {
                Some((old, at_event)) => {
                    self.reasked += 1;
                    let at_event = *at_event;
                    let mut old_cb = old.clone();
                    for k in ["basis", "rid", "reason"] {
                        if let Some(m) = old_cb.as_object_mut() {
                            m.remove(k);
                        }
                    }
                    if old_cb != cb {
                        self.violation(format!("historical_reading_changed:optic:{}", o.shape), format!("first asked at event {at_event}: {old} ; now: {full}"), o.json());
                    } else if *old != full {
                        self.violation(format!("historical_optic_witness_basis_changed:{}", o.shape),
                            format!("same request, same history up to the coordinate, same checkpoints below it; first asked at event {at_event}: basis {} rid {} ; now: basis {} rid {}",
                                old["basis"], old["rid"], full["basis"], full["rid"]), o.json());
                    }
                }
                None if settled => {
                    self.omemo.insert(key, (full, self.events));
                }
                None => {}
            }
        }
        self.emit(json!({"event": "optic", "req": o.json(), "res": res, "fp0": fp0.json(), "fp1": fp1.json()}));
    }

    fn entry_commit(&self, w: &str, t: u64) -> Option<[u8; 32]> {
        self.world.prov.entry(wid(w), WorldlineTick::from_raw(t)).ok().map(|e| e.expected.commit_hash)
    }

    /// optic coordinates: frontier, ticks, matching provenance refs; in probe mode ALSO provenance refs
    /// whose commit id is not the one recorded at that tick
    fn optic_coords(&self, rng: &mut StdRng) -> Vec<OptReq> {
        let mut v = Vec::new();
        let names: Vec<String> = self.world.names.clone();
        for name in names.iter().map(String::as_str).chain(["wX"]) {
            v.push(OptReq::base(name));
            v.push(OptReq { fw: names.first().cloned().filter(|f| f != name).unwrap_or_else(|| "wX".into()), ..OptReq::base(name) });
            let n = self.world.len(name);
            let has_ckpt = self.world.ckpts.get(name).is_some_and(|c| !c.is_empty());
            if has_ckpt {
                // a one-tick budget against a checkpoint + live tail: LiveTailRequiresReduction when the tail is longer
                v.push(OptReq { maxt: 1, ..OptReq::base(name) });
            }
            for t in 0..=(n + 1) {
                v.push(OptReq { at: "tick", t, ..OptReq::base(name) });
                if has_ckpt && t > 1 && t < n {
                    v.push(OptReq { at: "tick", t, maxt: 1, ..OptReq::base(name) });
                }
                if let Some(c) = self.entry_commit(name, t) {
                    v.push(OptReq { at: "prov", t, pw: name.to_string(), pc: c, ..OptReq::base(name) });
                    let other = names[rng.gen_range(0..names.len())].clone();
                    if other != name {
                        v.push(OptReq { at: "prov", t, pw: other, pc: c, ..OptReq::base(name) });
                    }
                    if self.probe {
                        // commit ids the worldline does not have at tick t
                        v.push(OptReq { at: "prov", t, pw: name.to_string(), pc: h(&format!("bogus|{name}|{t}")), ..OptReq::base(name) });
                        if let Some(c2) = self.entry_commit(name, t + 1) {
                            v.push(OptReq { at: "prov", t, pw: name.to_string(), pc: c2, ..OptReq::base(name) });
                        }
                        if let Some((p, a)) = self.world.strands.get(name) {
                            if t > *a {
                                if let Some(cp) = self.entry_commit(p, t) {
                                    v.push(OptReq { at: "prov", t, pw: name.to_string(), pc: cp, ..OptReq::base(name) });
                                }
                            }
                        }
                    }
                } else {
                    v.push(OptReq { at: "prov", t, pw: name.to_string(), pc: h(&format!("future|{name}|{t}")), ..OptReq::base(name) });
                }
            }
        }
        v
    }

    /// every frame x projection pair at every coordinate, plus variations at sampled coordinates
    fn sweep(&mut self, rng: &mut StdRng, var_coords: usize) {
        let cs = coords(&self.world);
        for (w, at) in &cs {
            for f in FRAMES {
                for p in PROJS {
                    self.observe(&ObsReq::pair(w, *at, f, p));
                }
            }
        }
        for _ in 0..var_coords {
            let (w, at) = cs[rng.gen_range(0..cs.len())].clone();
            for (f, p) in [("CB", "head"), ("CB", "snapshot"), ("RT", "truth"), ("QV", "query")] {
                for q in variations(&ObsReq::pair(&w, at, f, p)) {
                    self.observe(&q);
                }
            }
        }
        let ocs = self.optic_coords(rng);
        for o in &ocs {
            self.optic(o);
            self.optic(&OptReq { shape: "snapmeta", ..o.clone() });
        }
        for _ in 0..var_coords {
            let o = ocs[rng.gen_range(0..ocs.len())].clone();
            for x in optic_variations(&o) {
                self.optic(&x);
            }
        }
    }

    fn random_reads(&mut self, rng: &mut StdRng, n: usize) {
        let cs = coords(&self.world);
        let ocs = self.optic_coords(rng);
        for _ in 0..n {
            if rng.gen_bool(0.7) {
                let (w, at) = cs[rng.gen_range(0..cs.len())].clone();
                let base = ObsReq::pair(&w, at, FRAMES[rng.gen_range(0..3)], PROJS[rng.gen_range(0..4)]);
                if rng.gen_bool(0.5) {
                    let vs = variations(&base);
                    self.observe(&vs[rng.gen_range(0..vs.len())]);
                } else {
                    self.observe(&base);
                }
            } else {
                let vs = optic_variations(&ocs[rng.gen_range(0..ocs.len())]);
                self.optic(&vs[rng.gen_range(0..vs.len())]);
            }
        }
    }

    /// re-asks remembered historical requests (the frontier has moved / forks happened since)
    fn reask(&mut self, rng: &mut StdRng, n: usize) {
        let keys: Vec<ObsReq> = self.memo.keys().cloned().collect();
        let oks: Vec<ObsReq> = self.memo.iter().filter(|(_, (v, _))| v["ok"] == json!(true)).map(|(k, _)| k.clone()).collect();
        for _ in 0..n.min(keys.len()) {
            let q = if !oks.is_empty() && rng.gen_bool(0.75) { oks[rng.gen_range(0..oks.len())].clone() } else { keys[rng.gen_range(0..keys.len())].clone() };
            self.observe(&q);
        }
        let okeys: Vec<OptReq> = self.omemo.keys().map(|(o, _)| o.clone()).collect();
        for _ in 0..(n / 3).min(okeys.len()) {
            let o = okeys[rng.gen_range(0..okeys.len())].clone();
            self.optic(&o);
        }
    }

    fn apply(&mut self, evs: Vec<Value>) {
        for ev in evs {
            self.emit(ev);
        }
        self.mutated();
    }

    fn hist_optics(&mut self, w: &str) {
        let n = self.world.len(w);
        for t in 0..=n {
            for shape in ["head", "snapmeta"] {
                for maxt in [-1i64, 1, 8] {
                    self.optic(&OptReq { at: "tick", t, shape, maxt, ..OptReq::base(w) });
                }
            }
            if let Some(c) = self.entry_commit(w, t) {
                self.optic(&OptReq { at: "prov", t, pw: w.to_string(), pc: c, ..OptReq::base(w) });
            }
        }
    }

    /// Checkpoints AROUND re-asked historical optic reads: a checkpoint below the coordinates, reads at every
    /// explicit tick, further commits, a second checkpoint ABOVE most coordinates (and below the new length),
    /// a further commit, then the very same reads again.
    fn ckpt_scenario(&mut self, rng: &mut StdRng) -> Result<(), String> {
        let cands: Vec<String> = self.world.names.clone();
        let w = cands[rng.gen_range(0..cands.len())].clone();
        while self.world.len(&w) < 4 {
            self.world.ingest(&w, rng.gen_range(1..5))?;
            let evs = self.world.pass()?;
            self.apply(evs);
        }
        let c1 = rng.gen_range(1..3);
        let ev = self.world.checkpoint(&w, c1)?;
        self.apply(vec![ev]);
        self.hist_optics(&w);
        for _ in 0..2 {
            self.world.ingest(&w, rng.gen_range(1..5))?;
            let evs = self.world.pass()?;
            self.apply(evs);
        }
        let n = self.world.len(&w);
        let c2 = rng.gen_range(3..n);
        let ev = self.world.checkpoint(&w, c2)?;
        self.apply(vec![ev]);
        self.world.ingest(&w, rng.gen_range(1..5))?;
        let evs = self.world.pass()?;
        self.apply(evs);
        self.hist_optics(&w);
        Ok(())
    }

    fn run_one(&mut self, rng: &mut StdRng, run: u64, steps: usize, reads_per_step: usize, sweep_every: usize, var_coords: usize) -> Result<(), String> {
        self.world = World::new()?;
        self.memo.clear();
        self.omemo.clear();
        self.mutated();
        self.prefix.clear();
        self.emit(json!({"event": "reset", "run": run}));
        let ev = self.world.register("w1")?;
        self.emit(ev);
        self.mutated();
        self.random_reads(rng, reads_per_step / 2); // reads against an empty frontier
        let k = rng.gen_range(1..4);
        for ev in self.world.import("w2", k, rng)? {
            self.emit(ev);
        }
        self.mutated();
        self.sweep(rng, var_coords);
        let mut next_w = 3;
        for step in 1..=steps {
            let mut roll = rng.gen_range(0..100);
            // every run has at least one fork (by mid-run) and a parent/child pass after it
            if step == steps / 2 && self.world.strands.is_empty() {
                roll = 60;
            } else if step == steps / 2 + 1 {
                roll = 0;
            }
            let names = self.world.names.clone();
            let mut evs: Vec<Value> = Vec::new();
            if roll < 55 {
                // a scheduler pass with 0..3 intents (0 = idle pass: only the global tick moves)
                let k = if step == steps / 2 + 1 { names.len() } else { rng.gen_range(0..4) };
                for i in 0..k {
                    let w = if step == steps / 2 + 1 { names[i].clone() } else { names[rng.gen_range(0..names.len())].clone() };
                    // labels 1..4: base worldlines prefer {1,2}, fork children {3,4}; a label used on both sides of a
                    // fork makes the strand-owned footprint overlap the parent's writes (RevalidationRequired),
                    // otherwise the parent advanced disjointly
                    let child = self.world.strands.contains_key(&w);
                    let home = rng.gen_bool(0.8);
                    let label = if child == home { rng.gen_range(3..5) } else { rng.gen_range(1..3) };
                    self.world.ingest(&w, label)?;
                }
                evs = self.world.pass()?;
            } else if roll < 75 && next_w <= 7 {
                let cands: Vec<String> = names.iter().filter(|n| self.world.len(n) > 0).cloned().collect();
                if !cands.is_empty() {
                    let p = cands[rng.gen_range(0..cands.len())].clone();
                    let t = rng.gen_range(0..self.world.len(&p));
                    let child = format!("w{next_w}");
                    next_w += 1;
                    evs.push(self.world.fork(&p, t, &child)?);
                }
            } else if roll < 90 {
                let cands: Vec<String> = names.iter().filter(|n| self.world.len(n) > 0).cloned().collect();
                if !cands.is_empty() {
                    let w = cands[rng.gen_range(0..cands.len())].clone();
                    let c = rng.gen_range(1..=self.world.len(&w));
                    evs.push(self.world.checkpoint(&w, c)?);
                }
            } else if next_w <= 7 {
                let name = format!("w{next_w}");
                next_w += 1;
                let k = rng.gen_range(1..3);
                evs = self.world.import(&name, k, rng)?;
            }
            if evs.is_empty() {
                evs = self.world.pass()?;
            }
            for ev in evs {
                self.emit(ev);
            }
            self.mutated();
            self.reask(rng, reads_per_step);
            self.random_reads(rng, reads_per_step);
            if sweep_every > 0 && step % sweep_every == 0 {
                self.sweep(rng, var_coords);
            }
        }
        self.ckpt_scenario(rng)?;
        self.sweep(rng, var_coords);
        self.reask(rng, reads_per_step * 4);
        self.missing_history_probe();
        Ok(())
    }

    /// "Unavailable history yields a typed obstruction": a runtime restored from the live frontier state next to a
    /// provenance service that knows the worldline but none of its commits (the shape a host gets when it rebuilds
    /// provenance from a live state). A frontier read at tick N > 0 has no recorded commit to bind to; answering it
    /// with a reading (e.g. witnessed as an empty frontier without commits) is a reading of some other history.
    fn missing_history_probe(&mut self) {
        let names = self.world.names.clone();
        for name in names {
            if self.world.strands.contains_key(&name) || self.world.len(&name) == 0 {
                continue;
            }
            let Some(frontier) = self.world.rt.worldlines().get(&wid(&name)) else { continue };
            let live = frontier.state().clone();
            let mut rt = WorldlineRuntime::new();
            let mut prov = ProvenanceService::new();
            if prov.register_worldline(wid(&name), &live).is_err() || rt.register_worldline(wid(&name), live).is_err() {
                continue;
            }
            if rt
                .register_writer_head(WriterHead::with_routing(head_key(&name), PlaybackMode::Play, InboxPolicy::AcceptAll, None, true))
                .is_err()
            {
                continue;
            }
            for proj in ["head", "snapshot"] {
                let q = ObsReq::pair(&name, None, "CB", proj);
                let real = q.real();
                let r = util::catch(|| ObservationService::observe(&rt, &prov, &self.world.engine, real));
                self.reads += 1;
                match r {
                    Err(p) => self.violation(format!("observe_panicked:missing_history:{}", q.class()), p, q.json()),
                    Ok(Ok(a)) => self.violation(
                        format!("unavailable_history_answered:{}", q.class()),
                        format!(
                            "frontier read at tick {} served although provenance holds no commit of the worldline: resolved {:?}",
                            self.world.len(&name),
                            a.resolved
                        ),
                        q.json(),
                    ),
                    Ok(Err(_)) => {}
                }
            }
        }
    }
}

pub fn run(args: &[String]) -> i32 {
    if args.len() < 4 {
        eprintln!("usage: echo-verif c16 <trace.ndjson> <results.ndjson> <seed> <quick|thorough> [main|probe]");
        return 2;
    }
    let seed: u64 = args[2].parse().unwrap_or(1);
    let tier = args[3].as_str();
    let probe = args.get(4).map(String::as_str) == Some("probe");
    let (runs, steps, reads, sweep_every, var_coords) = match (tier, probe) {
        ("thorough", true) => (3u64, 10usize, 6usize, 0usize, 1usize),
        (_, true) => (1, 6, 6, 0, 1),
        ("thorough", _) => (6, 16, 16, 8, 3),
        _ => (2, 8, 6, 0, 2),
    };
    let world = match World::new() {
        Ok(w) => w,
        Err(e) => {
            eprintln!("c16: {e}");
            return 2;
        }
    };
    let mut d = Driver {
        world,
        out: util::Out::create(&args[0]),
        viol: Vec::new(),
        viol_keys: Default::default(),
        events: 0,
        reads: 0,
        ok_reads: 0,
        hist_reads: 0,
        reasked: 0,
        replay_checked: 0,
        classes: BTreeMap::new(),
        memo: BTreeMap::new(),
        omemo: BTreeMap::new(),
        replay_cache: BTreeMap::new(),
        last_fp: None,
        prefix: Vec::new(),
        probe,
    };
    let mut rng = StdRng::seed_from_u64(seed.wrapping_mul(0x9E37_79B9_7F4A_7C15) ^ if probe { 0xC16 } else { 0 });
    for run in 0..runs {
        if let Err(e) = d.run_one(&mut rng, run, steps, reads, sweep_every, var_coords) {
            eprintln!("c16: run {run}: {e}");
            return 2;
        }
    }
    let Driver { out, viol, events, reads, ok_reads, hist_reads, reasked, replay_checked, classes, .. } = d;
    out.finish();
    let mut res = util::Out::create(&args[1]);
    for v in &viol {
        res.line(v);
    }
    res.finish();
    println!(
        "{}",
        json!({"runs": runs, "events": events, "reads": reads, "ok_reads": ok_reads, "historical_reads": hist_reads,
               "reasked": reasked, "replay_checked": replay_checked, "violations": viol.len(),
               "classes": classes, "mask": FP_MASK})
    );
    0
}
