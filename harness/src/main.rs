//! echo-verif: conformance harness binding the TLA+ specification in /verif/spec to the
//! real warp-core / echo-cas implementation. Each sub-command reads model-generated
//! cases (ndjson) or produces implementation traces (ndjson) for TLC to validate.

mod absgraph;
mod c01;
mod c02;
mod c03;
mod c04;
mod c04l;
mod c05;
mod c05s;
mod c06;
mod c07;
mod c08;
mod c08l;
mod c09;
mod kport;
mod c10;
mod c11;
mod c11s;
mod c14;
mod c15;
mod c15b;
mod c15_repro;
mod c16;
mod c17;
mod c17fs;
mod c18;
mod c20;
mod c20x;
mod ids;
mod programs;
mod truth;
mod util;
mod walfix_c10;

fn main() {
    let args: Vec<String> = std::env::args().collect();
    let cmd = args.get(1).map(String::as_str).unwrap_or("");
    let rest: Vec<String> = args.iter().skip(2).cloned().collect();
    let code = match cmd {
        "ids" => {
            println!("{}", ids::rank_table());
            0
        }
        "c01" => c01::run(&rest),
        "c01-big" => c01::run_big(&rest),
        "c02" => c02::run(&rest),
        "c02-race" => c02::run_race(&rest),
        "c03" => c03::run(&rest),
        "c03-keys" => c03::run_keys(&rest),
        "c04" => c04::run(&rest),
        "c04l" => c04l::run(&rest),
        "c05" => c05::run(&rest),
        "c05s" => c05s::run(&rest),
        "c06" => c06::run(&rest),
        "c07" => c07::run(&rest),
        "c08" => c08::run(&rest),
        "c08-ranks" => c08::run_ranks(),
        "c08-mr" => c08::run_mr(&rest),
        "c08-ident" => c08::run_ident(&rest),
        "c08-restart" => c08::run_restart(&rest),
        "c08l" => c08l::run(&rest),
        "c08l-ranks" => c08l::run_ranks(),
        "c09" => c09::run(&rest),
        "kport" => kport::run(&rest),
        "kport-surface" => kport::run_surface(&rest),
        "kport-hang" => kport::run_hang(&rest),
        "rt-ranks" => c09::run_ranks(),
        "c10" => c10::run(&rest),
        "c11" => c11::run(&rest),
        "c11s" => c11s::run(&rest),
        "c10-gap" => c10::run_gap(&rest),
        "c10-mkcrash" => c10::run_mkcrash(&rest),
        "c10-reopen" => c10::run_reopen(&rest),
        "c14-attr" => c14::run(&rest),
        "c15" => c15::run(&rest),
        "c15b" => c15b::run(&rest),
        "c15b-log" => c15b::run_log(&rest),
        "c15-repro" => c15_repro::run(&rest),
        "c20" => c20::run(&rest),
        "c16" => c16::run(&rest),
        "c17" => c17::run(&rest),
        "c17fs" => c17fs::run(&rest),
        "c18" => c18::run(&rest),
        "truth" => truth::run(&rest),
        _ => {
            eprintln!("usage: echo-verif <ids|c04|...> args");
            2
        }
    };
    std::process::exit(code);
}
