--------------------------- MODULE ProvenanceTrace ---------------------------
(***************************************************************************)
(* Trace validation of what the real runtime appends to provenance         *)
(* (harness/src/c05.rs: build_store / build_random log every entry the     *)
(* store holds after each SchedulerCoordinator::super_tick, and every      *)
(* fork).  Runs are multi-head, multi-worldline, with forks.               *)
(*                                                                         *)
(* Each logged entry is turned into an entry record of Provenance.tla and  *)
(* must be accepted by the spec's AppendEntry (validate_shared_entry /     *)
(* validate_local_commit_entry: worldline binding, next tick, parents      *)
(* exist with matching commit ids, head key on the worldline, receipt tx)  *)
(* and, beyond what the store checks, must be what the coordinator         *)
(* promises: parents = the worldline's previous tip, global tick           *)
(* non-decreasing.  Forks must be the spec's Fork.  The hash relation is   *)
(* checked over the whole trace: equal (parents, state root, patch digest, *)
(* policy) <=> equal commit id.                                            *)
(***************************************************************************)
EXTENDS Provenance, Json, IOUtils

Rec == ndJsonDeserialize(IOEnv.TRACE)

VARIABLES l,       \* next trace line
          byIn,    \* inputs -> commit id
          byCid,   \* commit id -> inputs
          g        \* last global tick
tvars == <<l, byIn, byCid, g, entries, ckpts, cur, last>>

TrSlots == {"s"}
TrU0 == [k \in TrSlots |-> "none"]
Upd(f, k, v) == [x \in (DOMAIN f) \cup {k} |-> IF x = k THEN v ELSE f[x]]
IsEvent(e) == l <= Len(Rec) /\ Rec[l].event = e /\ l' = l + 1
Empty == [x \in {} |-> 0]

Init == /\ l = 1 /\ byIn = Empty /\ byCid = Empty /\ g = 0
        /\ entries = [w \in {} |-> <<>>] /\ ckpts = [w \in {} |-> {}]
        /\ cur = [w |-> "", tick |-> 0, role |-> "Reader", mode |-> Paused, mat |-> MatU0, pin |-> 0] /\ last = NoOutcome

TReset == /\ IsEvent("reset")
          /\ byIn' = Empty /\ byCid' = Empty /\ g' = 0
          /\ entries' = [w \in {} |-> <<>>] /\ ckpts' = [w \in {} |-> {}]
          /\ UNCHANGED <<cur, last>>

TRegister == /\ IsEvent("register")
             /\ Rec[l].w \notin Worldlines
             /\ entries' = Upd(entries, Rec[l].w, <<>>) /\ ckpts' = Upd(ckpts, Rec[l].w, {})
             /\ UNCHANGED <<byIn, byCid, g, cur, last>>

\* the logged entry as an entry record of the specification
EntryOf(r) ==
  [w |-> r.w, tick |-> r.tick, gtick |-> r.gtick, head |-> IF r.head_w = "" THEN None ELSE [w |-> r.head_w, h |-> "h"],
   parents |-> r.parents, kind |-> "LocalCommit", root |-> r.root, pd |-> r.pd, cid |-> r.cid,
   patch |-> [decision |-> "d"], receipt |-> IF r.receipt_tx = 0 THEN None ELSE [tx |-> r.receipt_tx, digest |-> "d"],
   outputs |-> <<>>, atomw |-> <<>>]

TAppend ==
  /\ IsEvent("append")
  /\ LET r == Rec[l]
         e == EntryOf(r)
     IN /\ r.w \in Worldlines
        /\ AppendEntry(e)                                             \* the store's own validation (spec action)
        /\ e.parents = (IF Tip(r.w) = None THEN <<>> ELSE <<Tip(r.w)>>)   \* coordinator: parents = previous tip
        /\ r.gtick >= g /\ g' = r.gtick
        \* hash relation over the whole trace
        /\ (r.inputs \in DOMAIN byIn => byIn[r.inputs] = r.cid)
        /\ (r.cid \in DOMAIN byCid => byCid[r.cid] = r.inputs)
        /\ byIn' = Upd(byIn, r.inputs, r.cid) /\ byCid' = Upd(byCid, r.cid, r.inputs)
  /\ UNCHANGED <<cur, last>>

TFork == /\ IsEvent("fork")
         /\ Fork(Rec[l].src, Rec[l].at, Rec[l].new)
         /\ UNCHANGED <<byIn, byCid, g, cur, last>>

Next == TReset \/ TRegister \/ TAppend \/ TFork
Spec == Init /\ [][Next]_tvars

\* structure of the store reached so far: gap-free, worldline binding, parents = previous tip
Inv_TraceChain ==
  \A w \in Worldlines : \A i \in 1..Len0(w) :
    LET e == entries[w][i] IN
      /\ e.w = w /\ e.tick = i - 1
      /\ e.parents = IF i = 1 THEN <<>> ELSE <<Ref(w, i - 2, entries[w][i - 1].cid)>>

\* append-only between resets (a reset starts a new run with an empty store)
TraceAppendOnly ==
  [][(l <= Len(Rec) /\ Rec[l].event = "reset") \/ (\A w \in Worldlines : w \in DOMAIN entries' /\ IsPrefix(entries[w], entries'[w]))]_storeVars

Accepted ==
  LET d == TLCGet("stats").diameter
  IN IF d - 1 = Len(Rec) THEN TRUE
     ELSE Print(<<"REJECTED_AT", d, IF d <= Len(Rec) THEN Rec[d].event ELSE "eof">>, FALSE)
=============================================================================
