\* memory tier with the presence fast path of MemoryTier::put_verified transcribed (MemFastPath = TRUE); TLC is expected to report P_MismatchRefused violated: put(a); put_verified(H(a), b) -> Ok
SPECIFICATION Spec
CONSTANTS
  Blobs = {"a", "b"}
  Coords = {"k0", "k1"}
  Tiers = {"mem"}
  Faults = {}
  MaxFaults = 0
  Size <- MC_Size
  MaxBytes = 2
  MemFastPath = TRUE
  ReadOps = TRUE
  WithIndex = TRUE
  Export = FALSE
  MaxLen = 0
INVARIANTS TypeOK Inv_GetIntact Inv_MemWellFormed Inv_CorruptionDetected Inv_HasMeansGet Inv_LoadIntact
PROPERTIES P_MismatchRefused P_PutIdempotent P_PinKeepsContent P_ReadsReadOnly P_Reopen P_IndexStable
CONSTRAINT DepthBound
CHECK_DEADLOCK FALSE
