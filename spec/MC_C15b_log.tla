---------------------------- MODULE MC_C15b_log ----------------------------
(***************************************************************************)
(* Every sequence of MaxEvents attempted events over the event alphabet    *)
(* (weaving two revealed members and a sealed one with the right and a     *)
(* wrong sequence number, finalizing, collapsing with a valid and an empty *)
(* witness, a second creation); every complete behaviour is exported with  *)
(* the predicted outcome of each event, the folded braid and its read      *)
(* models, and replayed into a real warp_core::Braid (harness c15b-log).   *)
(***************************************************************************)
EXTENDS BraidLog, Json, TLC

CONSTANTS MaxEvents, Members, Export
VARIABLES ltrace
vars == <<braid, llast, ltrace>>

Alphabet ==
  {Woven(m, braid.next) : m \in Members} \cup {Woven("mA", braid.next + 1)}
  \cup {Finalized("d1"), Collapsed("w1", "d2"), Collapsed("empty", "d2"), Created("b2")}

Init == LInit("b1") /\ ltrace = <<>>
Next ==
  /\ Len(ltrace) < MaxEvents
  /\ \E e \in Alphabet :
       /\ Apply(e)
       /\ ltrace' = Append(ltrace, e @@ [err |-> ApplyErr(braid, e)])
Spec == Init /\ [][Next]_vars

EvJson(s) == [i \in 1..Len(s) |-> [m |-> s[i].m, seq |-> s[i].seq]]
CaseJson ==
  [events |-> ltrace,
   final |-> [members |-> braid.members, next |-> braid.next, latest |-> braid.latest, status |-> braid.status, nevents |-> Len(braid.events)],
   history |-> EvJson(History(braid)),
   views |-> [c \in 1..(braid.next + 2) |-> EvJson(At(braid, c - 1))],
   diffs |-> {[from |-> f, to |-> t, added |-> EvJson(Diff(braid, f, t).added), ended |-> EvJson(Diff(braid, f, t).ended)] :
                f \in 0..(braid.next + 1), t \in 0..(braid.next + 1)}]
Inv_Export == (Export /\ Len(ltrace) = MaxEvents) => PrintT(<<"CASE", ToJson(CaseJson)>>)

P_AppendOnly == [][braid'.events = braid.events \/ braid'.events = Append(braid.events, llast'.e)]_vars
P_StatusMonotone ==
  [][braid'.status = braid.status
     \/ (braid.status = "Active" /\ braid'.status = "Finalized")
     \/ (braid.status = "Finalized" /\ braid'.status = "Collapsed")]_vars
=============================================================================
