SPECIFICATION Spec
CONSTANTS
  Channels = {0, 1}
  Mode = "perm"
  TokSeq <- MC_TokSetA
  PolSeq <- MC_Pol6x2
  MinN = 0
  MaxN = 4
  Export = TRUE
  CheckRekeyDirect = TRUE
  None = None
INVARIANTS Inv_Export
CHECK_DEADLOCK FALSE
