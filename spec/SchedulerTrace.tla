--------------------------- MODULE SchedulerTrace ---------------------------
(***************************************************************************)
(* Trace validation of the pending queue's drain order (scheduler.rs:      *)
(* PendingTx::enqueue / drain_in_order, both the comparison sort below the *)
(* 1024-entry threshold and the 20-pass radix sort above it, and the       *)
(* LegacyScheduler BTreeMap queue).                                        *)
(*                                                                         *)
(* A trace is a concatenation of runs: reset, enq*, drain*, end.           *)
(* The spec accepts a run iff the drained sequence is the strictly         *)
(* increasing byte-lexicographic order of the de-duplicated (last-wins)    *)
(* key set that was enqueued.                                              *)
(***************************************************************************)
EXTENDS Naturals, Sequences, FiniteSets, TLC, Json, IOUtils

Rec == ndJsonDeserialize(IOEnv.TRACE)

VARIABLES l,        \* next trace line
          pending,  \* [key id -> tag of the last enqueue]   (last-wins on (scope hash, rule))
          prev,     \* last drained key (sequence of 36 bytes) or <<>>
          drained   \* number of drain events in this run
vars == <<l, pending, prev, drained>>

Upd(f, k, v) == [x \in (DOMAIN f) \cup {k} |-> IF x = k THEN v ELSE f[x]]

RECURSIVE LexLessFrom(_, _, _)
LexLessFrom(a, b, i) ==
  IF i > Len(a) THEN FALSE
  ELSE IF a[i] < b[i] THEN TRUE
  ELSE IF a[i] > b[i] THEN FALSE
  ELSE LexLessFrom(a, b, i + 1)
LexLess(a, b) == LexLessFrom(a, b, 1)

IsEvent(e) == l <= Len(Rec) /\ Rec[l].event = e /\ l' = l + 1

Init == l = 1 /\ pending = [x \in {} |-> 0] /\ prev = <<>> /\ drained = 0

TReset == IsEvent("reset") /\ pending' = [x \in {} |-> 0] /\ prev' = <<>> /\ drained' = 0

\* PendingTx::enqueue / LegacyScheduler::enqueue: last wins on the key
TEnq == IsEvent("enq") /\ pending' = Upd(pending, Rec[l].h, Rec[l].tag) /\ UNCHANGED <<prev, drained>>

\* one drained entry: it was enqueued, carries the LAST payload enqueued under its key,
\* and is strictly greater than the previously drained key
TDrain == /\ IsEvent("drain")
          /\ Rec[l].h \in DOMAIN pending
          /\ pending[Rec[l].h] = Rec[l].tag
          /\ (prev = <<>> \/ LexLess(prev, Rec[l].k))
          /\ prev' = Rec[l].k /\ drained' = drained + 1 /\ UNCHANGED pending

\* nothing was lost: as many drained entries as distinct keys
TEnd == IsEvent("end") /\ drained = Cardinality(DOMAIN pending) /\ UNCHANGED <<pending, prev, drained>>

Next == TReset \/ TEnq \/ TDrain \/ TEnd
Spec == Init /\ [][Next]_vars

Accepted ==
  LET d == TLCGet("stats").diameter
  IN IF d - 1 = Len(Rec) THEN TRUE
     ELSE Print(<<"REJECTED_AT", d, IF d <= Len(Rec) THEN Rec[d].event ELSE "eof">>, FALSE)
=============================================================================
