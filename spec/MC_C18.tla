------------------------------ MODULE MC_C18 ------------------------------
(***************************************************************************)
(* C18 model: one tick of the materialization bus.                         *)
(*                                                                         *)
(* A token universe TokAt(1..NTok) of (channel, emit key, payload) and a   *)
(* list PolSeq of channel-policy assignments are fixed by the cfg.  A      *)
(* behaviour registers one assignment, emits distinct tokens one at a time *)
(* and may finalize after MinN..MaxN emits.                                *)
(*                                                                         *)
(*   Mode = "perm": any unused token may be emitted next, so TLC walks     *)
(*      EVERY order of EVERY token subset of size <= MaxN, including       *)
(*      subsets that repeat a (channel, key) with a different or the same  *)
(*      payload.  Each finalized behaviour is exported as a CASE.          *)
(*   Mode = "set":  tokens are emitted in index order and repeats are      *)
(*      skipped, so TLC walks every repeat-free subset once; the exported  *)
(*      CASE is the oracle for the set and the harness enumerates all      *)
(*      permutations of it against the real bus.                           *)
(*      The table may also be a seeded one written by the runner (MC_Env). *)
(*                                                                         *)
(* Exported CASE = policies per channel, the emission sequence in the      *)
(* order taken with the accepted/rejected flag of every emit, and the      *)
(* report (bytes per channel in channel order, conflicts).                 *)
(***************************************************************************)
EXTENDS Bus, Json, IOUtils

CONSTANTS Mode, NTok, TokAt(_), PolSeq, RegisterFirst, MinN, MaxN, Export, CheckRekeyDirect

VARIABLES used          \* token indices emitted so far
vars == <<policies, pending, hist, report, used>>

-----------------------------------------------------------------------------
(* universes (selected by  X <- MC_...  in the cfg) *)

Pols11 == <<"Unreg", "Log", "StrictSingle", "Sum", "Max", "Min", "BitOr", "BitAnd", "First", "Last", "Concat">>
\* k assignments over channels 0..nch-1: channel c gets Pols11[i + c*shift]
PolRot(k, nch, shift) == [i \in 1..k |-> [c \in 0..(nch - 1) |-> Pols11[((i - 1 + c * shift) % 11) + 1]]]
MC_Pol6x2  == PolRot(6, 2, 5)      \* every policy on at least one of two channels
MC_Pol11x2 == PolRot(11, 2, 4)     \* every policy on every channel, mixed pairs
MC_Pol11x3 == PolRot(11, 3, 4)
MC_PolAllPairs == [n \in 1..121 |-> [c \in 0..1 |-> IF c = 0 THEN Pols11[((n - 1) \div 11) + 1] ELSE Pols11[((n - 1) % 11) + 1]]]

\* emit keys <<scope, rule, subkey>>; each wrong field priority orders these differently:
\*   correct (scope, rule, subkey): K3 < K2 < K1 ; rule first: K1 < K3 < K2 ; subkey first: K2 < K1 < K3
K1 == <<1, 0, 1>>
K2 == <<0, 2, 0>>
K3 == <<0, 1, 3>>
K4 == <<0, 2, 2>>
K5 == <<3, 4, 4>>
K6 == <<2, 3, 0>>

B9  == <<255, 255, 255, 255, 255, 255, 255, 255, 1>>   \* 9 bytes: Sum must drop the 9th; u64::MAX
B9b == <<0, 0, 0, 0, 0, 0, 0, 128, 255>>                \* 2^63 and a 9th byte
B8  == <<1, 0, 0, 0, 0, 0, 0, 128>>                     \* 2^63 + 1

Tok(c, k, d, id) == [ch |-> c, key |-> k, data |-> d, id |-> id]
\* product universe, token i computed by index arithmetic (TLC re-evaluates these on every access)
ProductAt(Cs, Ks, Ds, i) ==
  Tok(Cs[((i - 1) \div (Len(Ks) * Len(Ds))) + 1],
      Ks[(((i - 1) \div Len(Ds)) % Len(Ks)) + 1],
      Ds[((i - 1) % Len(Ds)) + 1], 0)

\* perm universes: full product (so every re-keying of a set is itself explored), one exact copy
\* of a product token (identical-payload repeat) and 9-byte payloads on two slots
PaysQ == <<<<>>, <<1>>, <<0, 255>>>>
MC_PermQ_N == 21
MC_PermQ_At(i) == CASE i <= 18 -> ProductAt(<<0, 1>>, <<K1, K2, K3>>, PaysQ, i)
                    [] i = 19  -> Tok(0, K2, <<1>>, 1)
                    [] i = 20  -> Tok(1, K3, B9, 0)
                    [] i = 21  -> Tok(0, K1, B9, 0)
PaysT == <<<<>>, <<1>>, <<255, 1>>, <<0, 255>>, B9, B8>>
MC_PermT_N == 38
MC_PermT_At(i) == CASE i <= 36 -> ProductAt(<<0, 1>>, <<K1, K2, K3>>, PaysT, i)
                    [] i = 37  -> Tok(0, K2, <<1>>, 1)
                    [] i = 38  -> Tok(1, K3, B9, 1)
\* tiny universe used to check that registering policies first or last exports the same cases
MC_PermS_N == 8
MC_PermS_At(i) == ProductAt(<<0, 1>>, <<K1, K2>>, <<<<1>>, <<0, 255>>>>, i)

\* set universes: hand-made tables with payload lengths 0, 1, 2, 8, 9 mixed on two / three channels
MC_TokSetA == <<Tok(0, K1, <<>>, 0),       Tok(0, K2, <<1>>, 0),     Tok(0, K3, <<255, 1>>, 0),
                Tok(0, K4, B9, 0),         Tok(0, K5, <<0, 255>>, 0), Tok(0, K6, <<1>>, 0),
                Tok(1, K2, <<255>>, 0),    Tok(1, K3, <<1, 1>>, 0),   Tok(1, K1, <<0>>, 0),
                Tok(1, K5, <<255, 0, 1>>, 0)>>
MC_TokSetB == <<Tok(0, K3, B9, 0),         Tok(0, K1, B9b, 0),       Tok(0, K2, B8, 0),
                Tok(0, K4, <<255>>, 0),    Tok(0, K6, <<1, 255>>, 0), Tok(0, K5, <<1>>, 0),
                Tok(0, <<0, 0, 0>>, <<0, 0, 1>>, 0),
                Tok(2, K1, <<1, 2>>, 0),   Tok(2, K3, <<3>>, 0),      Tok(1, K6, <<>>, 0)>>
MC_TokSetC == <<Tok(1, K5, <<1>>, 0),      Tok(1, K4, <<1, 0>>, 0),  Tok(1, K3, <<1, 0, 0>>, 0),
                Tok(1, K2, <<>>, 0),       Tok(1, K1, <<0>>, 0),      Tok(1, K6, <<0, 0>>, 0),
                Tok(1, <<3, 0, 0>>, <<255, 255>>, 0), Tok(1, <<0, 0, 4>>, B9, 0),
                Tok(0, K1, <<7>>, 0)>>

MC_SetA_N == 10
MC_SetA_At(i) == MC_TokSetA[i]
MC_SetB_N == 10
MC_SetB_At(i) == MC_TokSetB[i]
MC_SetC_N == 9
MC_SetC_At(i) == MC_TokSetC[i]

\* seeded token table written by the runner (a JSON array of {ch, key, data, id}); used in set mode
MC_TokEnv == JsonDeserialize(IOEnv.VERIF_C18_TOKS)
MC_Env_N == Len(MC_TokEnv)
MC_Env_At(i) == MC_TokEnv[i]

-----------------------------------------------------------------------------

Registered(pa) == [c \in {x \in DOMAIN pa : pa[x] # "Unreg"} |-> pa[c]]

\* Policies are registered before the first emit (RegisterFirst) or just before finalize. Emit neither
\* reads nor writes `policies`, so both give the same behaviours; registering last keeps the emit
\* states shared between the policy assignments.
Init ==
  /\ IF RegisterFirst THEN \E i \in 1..Len(PolSeq) : policies = Registered(PolSeq[i]) ELSE policies = EmptyFn
  /\ pending = EmptyFn
  /\ hist = <<>>
  /\ report = None
  /\ used = {}

EmitRec(i, t) ==
  /\ Mode = "set" => /\ \A j \in used : j < i
                     /\ ~IsDuplicate(pending, t.ch, t.key)
  /\ Emit(t.ch, t.key, t.data)
  /\ used' = used \cup {i}
EmitTok(i) == i \notin used /\ EmitRec(i, TokAt(i))

Next ==
  \/ /\ report = None
     /\ Cardinality(used) < MaxN
     /\ \E i \in 1..NTok : EmitTok(i)
  \/ /\ report = None
     /\ Cardinality(used) >= MinN
     /\ IF RegisterFirst THEN Finalize
        ELSE \E i \in 1..Len(PolSeq) :
               /\ report' = FinalizeReport(Registered(PolSeq[i]), pending)      \* Register ; Finalize
               /\ policies' = Registered(PolSeq[i])
               /\ pending' = EmptyFn
               /\ UNCHANGED hist
     /\ UNCHANGED used

Spec == Init /\ [][Next]_vars

-----------------------------------------------------------------------------
(* invariants *)

Inv_TypeOK            == TypeOK
Inv_Pending           == Inv_PendingIsSet
Inv_Dup               == Inv_DuplicateRejected
Inv_Oracle            == Inv_FinalizeIsOracle
Inv_OracleNow         == RegisterFirst => Inv_FinalizeNowIsOracle
Inv_Partition         == Inv_ReportPartition
Inv_Rekey             == CheckRekeyDirect => RekeyDirect
\* a history without repeated (channel, key) accepts everything
Inv_NoRepeatAllOk     == ~HasRepeat(hist) => \A n \in 1..Len(hist) : hist[n].ok
Prop_Rejected         == RejectedEmitChangesNothing
Prop_Accepted         == AcceptedEmitAddsOne

-----------------------------------------------------------------------------
(* export *)

ChanSeq == NatSeq(Channels)
CaseJson ==
  [mode   |-> Mode,
   pol    |-> [i \in 1..Len(ChanSeq) |-> IF ChanSeq[i] \in DOMAIN policies THEN policies[ChanSeq[i]] ELSE "Unreg"],
   emits  |-> hist,
   channels |-> report.channels,
   errors |-> report.errors]
Inv_Export == (Export /\ report # None) => PrintT(<<"CASE", ToJson(CaseJson)>>)
=============================================================================
