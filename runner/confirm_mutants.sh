#!/bin/sh
# Independent confirmation of every seeded mutant in ONE scratch worktree (/tmp/confirm, own target dir):
#  (1) demo passes on the unmodified tree, (2) patch applies and compiles, demo FAILS with it,
#  (3) the existing warp-core suite (with the three internal features) still passes with the patch
#      (known failure: inverse_intent_resolves_one_admitted_transition_after_restart).
# Results: seeded/<id>/confirm.log and one line per mutant in seeded/confirm_summary.txt
WT=/tmp/confirm
FEAT="--features native_rule_bootstrap,trusted_runtime,host_test"
[ -d $WT ] || git -C /repo worktree add -q $WT HEAD
cd $WT || exit 2
for sd in "$@"; do
  id=$(basename $sd)
  [ -f $sd/demo.rs ] || { echo "$id no-demo" >> /verif/seeded/confirm_summary.txt; continue; }
  grep -q "^$id " /verif/seeded/confirm_summary.txt 2>/dev/null && continue
  git checkout -q -- . ; rm -f crates/*/tests/demo_verif_*.rs
  crate=warp-core; feat="$FEAT"
  if grep -q 'echo_cas' $sd/demo.rs && ! grep -q 'warp_core' $sd/demo.rs; then crate=echo-cas; feat=""; fi
  cp $sd/demo.rs crates/$crate/tests/demo_verif_$id.rs
  log=$sd/confirm.log; : > $log
  nice -n 10 cargo test -p $crate --offline $feat --test demo_verif_$id >> $log 2>&1; head_rc=$?
  if ! git apply $sd/patch.diff >> $log 2>&1; then echo "$id patch-does-not-apply" >> /verif/seeded/confirm_summary.txt; continue; fi
  nice -n 10 cargo test -p $crate --offline $feat --test demo_verif_$id >> $log 2>&1; mut_rc=$?
  rm -f crates/$crate/tests/demo_verif_$id.rs
  nice -n 10 cargo nextest run -p $crate --offline --no-fail-fast $feat > $sd/confirm_suite.log 2>&1
  fails=$(grep -E '^\s+FAIL ' $sd/confirm_suite.log | grep -v inverse_intent_resolves_one_admitted_transition_after_restart | sort -u | wc -l)
  summ=$(grep -E 'Summary' $sd/confirm_suite.log | tail -n 1 | sed 's/^ *//')
  echo "$id demo_on_head_rc=$head_rc demo_with_patch_rc=$mut_rc unexpected_suite_failures=$fails :: $summ" >> /verif/seeded/confirm_summary.txt
  git checkout -q -- .
done
