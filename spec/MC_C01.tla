------------------------------ MODULE MC_C01 ------------------------------
(***************************************************************************)
(* C01 model: for each pre-tick state, every enqueue sequence (any order,  *)
(* with repetitions) over a universe of candidate rewrites, followed by    *)
(* the phases of commit.  The committed outcome must be the oracle's       *)
(* function of the candidate SET; every behaviour is exported and replayed *)
(* into a real Engine.                                                     *)
(***************************************************************************)
EXTENDS Tick, Json, IOUtils

CONSTANTS MaxSeq,        \* bound on the number of enqueue calls
          MaxDistinct,   \* bound on distinct candidates in one tick
          PreNames,      \* which pre-states to explore
          CandU,         \* candidate universe: set of <<rule, warp, scope>> (defined below, via <-)
          Export

VARIABLES pre, preName,
          hist,          \* enqueue calls so far (history; the behaviour being exported)
          pending,       \* candidate -> nonce of its last enqueue  (PendingTx: last wins, key survives)
          phase,         \* "open" | "reserve" | "exec" | "done"
          drained, i, marks, acc, post, ok
vars == <<pre, preName, hist, pending, phase, drained, i, marks, acc, post, ok>>

\* ---- rule table (interpreted identically by harness/src/programs.rs) -----
P(kind, a, b, e, ty, ty2, p) == [kind |-> kind, a |-> a, b |-> b, e |-> e, ty |-> ty, ty2 |-> ty2, p |-> p]
MC_Prog == <<
  P("SetAtom",     "S",  "S",  "e0", "tA", "tA", "p0"),   \* 1
  P("SetAtom",     "S",  "S",  "e0", "tA", "tA", "p1"),   \* 2
  P("CopyAtt",     "S",  "n0", "e0", "tA", "tA", "p0"),   \* 3  att(S) -> att(n0)
  P("AddEdge",     "S",  "n0", "e0", "tA", "tA", "p0"),   \* 4  e0: S -> n0
  P("DelEdgeFrom", "S",  "S",  "e0", "tA", "tA", "p0"),   \* 5  delete e0 if it leaves S
  P("SetEdgeAtom", "S",  "S",  "e0", "tA", "tA", "p1"),   \* 6
  P("UpsertNode",  "n2", "n2", "e0", "tB", "tB", "p0"),   \* 7  create / retype n2
  P("RetypeByAtt", "S",  "S",  "e0", "tB", "tA", "p0"),   \* 8  type(S) := tB if att(S)=p0 else tA
  P("DelNodeIso",  "S",  "S",  "e0", "tA", "tA", "p0"),   \* 9
  P("AddEdge",     "n0", "S",  "e1", "tB", "tB", "p0")    \* 10 e1: n0 -> S
>>

IdRanks    == JsonDeserialize(IOEnv.VERIF_IDS)
MC_RankW   == [w \in Warps |-> IdRanks.warps[w]]
MC_RankN   == [n \in Nodes |-> IdRanks.nodes[n]]
MC_RankE   == [e \in Edges |-> IdRanks.edges[e]]
CandName(c) == ToString(c[1]) \o "|" \o c[2] \o "|" \o c[3]
MC_KeyRank == [c \in CandU |-> IdRanks.scope[CandName(c)]]

MC_CandU == {<<1, "w0", "n1">>, <<2, "w0", "n1">>, <<3, "w0", "n1">>, <<4, "w0", "n2">>,
             <<5, "w0", "n1">>, <<6, "w0", "n0">>, <<7, "w0", "n0">>, <<8, "w0", "n1">>,
             <<9, "w0", "n2">>, <<10, "w0", "n1">>, <<1, "w1", "n0">>, <<4, "w1", "n1">>, <<4, "w0", "n1">>}

\* a small universe for long repetition patterns (A B A B, A B C A C, ...)
MC_CandU_small == {<<1, "w0", "n1">>, <<2, "w0", "n1">>, <<7, "w0", "n0">>, <<10, "w0", "n1">>}

\* ---- pre-states -------------------------------------------------------------
Build(ops) == ApplyOps(EmptyState, ops).s
Base == <<OpUpsertInst("w0", "n0", None), OpUpsertNode("w0", "n0", "tA"), OpUpsertNode("w0", "n1", "tA")>>
PreState(name) ==
  CASE name = "plain"  -> Build(Base)
    [] name = "edges"  -> Build(Base \o <<OpUpsertNode("w0", "n2", "tA"),
                                          OpUpsertEdge("w0", "e0", "n1", "n0", "tA"),
                                          OpSetAtt(EAtt("w0", "e0"), Atom("p0")),
                                          OpSetAtt(NAtt("w0", "n1"), Atom("p0"))>>)
    [] name = "chain"  -> Build(Base \o <<OpUpsertNode("w0", "n2", "tB"),
                                          OpUpsertEdge("w0", "e0", "n2", "n1", "tB"),
                                          OpUpsertEdge("w0", "e1", "n0", "n2", "tA"),
                                          OpSetAtt(NAtt("w0", "n2"), Atom("p1")),
                                          OpSetAtt(EAtt("w0", "e0"), Atom("p1"))>>)
    [] name = "portal" -> Build(Base \o <<OpOpenPortal(NAtt("w0", "n1"), "w1", "n0", <<"empty", "tA">>),
                                          OpUpsertNode("w1", "n1", "tB"),
                                          OpUpsertEdge("w1", "e0", "n0", "n1", "tA")>>)

\* ---- actions ------------------------------------------------------------------
Init == /\ preName \in PreNames /\ pre = PreState(preName)
        /\ hist = <<>> /\ pending = [x \in {} |-> 0] /\ phase = "open"
        /\ drained = <<>> /\ i = 1 /\ marks = EmptyMarks /\ acc = <<>> /\ post = pre /\ ok = TRUE

\* Engine::apply: NoMatch enqueues nothing; a repeat overwrites the payload and refreshes the nonce
Enqueue(c) ==
  /\ phase = "open" /\ Len(hist) < MaxSeq
  /\ Matches(c, pre)
  /\ Cardinality(DOMAIN pending \cup {c}) <= MaxDistinct
  /\ hist' = Append(hist, c)
  /\ pending' = Upd(pending, c, Len(hist) + 1)
  /\ UNCHANGED <<pre, preName, phase, drained, i, marks, acc, post, ok>>

\* scheduler.drain_for_tx: canonical (scope hash, rule) order, nonce is irrelevant once keys are unique
Drain ==
  /\ phase = "open" /\ hist # <<>>
  /\ drained' = DrainOrder(DOMAIN pending)
  /\ phase' = "reserve"
  /\ UNCHANGED <<pre, preName, hist, pending, i, marks, acc, post, ok>>

Reserve ==
  /\ phase = "reserve" /\ i <= Len(drained)
  /\ LET r == RadixStep(marks, CandFP(drained[i], pre))
     IN marks' = r.marks /\ acc' = Append(acc, r.ok)
  /\ i' = i + 1
  /\ UNCHANGED <<pre, preName, hist, pending, phase, drained, post, ok>>

ReserveDone ==
  /\ phase = "reserve" /\ i > Len(drained)
  /\ phase' = "exec"
  /\ UNCHANGED <<pre, preName, hist, pending, drained, i, marks, acc, post, ok>>

\* apply_reserved_rewrites: every accepted rewrite executes against `pre`, deltas merge canonically
Commit ==
  /\ phase = "exec"
  /\ LET accepted == {drained[k] : k \in {x \in 1..Len(drained) : acc[x]}}
         ops == UNION {CandOps(c, pre) : c \in accepted}
         r == IF MergeOk(ops) THEN ApplyOps(pre, CanonSeq(ops)) ELSE [ok |-> FALSE, s |-> EmptyState, errs |-> {}]
     IN ok' = r.ok /\ post' = IF r.ok THEN r.s ELSE pre
  /\ phase' = "done"
  /\ UNCHANGED <<pre, preName, hist, pending, drained, i, marks, acc>>

Next == (\E c \in CandU : Enqueue(c)) \/ Drain \/ Reserve \/ ReserveDone \/ Commit
Spec == Init /\ [][Next]_vars

\* ---- properties ---------------------------------------------------------------
Done == phase = "done"
CandSet == DOMAIN pending
O == TickOracle(pre, CandSet)

\* the committed outcome is the oracle's function of the candidate SET
Inv_OutcomeIsFunctionOfSet ==
  Done => /\ drained = O.order /\ acc = O.acc /\ ok = O.ok /\ post = O.post
Inv_DrainSorted == \A k \in 1..(Len(drained) - 1) : KeyRank[drained[k]] < KeyRank[drained[k + 1]]
\* accepted rewrites are pairwise independent, and every rejected one conflicts with an earlier accepted one
Inv_AcceptedIndependent ==
  Done => \A x, y \in 1..Len(drained) : (x # y /\ acc[x] /\ acc[y]) => ~Conflicts(CandFP(drained[x], pre), CandFP(drained[y], pre))
\* post-state contains the effect of every accepted rewrite evaluated at `pre`, and nothing else:
\* it equals pre patched by exactly those ops
Inv_PostIsPrePlusAccepted ==
  (Done /\ ok) => LET ops == UNION {CandOps(drained[k], pre) : k \in {x \in 1..Len(drained) : acc[x]}}
                  IN post = ApplyOps(pre, CanonSeq(ops)).s
\* the patch (delta pre -> post) replays to post  (C04 on every tick of this model)
Inv_PatchReplays == (Done /\ ok) => LET r == ApplyOps(pre, Diff(pre, post)) IN r.ok /\ r.s = post
Inv_PostWellFormed == Done => WellFormed(post)

\* ---- export -----------------------------------------------------------------
AttJson(v)  == IF v = None THEN [k |-> "none"] ELSE IF v[1] = "atom" THEN [k |-> "atom", p |-> v[2]] ELSE [k |-> "desc", w |-> v[2]]
KeyJson(k)  == [o |-> k[1], w |-> k[2], id |-> k[3]]
StateJson(s) ==
  [inst |-> {[w |-> w, root |-> s.inst[w].root,
              parent |-> IF s.inst[w].parent = None THEN [o |-> "none"] ELSE KeyJson(s.inst[w].parent)] : w \in DOMAIN s.inst},
   node |-> {[w |-> k[1], n |-> k[2], ty |-> s.node[k], att |-> AttJson(Get(s.natt, k))] : k \in DOMAIN s.node},
   edge |-> {[w |-> k[1], e |-> k[2], from |-> s.edge[k].from, to |-> s.edge[k].to, ty |-> s.edge[k].ty,
              att |-> AttJson(Get(s.eatt, k))] : k \in DOMAIN s.edge}]
OpJson(o) ==
  CASE o.op = "OpenPortal" -> [op |-> o.op, key |-> KeyJson(o.key), child |-> o.child, croot |-> o.croot,
                               init |-> o.init[1], ty |-> IF o.init[1] = "empty" THEN o.init[2] ELSE "none"]
    [] o.op = "UpsertWarpInstance" -> [op |-> o.op, w |-> o.w, root |-> o.root,
                               parent |-> IF o.parent = None THEN [o |-> "none"] ELSE KeyJson(o.parent)]
    [] o.op = "DeleteWarpInstance" -> [op |-> o.op, w |-> o.w]
    [] o.op = "UpsertNode" -> [op |-> o.op, w |-> o.w, n |-> o.n, ty |-> o.ty]
    [] o.op = "DeleteNode" -> [op |-> o.op, w |-> o.w, n |-> o.n]
    [] o.op = "UpsertEdge" -> [op |-> o.op, w |-> o.w, e |-> o.e, from |-> o.from, to |-> o.to, ty |-> o.ty]
    [] o.op = "DeleteEdge" -> [op |-> o.op, w |-> o.w, from |-> o.from, e |-> o.e]
    [] o.op = "SetAttachment" -> [op |-> o.op, key |-> KeyJson(o.key), value |-> AttJson(o.value)]
CandJson(c) == [r |-> c[1], w |-> c[2], n |-> c[3]]
SlotJson(k) == IF Len(k) = 2 THEN [o |-> "k", w |-> k[1], id |-> k[2]] ELSE KeyJson(k)
CaseJson ==
  LET d == Diff(pre, post)
  IN [pre |-> StateJson(pre), preName |-> preName,
      seq |-> [k \in 1..Len(hist) |-> CandJson(hist[k])],
      order |-> [k \in 1..Len(drained) |-> CandJson(drained[k])],
      acc |-> acc,
      blk |-> [k \in 1..Len(drained) |-> O.blockers[k]],
      ok |-> ok, post |-> StateJson(post),
      patch |-> [k \in 1..Len(d) |-> OpJson(d[k])],
      descent |-> [w \in DOMAIN pre.inst |-> {KeyJson(k) : k \in DescentOf(pre, w)}],
      prog |-> [k \in 1..Len(Prog) |-> Prog[k]]]
Inv_Export == (Export /\ Done) => PrintT(<<"CASE", ToJson(CaseJson)>>)
=============================================================================
