//! C09 (and the shared runtime driver of C08): replay of model-enumerated behaviours of
//! spec/Runtime.tla into a real `WorldlineRuntime` / `SchedulerCoordinator` / `ProvenanceService`
//! / `Engine`, with a failure-injecting table-driven command rule.
//!
//! After EVERY action the model-visible projection of the real objects is compared with the
//! model's prediction. Around every scheduler pass a FULL FINGERPRINT (`{:#?}` of the runtime,
//! `{:#?}` of the provenance service, `Engine::verif_fingerprint()`) is taken; after a failed pass
//! it must equal the pre-pass fingerprint except for the explicitly masked fault-evidence fields.
//! The property is decided on the REAL outcome; disagreement with the model where the property
//! still holds is reported as drift.

use std::collections::{BTreeMap, BTreeSet};
use std::sync::atomic::{AtomicBool, Ordering};

use serde_json::{json, Value};
use warp_core::{
    make_head_id, make_intent_kind, make_node_id, make_type_id, make_warp_id, AttachmentKey, AttachmentValue,
    ConflictPolicy, Engine, EngineBuilder, Footprint, GlobalTick, GraphStore, GraphView, HashTriplet,
    HeadEligibility, InboxAddress, InboxPolicy, IngressDisposition, IngressEnvelope, IngressTarget,
    IntentSubmissionDisposition, NodeId, NodeKey, NodeRecord, OpticAdmissionTicket, OpticArtifactHandle,
    PatternGraph, PlaybackMode, ProvenanceEntry, ProvenanceEventKind, ProvenanceService, ProvenanceStore,
    RewriteRule, RuntimeError, SchedulerCoordinator, SchedulerFaultRecord, SchedulerFaultRecoveryAuthority,
    SchedulerFaultScope, SchedulerFaultStatus, StepRecord, TickDelta, TickReceiptDisposition,
    TicketedRuntimeIngressAuthority, TicketedRuntimeIngressDisposition, WarpOp, WorldlineId, WorldlineRuntime,
    WorldlineState, WorldlineTick, WorldlineTickHeaderV1, WorldlineTickPatchV1, WriterHead, WriterHeadKey,
    OPTIC_ADMISSION_TICKET_KIND, OPTIC_ARTIFACT_HANDLE_KIND,
};

use crate::util;

// ------------------------------------------------------------------------------------------
// identities
// ------------------------------------------------------------------------------------------

pub fn salt() -> String {
    std::env::var("VERIF_ID_SALT").unwrap_or_default()
}

pub fn worldline_id(w: u64) -> WorldlineId {
    WorldlineId::from_bytes(*blake3::hash(format!("verif-wl|{}|{w}", salt()).as_bytes()).as_bytes())
}

pub fn head_key(w: u64, k: u64) -> WriterHeadKey {
    WriterHeadKey { worldline_id: worldline_id(w), head_id: make_head_id(&format!("verif-head|{}|{w}.{k}", salt())) }
}

/// Head a target resolves to under the harness' routing convention (head 1 = default writer,
/// head 2 = public inbox "pub").
pub fn head_of_target(tg: &Value) -> String {
    match tg["t"].as_str().unwrap_or("") {
        "default" => head_name(tg["w"].as_u64().unwrap_or(0), 1),
        "named" => head_name(tg["w"].as_u64().unwrap_or(0), 2),
        _ => tg["h"].as_str().unwrap_or("").to_string(),
    }
}

/// "w.k" -> (w, k)
pub fn parse_head(name: &str) -> (u64, u64) {
    let mut it = name.split('.');
    let w = it.next().and_then(|x| x.parse().ok()).unwrap_or(0);
    let k = it.next().and_then(|x| x.parse().ok()).unwrap_or(0);
    (w, k)
}

pub fn head_name(w: u64, k: u64) -> String {
    format!("{w}.{k}")
}

/// Byte-order ranks (1-based) of the 12 possible head keys, for TLC (`HeadRank`).
pub fn head_rank_table() -> Value {
    let mut all: Vec<(WriterHeadKey, String)> = Vec::new();
    for w in 1..=3u64 {
        for k in 1..=4u64 {
            all.push((head_key(w, k), head_name(w, k)));
        }
    }
    all.sort();
    let mut m = serde_json::Map::new();
    for (i, (_, n)) in all.iter().enumerate() {
        m.insert(n.clone(), json!(i + 1));
    }
    Value::Object(m)
}

pub fn kind_of(label: &str) -> warp_core::IntentKind {
    make_intent_kind(&format!("verif/{label}"))
}

/// A fabricated causal parent (a tick receipt coordinate); `n` selects one of several distinct refs.
pub fn causal_ref(n: u8) -> warp_core::CausalTickReceiptRef {
    warp_core::CausalTickReceiptRef {
        worldline_id: worldline_id(1),
        worldline_tick_after: WorldlineTick::from_raw(u64::from(n) + 1),
        commit_global_tick: GlobalTick::from_raw(u64::from(n) + 1),
        commit_hash: [n; 32],
        submission_id: [n.wrapping_add(1); 32],
        ticket_digest: [n.wrapping_add(2); 32],
        receipt_content_digest: [n.wrapping_add(3); 32],
    }
}

/// Intent table: model intent name -> (kind label, bytes, causal parents).
/// * C09 names ("ok|p1w1k1s1", ...) : kind = the `kind` argument, bytes = the name (behaviour class = prefix).
/// * C08 names: "a1","a2" kind A; "b1" kind B; "bp" = the SAME kind and bytes as "b1" plus one causal
///   parent (identity must differ through the parent alone); "m<k>" = metamorphic universe (kinds
///   alternate, m3 cites a causal parent).
pub fn intent_spec(kind: &str, name: &str) -> (warp_core::IntentKind, Vec<u8>, Vec<warp_core::IngressCausalParent>) {
    let tick_parent = |n: u8| warp_core::IngressCausalParent::TickReceipt { receipt_ref: causal_ref(n) };
    let body = |s: &str| format!("ok|{s}{}", salt()).into_bytes();
    match name {
        "a1" | "a2" => (kind_of("kA"), body(name), vec![]),
        "b1" => (kind_of("kB"), body("b1"), vec![]),
        "bp" => (kind_of("kB"), body("b1"), vec![tick_parent(7)]),
        _ if name.starts_with('m') && name[1..].parse::<u32>().is_ok() => {
            let k: u32 = name[1..].parse().unwrap_or(0);
            let kind = if k % 2 == 0 { "kA" } else { "kB" };
            (kind_of(kind), body(name), if k == 3 { vec![tick_parent(9)] } else { vec![] })
        }
        _ => (kind_of(kind), name.as_bytes().to_vec(), vec![]),
    }
}

pub fn envelope(target: IngressTarget, kind: &str, name: &str) -> IngressEnvelope {
    let (k, bytes, parents) = intent_spec(kind, name);
    IngressEnvelope::local_intent_with_causal_parents(target, k, bytes, parents)
}

pub fn ticket(name: &str) -> OpticAdmissionTicket {
    let d = *blake3::hash(format!("verif-ticket|{name}").as_bytes()).as_bytes();
    OpticAdmissionTicket {
        kind: OPTIC_ADMISSION_TICKET_KIND.to_owned(),
        artifact_handle: OpticArtifactHandle { kind: OPTIC_ARTIFACT_HANDLE_KIND.to_owned(), id: format!("verif-{name}") },
        artifact_hash: format!("artifact-{name}"),
        operation_id: format!("operation-{name}"),
        requirements_digest: format!("requirements-{name}"),
        canonical_variables_digest: d[..4].to_vec(),
        basis_request_digest: d,
        aperture_request_digest: d,
        budget_request_digest: d,
        law_witness_digest: d,
        ticket_digest: d,
    }
}

// ------------------------------------------------------------------------------------------
// the failure-injecting command rule
// ------------------------------------------------------------------------------------------

/// Environment switch of the model (`armed`): faulty behaviour classes fault only while armed.
pub static ARMED: AtomicBool = AtomicBool::new(true);

pub const RULE_NAME: &str = "cmd/verif-runtime";

fn beh_of(view: &GraphView<'_>, scope: &NodeId) -> Option<String> {
    match view.node_attachment(scope) {
        Some(AttachmentValue::Atom(p)) => {
            let s = std::str::from_utf8(p.bytes.as_ref()).ok()?;
            Some(s.split('|').next().unwrap_or("").to_string())
        }
        _ => None,
    }
}

fn target_of(scope: &NodeId) -> NodeId {
    let mut h = blake3::Hasher::new();
    h.update(b"verif-rt-target");
    h.update(scope.as_bytes());
    NodeId(h.finalize().into())
}

fn shared_node() -> NodeId {
    make_node_id("verif-rt-shared")
}

fn rt_match(view: GraphView<'_>, scope: &NodeId) -> bool {
    matches!(beh_of(&view, scope).as_deref(), Some("ok" | "conf" | "panic" | "uwrite" | "uread" | "xwarp" | "badop"))
}

fn rt_footprint(view: GraphView<'_>, scope: &NodeId) -> Footprint {
    let warp = view.warp_id();
    let nk = |n: NodeId| NodeKey { warp_id: warp, local_id: n };
    let mut fp = Footprint { factor_mask: 1, ..Footprint::default() };
    fp.n_read.insert(nk(*scope));
    fp.a_read.insert(AttachmentKey::node_alpha(nk(*scope)));
    match beh_of(&view, scope).as_deref() {
        Some("conf") => {
            fp.n_write.insert(nk(shared_node()));
        }
        Some("badop") => {
            // honest footprint of DeleteNode(scope): the node and its alpha attachment
            fp.n_write.insert(nk(target_of(scope)));
            fp.n_write.insert(nk(*scope));
            fp.a_write.insert(AttachmentKey::node_alpha(nk(*scope)));
        }
        _ => {
            fp.n_write.insert(nk(target_of(scope)));
        }
    }
    fp
}

fn rt_exec(view: GraphView<'_>, scope: &NodeId, delta: &mut TickDelta) {
    let warp = view.warp_id();
    let nk = |n: NodeId| NodeKey { warp_id: warp, local_id: n };
    let beh = beh_of(&view, scope).unwrap_or_default();
    let armed = ARMED.load(Ordering::SeqCst);
    let ok_op = WarpOp::UpsertNode { node: nk(target_of(scope)), record: NodeRecord { ty: make_type_id("verif/rt-ok") } };
    match beh.as_str() {
        "conf" => delta.push(WarpOp::UpsertNode { node: nk(shared_node()), record: NodeRecord { ty: make_type_id("verif/rt-shared") } }),
        "panic" if armed => std::panic::panic_any("verif-injected-executor-panic"),
        "uwrite" if armed => {
            delta.push(ok_op);
            delta.push(WarpOp::UpsertNode { node: nk(make_node_id("verif-rt-undeclared")), record: NodeRecord { ty: make_type_id("verif/rt-ok") } });
        }
        "uread" if armed => {
            let _ = view.node(&make_node_id("verif-rt-undeclared-read"));
            delta.push(ok_op);
        }
        "xwarp" if armed => {
            delta.push(WarpOp::UpsertNode {
                node: NodeKey { warp_id: make_warp_id("verif-rt-missing-instance"), local_id: target_of(scope) },
                record: NodeRecord { ty: make_type_id("verif/rt-ok") },
            });
        }
        "badop" if armed => {
            // the event node still has its kind edge: DeleteNode is inapplicable => typed engine error
            delta.push(WarpOp::DeleteNode { node: nk(*scope) });
        }
        _ => delta.push(ok_op),
    }
}

pub fn rt_rule() -> RewriteRule {
    RewriteRule {
        id: *blake3::hash(format!("rule:{RULE_NAME}").as_bytes()).as_bytes(),
        name: RULE_NAME,
        left: PatternGraph { nodes: vec![] },
        matcher: rt_match,
        executor: rt_exec,
        compute_footprint: rt_footprint,
        factor_mask: 1,
        conflict_policy: ConflictPolicy::Abort,
        join_fn: None,
    }
}

pub fn build_engine(workers: usize) -> Result<Engine, String> {
    let mut store = GraphStore::default();
    let root = make_node_id("root");
    store.insert_node(root, NodeRecord { ty: make_type_id("world") });
    let mut engine = EngineBuilder::new(store, root).workers(workers).build();
    engine.register_rule(rt_rule()).map_err(|e| format!("register rule: {e:?}"))?;
    Ok(engine)
}

// ------------------------------------------------------------------------------------------
// fingerprints
// ------------------------------------------------------------------------------------------

/// Top-level fields of `WorldlineRuntime` that a FAILED pass may change (fault evidence), the
/// derived quarantine index, and the `_for_test` instrumentation counter (DESIGN section 5).
pub const RUNTIME_MASK: &[&str] = &[
    "scheduler_faults",
    "faulted_heads",
    "runtime_fault",
    "next_scheduler_fault_generation",
    "runnable",
    "receipt_correlation_full_scan_count",
];
/// Masked in every comparison (instrumentation only).
pub const INSTRUMENTATION_MASK: &[&str] = &["receipt_correlation_full_scan_count"];

/// Splits a compact `{:?}` struct rendering `Name { a: .., b: .. }` into its top-level fields
/// (bracket depth and string literals are tracked, so nested commas do not split).
pub fn split_fields(dbg: &str) -> BTreeMap<String, String> {
    let mut out: BTreeMap<String, String> = BTreeMap::new();
    let Some(open) = dbg.find(" { ") else {
        out.insert("<whole>".to_string(), dbg.to_string());
        return out;
    };
    let body = &dbg[open + 3..dbg.len().saturating_sub(2).max(open + 3)];
    let bytes = body.as_bytes();
    let mut depth = 0i32;
    let mut in_str = false;
    let mut esc = false;
    let mut start = 0usize;
    let mut pieces: Vec<&str> = Vec::new();
    let mut i = 0usize;
    while i < bytes.len() {
        let c = bytes[i];
        if in_str {
            if esc {
                esc = false;
            } else if c == b'\\' {
                esc = true;
            } else if c == b'"' {
                in_str = false;
            }
        } else {
            match c {
                b'"' => in_str = true,
                b'(' | b'[' | b'{' => depth += 1,
                b')' | b']' | b'}' => depth -= 1,
                b',' if depth == 0 && bytes.get(i + 1) == Some(&b' ') => {
                    pieces.push(&body[start..i]);
                    start = i + 2;
                    i += 1;
                }
                _ => {}
            }
        }
        i += 1;
    }
    if start < body.len() {
        pieces.push(&body[start..]);
    }
    for p in pieces {
        match p.find(": ") {
            Some(k) => {
                out.insert(p[..k].to_string(), p[k + 2..].to_string());
            }
            None => {
                out.insert(p.to_string(), String::new());
            }
        }
    }
    out
}

pub struct Fingerprint {
    pub runtime: BTreeMap<String, String>,
    pub provenance: String,
    pub engine: String,
}

pub fn fingerprint(rt: &WorldlineRuntime, prov: &ProvenanceService, engine: &Engine) -> Fingerprint {
    Fingerprint { runtime: split_fields(&format!("{rt:?}")), provenance: format!("{prov:?}"), engine: engine.verif_fingerprint() }
}

fn first_diff(a: &str, b: &str) -> String {
    let (x, y) = (a.as_bytes(), b.as_bytes());
    let n = x.iter().zip(y.iter()).take_while(|(p, q)| p == q).count();
    let ctx = |t: &[u8]| String::from_utf8_lossy(&t[n.saturating_sub(60)..(n + 60).min(t.len())]).to_string();
    format!("first difference at byte {n} (lengths {} / {}): before `..{}..` after `..{}..`", x.len(), y.len(), ctx(x), ctx(y))
}

/// Returns the list of differences outside `mask`.
pub fn diff_fingerprints(a: &Fingerprint, b: &Fingerprint, mask: &[&str]) -> Vec<String> {
    let mut out = Vec::new();
    let names: BTreeSet<&String> = a.runtime.keys().chain(b.runtime.keys()).collect();
    for n in names {
        if mask.contains(&n.as_str()) {
            continue;
        }
        let x = a.runtime.get(n).map(String::as_str).unwrap_or("<absent>");
        let y = b.runtime.get(n).map(String::as_str).unwrap_or("<absent>");
        if x != y {
            out.push(format!("WorldlineRuntime.{n}: {}", first_diff(x, y)));
        }
    }
    if a.provenance != b.provenance {
        out.push(format!("ProvenanceService: {}", first_diff(&a.provenance, &b.provenance)));
    }
    if a.engine != b.engine {
        out.push(format!("Engine: {}", first_diff(&a.engine, &b.engine)));
    }
    out
}

// ------------------------------------------------------------------------------------------
// the world under test
// ------------------------------------------------------------------------------------------

pub fn err_name(e: &RuntimeError) -> String {
    let s = format!("{e:?}");
    s.split(|c: char| !(c.is_ascii_alphanumeric() || c == '_')).next().unwrap_or("").to_string()
}

pub struct World {
    pub rt: WorldlineRuntime,
    pub prov: ProvenanceService,
    pub engine: Engine,
    pub topo: Vec<u64>,
    /// heads in canonical (real key) order
    pub heads: Vec<(u64, u64)>,
    /// every (head, kind, intent name) the behaviour has offered so far
    pub known: BTreeSet<((u64, u64), String, String)>,
    pub submissions: BTreeMap<((u64, u64), String), [u8; 32]>,
    /// harness-side history: how often "head/intent" was committed by a pass that survived (C08)
    pub commit_counts: BTreeMap<String, u32>,
    pub saved_tick: BTreeMap<u64, WorldlineTick>,
    pub saved_gt: Option<GlobalTick>,
    /// restore closures over the (unnameable) `ProvenanceCheckpoint` taken before a `provinject`
    pub saved_prov: BTreeMap<u64, Box<dyn FnOnce(&mut ProvenanceService)>>,
}

pub struct WorldSnap {
    pub commit_counts: BTreeMap<String, u32>,
    pub rt: WorldlineRuntime,
    pub prov: ProvenanceService,
    pub topo: Vec<u64>,
    pub heads: Vec<(u64, u64)>,
    pub known: BTreeSet<((u64, u64), String, String)>,
    pub submissions: BTreeMap<((u64, u64), String), [u8; 32]>,
}

pub struct TickOutcome {
    pub ok: bool,
    pub err: String,
    pub steps: Vec<StepRecord>,
    pub rejected: Vec<usize>,
    /// violations of the property decided on the real outcome
    pub violations: Vec<(String, String)>,
    pub fail_scope: String,
}

impl World {
    pub fn new(topo: &[u64], workers: usize, policies: &BTreeMap<(u64, u64), InboxPolicy>) -> Result<Self, String> {
        let engine = build_engine(workers)?;
        let mut rt = WorldlineRuntime::new();
        let mut heads = Vec::new();
        for (wi, n) in topo.iter().enumerate() {
            let w = wi as u64 + 1;
            rt.register_worldline(worldline_id(w), WorldlineState::empty()).map_err(|e| format!("register worldline: {e:?}"))?;
            for k in 1..=*n {
                heads.push((w, k));
            }
        }
        heads.sort_by_key(|(w, k)| head_key(*w, *k));
        // register in REVERSE canonical order: scheduling order must not depend on insertion order
        for (w, k) in heads.iter().rev() {
            let policy = policies.get(&(*w, *k)).cloned().unwrap_or(InboxPolicy::AcceptAll);
            let head = WriterHead::with_routing(
                head_key(*w, *k),
                PlaybackMode::Play,
                policy,
                if *k == 2 { Some(InboxAddress("pub".to_owned())) } else { None },
                *k == 1,
            );
            rt.register_writer_head(head).map_err(|e| format!("register head: {e:?}"))?;
        }
        let mut prov = ProvenanceService::new();
        for (id, frontier) in rt.worldlines().iter() {
            prov.register_worldline(*id, frontier.state()).map_err(|e| format!("register provenance: {e:?}"))?;
        }
        ARMED.store(true, Ordering::SeqCst);
        Ok(Self {
            rt,
            prov,
            engine,
            topo: topo.to_vec(),
            heads,
            known: BTreeSet::new(),
            submissions: BTreeMap::new(),
            commit_counts: BTreeMap::new(),
            saved_tick: BTreeMap::new(),
            saved_gt: None,
            saved_prov: BTreeMap::new(),
        })
    }

    /// Clonable part of a world (everything but the engine, which holds no per-runtime state
    /// between commits and is therefore shared).
    pub fn snap(&self) -> WorldSnap {
        WorldSnap {
            commit_counts: self.commit_counts.clone(),
            rt: self.rt.clone(),
            prov: self.prov.clone(),
            topo: self.topo.clone(),
            heads: self.heads.clone(),
            known: self.known.clone(),
            submissions: self.submissions.clone(),
        }
    }

    pub fn from_snap(s: &WorldSnap, engine: Engine) -> Self {
        Self {
            commit_counts: s.commit_counts.clone(),
            rt: s.rt.clone(),
            prov: s.prov.clone(),
            engine,
            topo: s.topo.clone(),
            heads: s.heads.clone(),
            known: s.known.clone(),
            submissions: s.submissions.clone(),
            saved_tick: BTreeMap::new(),
            saved_gt: None,
            saved_prov: BTreeMap::new(),
        }
    }

    pub fn into_engine(self) -> Engine {
        self.engine
    }

    /// Process restart at the runtime level, the way `TrustedRuntimeHost::enable_runtime_wal` rebuilds
    /// a runtime: fresh runtime with the same worldlines / heads / current policies, then
    /// `restore_witnessed_submission_persistence` + `restore_causal_runtime_history` from the durable
    /// material (witnessed-submission snapshot, provenance entries, receipt correlations).
    pub fn restart(&mut self) -> Result<(), String> {
        let snapshot = self.rt.witnessed_submission_persistence_snapshot().map_err(|e| format!("snapshot: {e:?}"))?;
        let correlations: Vec<warp_core::ReceiptCorrelationPersistenceRecord> =
            self.rt.receipt_correlations().map(warp_core::ReceiptCorrelationPersistenceRecord::from).collect();
        let mut entries = Vec::new();
        let mut fresh = WorldlineRuntime::new();
        for wi in 0..self.topo.len() {
            let id = worldline_id(wi as u64 + 1);
            fresh.register_worldline(id, WorldlineState::empty()).map_err(|e| format!("{e:?}"))?;
            for t in 0..self.prov.len(id).map_err(|e| format!("{e:?}"))? {
                entries.push(self.prov.entry(id, WorldlineTick::from_raw(t)).map_err(|e| format!("{e:?}"))?);
            }
        }
        for (w, k) in self.heads.iter().rev() {
            let key = head_key(*w, *k);
            let policy = self.rt.heads().get(&key).map(|h| h.inbox().policy().clone()).unwrap_or_default();
            let head = WriterHead::with_routing(
                key,
                PlaybackMode::Play,
                policy,
                if *k == 2 { Some(InboxAddress("pub".to_owned())) } else { None },
                *k == 1,
            );
            fresh.register_writer_head(head).map_err(|e| format!("{e:?}"))?;
        }
        fresh.restore_witnessed_submission_persistence(snapshot).map_err(|e| format!("restore submissions: {e:?}"))?;
        fresh.restore_causal_runtime_history(&self.prov, &entries, &correlations).map_err(|e| format!("restore history: {e:?}"))?;
        self.rt = fresh;
        Ok(())
    }

    pub fn target(&self, tg: &Value) -> IngressTarget {
        match tg["t"].as_str().unwrap_or("") {
            "default" => IngressTarget::DefaultWriter { worldline_id: worldline_id(tg["w"].as_u64().unwrap_or(0)) },
            "named" => IngressTarget::InboxAddress {
                worldline_id: worldline_id(tg["w"].as_u64().unwrap_or(0)),
                inbox: InboxAddress("pub".to_owned()),
            },
            _ => {
                let (w, k) = parse_head(tg["h"].as_str().unwrap_or(""));
                IngressTarget::ExactHead { key: head_key(w, k) }
            }
        }
    }

    pub fn head_of_key(&self, key: &WriterHeadKey) -> String {
        for w in 1..=3u64 {
            for k in 1..=4u64 {
                if head_key(w, k) == *key {
                    return head_name(w, k);
                }
            }
        }
        "unknown".to_string()
    }

    fn note_known(&mut self, head: &str, kind: &str, name: &str) {
        if head != "none" {
            self.known.insert((parse_head(head), kind.to_string(), name.to_string()));
        }
    }

    /// `WorldlineRuntime::ingest`
    pub fn ingest(&mut self, tg: &Value, kind: &str, name: &str) -> Value {
        let env = envelope(self.target(tg), kind, name);
        match self.rt.ingest(env) {
            Ok(IngressDisposition::Accepted { head_key, submission_id, .. }) => {
                let h = self.head_of_key(&head_key);
                self.note_known(&h, kind, name);
                self.submissions.insert((parse_head(&h), name.to_string()), submission_id);
                json!({"ok": true, "err": "", "disp": "Accepted", "head": h})
            }
            Ok(IngressDisposition::Duplicate { head_key, .. }) => {
                let h = self.head_of_key(&head_key);
                self.note_known(&h, kind, name);
                json!({"ok": true, "err": "", "disp": "Duplicate", "head": h})
            }
            Err(e) => {
                let h = match &e {
                    RuntimeError::RejectedByPolicy(k) => self.head_of_key(k),
                    _ => "none".to_string(),
                };
                json!({"ok": false, "err": err_name(&e), "disp": "", "head": h})
            }
        }
    }

    /// `WorldlineRuntime::submit_intent`
    pub fn submit(&mut self, tg: &Value, kind: &str, name: &str) -> Value {
        let env = envelope(self.target(tg), kind, name);
        match self.rt.submit_intent(env) {
            Ok(IntentSubmissionDisposition::Accepted { head_key, submission_id, .. }) => {
                let h = self.head_of_key(&head_key);
                self.note_known(&h, kind, name);
                self.submissions.insert((parse_head(&h), name.to_string()), submission_id);
                json!({"ok": true, "err": "", "disp": "Accepted", "head": h})
            }
            Ok(IntentSubmissionDisposition::Duplicate { head_key, submission_id, .. }) => {
                let h = self.head_of_key(&head_key);
                self.note_known(&h, kind, name);
                self.submissions.entry((parse_head(&h), name.to_string())).or_insert(submission_id);
                json!({"ok": true, "err": "", "disp": "Duplicate", "head": h})
            }
            Err(e) => {
                let h = match &e {
                    RuntimeError::RejectedByPolicy(k) => self.head_of_key(k),
                    _ => "none".to_string(),
                };
                json!({"ok": false, "err": err_name(&e), "disp": "", "head": h})
            }
        }
    }

    /// `WorldlineRuntime::ingest_ticketed_invocation`
    pub fn stage(&mut self, tg: &Value, kind: &str, name: &str, head: &str, tname: &str) -> Result<Value, String> {
        let env = envelope(self.target(tg), kind, name);
        let sub = *self
            .submissions
            .get(&(parse_head(head), name.to_string()))
            .ok_or_else(|| format!("stage of {name} at {head}: no submission id known to the harness"))?;
        let auth = TicketedRuntimeIngressAuthority::assume_runtime_owner();
        Ok(match self.rt.ingest_ticketed_invocation(&auth, sub, &ticket(tname), env) {
            Ok(TicketedRuntimeIngressDisposition::Staged { record, .. }) => {
                json!({"ok": true, "err": "", "disp": "Staged", "head": self.head_of_key(&record.head_key)})
            }
            Ok(TicketedRuntimeIngressDisposition::Duplicate { record }) => {
                json!({"ok": true, "err": "", "disp": "Duplicate", "head": self.head_of_key(&record.head_key)})
            }
            Err(e) => json!({"ok": false, "err": err_name(&e), "disp": "", "head": head}),
        })
    }

    pub fn set_tick_max(&mut self, w: u64, v: bool) -> Result<(), String> {
        let id = worldline_id(w);
        if v {
            let cur = self.rt.worldlines().get(&id).ok_or("unknown worldline")?.frontier_tick();
            self.saved_tick.insert(w, cur);
            self.rt.verif_set_frontier_tick(&id, WorldlineTick::MAX);
        } else if let Some(t) = self.saved_tick.remove(&w) {
            self.rt.verif_set_frontier_tick(&id, t);
        }
        Ok(())
    }

    pub fn set_gt_max(&mut self, v: bool) {
        if v {
            self.saved_gt = Some(self.rt.global_tick());
            self.rt.verif_set_global_tick(GlobalTick::MAX);
        } else if let Some(t) = self.saved_gt.take() {
            self.rt.verif_set_global_tick(t);
        }
    }

    /// Appends a foreign recorded-event entry at the tip of `w` (the frontier falls behind provenance).
    pub fn prov_inject(&mut self, w: u64) -> Result<(), String> {
        let id = worldline_id(w);
        let cp = self.prov.checkpoint_for([id]).map_err(|e| format!("provenance checkpoint: {e:?}"))?;
        self.saved_prov.insert(w, Box::new(move |p: &mut ProvenanceService| p.restore(&cp)));
        let len = self.prov.len(id).map_err(|e| format!("{e:?}"))?;
        let parents = self.prov.tip_ref(id).map_err(|e| format!("{e:?}"))?.into_iter().collect();
        let root_warp = make_warp_id("root");
        let patch = WorldlineTickPatchV1 {
            header: WorldlineTickHeaderV1 {
                commit_global_tick: self.saved_gt.unwrap_or(self.rt.global_tick()),
                policy_id: warp_core::POLICY_ID_NO_POLICY_V0,
                rule_pack_id: [0u8; 32],
                plan_digest: [0u8; 32],
                decision_digest: [0u8; 32],
                rewrites_digest: [0u8; 32],
            },
            warp_id: root_warp,
            ops: Vec::new(),
            in_slots: Vec::new(),
            out_slots: Vec::new(),
            patch_digest: [7u8; 32],
        };
        let entry = ProvenanceEntry::recorded_event(
            id,
            WorldlineTick::from_raw(len),
            self.rt.global_tick(),
            parents,
            ProvenanceEventKind::ConflictArtifact { artifact_id: [9u8; 32] },
            HashTriplet { state_root: [1u8; 32], patch_digest: [7u8; 32], commit_hash: [3u8; 32] },
            patch,
            Vec::new(),
            Vec::new(),
        );
        self.prov.append_recorded_event(entry).map_err(|e| format!("append_recorded_event: {e:?}"))
    }

    pub fn prov_repair(&mut self, w: u64) -> Result<(), String> {
        let restore = self.saved_prov.remove(&w).ok_or("no saved provenance checkpoint")?;
        restore(&mut self.prov);
        Ok(())
    }

    pub fn faults_by_generation(&self) -> Vec<SchedulerFaultRecord> {
        let mut v: Vec<SchedulerFaultRecord> = self.rt.scheduler_faults().cloned().collect();
        v.sort_by_key(|r| r.fault_generation.as_u64());
        v
    }

    pub fn resolve(&mut self, f: usize) -> Result<Value, String> {
        let faults = self.faults_by_generation();
        let rec = faults.get(f - 1).ok_or_else(|| format!("resolve {f}: only {} fault records exist", faults.len()))?;
        let auth = SchedulerFaultRecoveryAuthority::assume_runtime_owner();
        let recovery_id = *blake3::hash(format!("verif-recovery|{f}").as_bytes()).as_bytes();
        Ok(match self.rt.resolve_scheduler_fault(&auth, rec.fault_id, recovery_id) {
            Ok(()) => json!({"ok": true, "err": ""}),
            Err(e) => json!({"ok": false, "err": err_name(&e)}),
        })
    }

    fn scope_name(&self, s: &SchedulerFaultScope) -> String {
        match s {
            SchedulerFaultScope::Runtime => "runtime".to_string(),
            SchedulerFaultScope::Head(k) => self.head_of_key(k),
        }
    }

    /// Heads a pass must attempt, from the REAL pre-pass state: runnable, not quarantined, can admit.
    pub fn due(&self) -> Vec<WriterHeadKey> {
        SchedulerCoordinator::peek_order(&self.rt)
            .into_iter()
            .filter(|k| self.rt.heads().get(k).is_some_and(|h| h.inbox().can_admit()))
            .collect()
    }

    /// One scheduler pass with the all-or-nothing / ordering properties decided on the real outcome.
    pub fn tick(&mut self) -> TickOutcome {
        let mut violations: Vec<(String, String)> = Vec::new();
        let before = fingerprint(&self.rt, &self.prov, &self.engine);
        let faults_before = self.faults_by_generation();
        let quarantined_before: BTreeSet<WriterHeadKey> =
            self.heads.iter().map(|(w, k)| head_key(*w, *k)).filter(|k| self.rt.is_head_faulted(k)).collect();
        let rt_fault_before = self.rt.is_runtime_faulted();
        let due = self.due();
        let gt_before = self.rt.global_tick();
        let ticks_before: BTreeMap<WorldlineId, u64> =
            self.rt.worldlines().iter().map(|(id, f)| (*id, f.frontier_tick().as_u64())).collect();
        let prov_before: BTreeMap<WorldlineId, u64> =
            self.rt.worldlines().iter().map(|(id, _)| (*id, self.prov.len(*id).unwrap_or(u64::MAX))).collect();

        let (rt, prov, engine) = (&mut self.rt, &mut self.prov, &mut self.engine);
        let outcome = util::catch(|| SchedulerCoordinator::super_tick(rt, prov, engine));
        let (ok, err, steps) = match outcome {
            Ok(Ok(steps)) => (true, String::new(), steps),
            Ok(Err(e)) => (false, err_name(&e), Vec::new()),
            Err(_panic) => (false, "Panic".to_string(), Vec::new()),
        };
        let after = fingerprint(&self.rt, &self.prov, &self.engine);
        let faults_after = self.faults_by_generation();
        let mut fail_scope = "none".to_string();
        let mut rejected = Vec::new();

        // older evidence is never rewritten by a pass
        if faults_after.len() < faults_before.len() || faults_after[..faults_before.len()] != faults_before[..] {
            violations.push(("pass_rewrote_fault_evidence".into(), "a scheduler pass changed or dropped existing fault records".into()));
        }
        let new_faults = &faults_after[faults_before.len().min(faults_after.len())..];

        if !ok {
            // ---- all-or-nothing: nothing but fault evidence may differ
            for d in diff_fingerprints(&before, &after, RUNTIME_MASK) {
                let field = d.split(':').next().unwrap_or("").to_string();
                violations.push((format!("failed_pass_changed:{err}:{field}"), format!("failed pass ({err}) changed state outside fault evidence: {d}")));
            }
            // the derived runnable index must be coherent with heads + quarantine
            let mut probe = self.rt.clone();
            probe.refresh_runnable();
            let coherent = split_fields(&format!("{probe:?}")).get("runnable").cloned();
            if coherent != after.runtime.get("runnable").cloned() {
                violations.push(("runnable_index_stale_after_failed_pass".into(), "runnable index differs from refresh_runnable() of the same state".into()));
            }
            if err == "SchedulerRuntimeFaultActive" {
                if !rt_fault_before {
                    violations.push(("refused_without_runtime_fault".into(), "pass refused although no runtime fault was active".into()));
                }
                if !new_faults.is_empty() || !diff_fingerprints(&before, &after, INSTRUMENTATION_MASK).is_empty() {
                    violations.push(("refused_pass_changed_state".into(), "a refused pass changed the runtime".into()));
                }
            } else {
                if new_faults.is_empty() {
                    // every failure the scenarios can produce happens inside the pass proper, where the
                    // code records evidence; no new record means the failing head was ALREADY quarantined
                    // (it was attempted although faulted) or the evidence was lost
                    violations.push(("failed_pass_without_new_fault_evidence".into(),
                        format!("pass failed with {err} but no fault record was added ({} head(s) were quarantined before the pass): a quarantined head was attempted, or evidence was dropped", quarantined_before.len())));
                }
                if new_faults.len() > 1 {
                    violations.push(("failed_pass_multiple_faults".into(), format!("{} fault records added by one failed pass", new_faults.len())));
                }
                if let Some(f) = new_faults.first() {
                    fail_scope = self.scope_name(&f.scope);
                    if f.status != SchedulerFaultStatus::Active {
                        violations.push(("new_fault_not_active".into(), "fault recorded by a failed pass is not Active".into()));
                    }
                    match f.scope {
                        SchedulerFaultScope::Head(k) => {
                            if !self.rt.is_head_faulted(&k) || self.rt.is_runtime_faulted() != rt_fault_before {
                                violations.push(("head_fault_not_quarantined".into(), "head-scoped fault did not quarantine exactly its head".into()));
                            }
                            if !due.contains(&k) {
                                violations.push(("fault_scoped_to_head_not_due".into(), "fault scoped to a head that was not due in this pass".into()));
                            }
                        }
                        SchedulerFaultScope::Runtime => {
                            if !self.rt.is_runtime_faulted() {
                                violations.push(("runtime_fault_not_active".into(), "runtime-scoped fault recorded but runtime not faulted".into()));
                            }
                        }
                    }
                    // quarantine of other heads untouched
                    for (w, k) in &self.heads {
                        let key = head_key(*w, *k);
                        let was = quarantined_before.contains(&key);
                        let is = self.rt.is_head_faulted(&key);
                        let is_new = matches!(f.scope, SchedulerFaultScope::Head(x) if x == key);
                        if was != is && !is_new {
                            violations.push(("failed_pass_changed_other_quarantine".into(), format!("quarantine of head {w}.{k} changed")));
                        }
                    }
                }
            }
        } else {
            // ---- success: exact advancement, canonical order, exactly the due heads, no new evidence
            if !new_faults.is_empty() {
                violations.push(("successful_pass_recorded_fault".into(), "a successful pass added fault evidence".into()));
            }
            let expect_gt = gt_before.as_u64().wrapping_add(1);
            if self.rt.global_tick().as_u64() != expect_gt {
                violations.push(("global_tick_not_plus_one".into(), format!("global tick {} -> {}", gt_before.as_u64(), self.rt.global_tick().as_u64())));
            }
            let mut per_wl: BTreeMap<WorldlineId, u64> = BTreeMap::new();
            for (i, s) in steps.iter().enumerate() {
                if i > 0 && steps[i - 1].head_key >= s.head_key {
                    violations.push(("head_order_not_canonical".into(), format!("step {i} head key is not greater than its predecessor")));
                }
                let n = per_wl.entry(s.head_key.worldline_id).or_insert(0);
                *n += 1;
                let base = ticks_before.get(&s.head_key.worldline_id).copied().unwrap_or(0);
                if s.worldline_tick_after.as_u64() != base + *n {
                    violations.push(("worldline_tick_not_plus_one_per_commit".into(), format!("step {i}: tick after {} expected {}", s.worldline_tick_after.as_u64(), base + *n)));
                }
                if s.commit_global_tick.as_u64() != expect_gt {
                    violations.push(("step_global_tick_wrong".into(), format!("step {i}: commit_global_tick {}", s.commit_global_tick.as_u64())));
                }
                if quarantined_before.contains(&s.head_key) {
                    violations.push(("faulted_head_not_skipped".into(), format!("quarantined head {} committed", self.head_of_key(&s.head_key))));
                }
                // receipt of this commit: lawful rejections
                let rej = self
                    .rt
                    .worldlines()
                    .get(&s.head_key.worldline_id)
                    .and_then(|f| f.state().tick_history().get((s.worldline_tick_after.as_u64() - 1) as usize))
                    .map(|(_, receipt, _)| receipt.entries().iter().filter(|e| matches!(e.disposition, TickReceiptDisposition::Rejected(_))).count())
                    .unwrap_or(usize::MAX);
                rejected.push(rej);
            }
            for (id, f) in self.rt.worldlines().iter() {
                let n = per_wl.get(id).copied().unwrap_or(0);
                if f.frontier_tick().as_u64() != ticks_before.get(id).copied().unwrap_or(0) + n {
                    violations.push(("frontier_not_advanced_by_commits".into(), format!("worldline frontier {} after {} commits", f.frontier_tick().as_u64(), n)));
                }
                if self.prov.len(*id).unwrap_or(u64::MAX) != prov_before.get(id).copied().unwrap_or(0) + n {
                    violations.push(("provenance_not_advanced_by_commits".into(), "provenance length did not grow by the number of commits".into()));
                }
            }
            let committed: Vec<WriterHeadKey> = steps.iter().map(|s| s.head_key).collect();
            if committed != due {
                let want: Vec<String> = due.iter().map(|k| self.head_of_key(k)).collect();
                let got: Vec<String> = committed.iter().map(|k| self.head_of_key(k)).collect();
                violations.push(("due_heads_not_committed".into(), format!("due heads {want:?}, committed {got:?} (quarantined: {})", quarantined_before.len())));
            }
        }
        TickOutcome { ok, err, steps, rejected, violations, fail_scope }
    }

    /// Committed-ingress membership observed through the public API on a scratch clone: with every
    /// pending envelope evicted and a reject-all filter installed, `ingest` answers `Duplicate`
    /// exactly for (head, ingress id) pairs in the committed ledger.
    pub fn committed_set(&self) -> BTreeSet<String> {
        let mut probe = self.rt.clone();
        for (w, k) in &self.heads {
            probe.verif_set_inbox_policy(&head_key(*w, *k), InboxPolicy::KindFilter(BTreeSet::new()));
        }
        let mut out = BTreeSet::new();
        for ((w, k), kind, name) in &self.known {
            let env = envelope(IngressTarget::ExactHead { key: head_key(*w, *k) }, kind, name);
            if let Ok(IngressDisposition::Duplicate { .. }) = probe.ingest(env) {
                out.insert(format!("{}/{}", head_name(*w, *k), name));
            }
        }
        out
    }

    /// Pending membership observed on a scratch clone: `Duplicate` and not committed.
    pub fn pending_set(&self, committed: &BTreeSet<String>) -> BTreeSet<String> {
        let mut probe = self.rt.clone();
        let mut out = BTreeSet::new();
        for ((w, k), kind, name) in &self.known {
            let tag = format!("{}/{}", head_name(*w, *k), name);
            if committed.contains(&tag) {
                continue;
            }
            let env = envelope(IngressTarget::ExactHead { key: head_key(*w, *k) }, kind, name);
            if let Ok(IngressDisposition::Duplicate { .. }) = probe.ingest(env) {
                out.insert(tag);
            }
        }
        out
    }

    /// The model-visible projection of the real objects (same shape as `Proj` in MC_C09.tla).
    pub fn projection(&self) -> Value {
        let nwl = self.topo.len() as u64;
        let mut tick = Vec::new();
        let mut tick_max = Vec::new();
        let mut prov = Vec::new();
        for w in 1..=nwl {
            let id = worldline_id(w);
            let t = self.rt.worldlines().get(&id).map(|f| f.frontier_tick()).unwrap_or(WorldlineTick::ZERO);
            let is_max = t == WorldlineTick::MAX;
            tick_max.push(is_max);
            tick.push(if is_max { self.saved_tick.get(&w).map(|t| t.as_u64()).unwrap_or(u64::MAX) } else { t.as_u64() });
            prov.push(self.prov.len(id).unwrap_or(u64::MAX));
        }
        let gt = self.rt.global_tick();
        let gt_max = gt == GlobalTick::MAX;
        let pend: Vec<usize> = self
            .heads
            .iter()
            .map(|(w, k)| self.rt.heads().get(&head_key(*w, *k)).map(|h| h.inbox().pending_count()).unwrap_or(usize::MAX))
            .collect();
        let comm = self.committed_set();
        let mut events = BTreeSet::new();
        for ((w, _k), kind, name) in &self.known {
            let id = worldline_id(*w);
            let env = envelope(IngressTarget::DefaultWriter { worldline_id: id }, kind, name);
            if let Some(f) = self.rt.worldlines().get(&id) {
                let st = f.state();
                if st.store(&st.root().warp_id).is_some_and(|s| s.node(&NodeId(env.ingress_id())).is_some()) {
                    events.insert(format!("{w}/{name}"));
                }
            }
        }
        let faults = self.faults_by_generation();
        let fj: Vec<Value> = faults
            .iter()
            .map(|f| {
                json!({"scope": self.scope_name(&f.scope),
                       "status": if f.status == SchedulerFaultStatus::Active { "active" } else { "resolved" }})
            })
            .collect();
        let faulted: BTreeSet<String> =
            self.heads.iter().filter(|(w, k)| self.rt.is_head_faulted(&head_key(*w, *k))).map(|(w, k)| head_name(*w, *k)).collect();
        let rt_fault = self
            .rt
            .scheduler_runtime_fault()
            .and_then(|r| faults.iter().position(|f| f.fault_id == r.fault_id))
            .map(|p| p + 1)
            .unwrap_or(0);
        let mut corr = BTreeSet::new();
        for (((w, k), name), sub) in &self.submissions {
            if let Some(c) = self.rt.receipt_correlation_for_submission(sub) {
                corr.insert(format!("{}/{}@{},{}", head_name(*w, *k), name, c.worldline_tick_after.as_u64(), c.commit_global_tick.as_u64()));
            }
        }
        let runnable: Vec<String> = SchedulerCoordinator::peek_order(&self.rt).iter().map(|k| self.head_of_key(k)).collect();
        json!({
            "tick": tick, "tickMax": tick_max, "gt": if gt_max { self.saved_gt.map(|g| g.as_u64()).unwrap_or(u64::MAX) } else { gt.as_u64() },
            "gtMax": gt_max, "prov": prov, "pend": pend, "comm": comm, "events": events, "faults": fj, "faulted": faulted,
            "rtFault": rt_fault, "corr": corr, "wpend": self.rt.pending_witnessed_submission_count(),
            "staged": self.rt.ticketed_runtime_ingress_count(), "witnessed": self.rt.witnessed_submission_count(),
            "runnable": runnable,
        })
    }
}

/// Normalises a projection for comparison: sets arrive from TLC as arrays in arbitrary order, and
/// their elements as records ({h,i} / {w,i} / {h,i,ta,gt}) which are flattened to the harness' tags.
pub fn norm_proj(v: &Value) -> Value {
    let mut o = v.clone();
    for key in ["comm", "events", "faulted", "corr"] {
        if let Some(a) = o.get(key).and_then(|x| x.as_array()).cloned() {
            let mut s: Vec<String> = a
                .iter()
                .map(|x| match x {
                    Value::String(t) => t.clone(),
                    Value::Object(m) => {
                        let i = m.get("i").and_then(Value::as_str).unwrap_or("");
                        if let Some(h) = m.get("h").and_then(Value::as_str) {
                            match (m.get("ta").and_then(Value::as_u64), m.get("gt").and_then(Value::as_u64)) {
                                (Some(ta), Some(gt)) => format!("{h}/{i}@{ta},{gt}"),
                                _ => format!("{h}/{i}"),
                            }
                        } else {
                            format!("{}/{i}", m.get("w").and_then(Value::as_u64).unwrap_or(0))
                        }
                    }
                    other => other.to_string(),
                })
                .collect();
            s.sort();
            o[key] = json!(s);
        }
    }
    o
}

pub fn diff_values(want: &Value, got: &Value) -> Vec<String> {
    let mut out = Vec::new();
    if let (Some(a), Some(b)) = (want.as_object(), got.as_object()) {
        let keys: BTreeSet<&String> = a.keys().chain(b.keys()).collect();
        for k in keys {
            let x = a.get(k).unwrap_or(&Value::Null);
            let y = b.get(k).unwrap_or(&Value::Null);
            if x != y {
                out.push(format!("{k}: model {x} real {y}"));
            }
        }
    } else if want != got {
        out.push(format!("model {want} real {got}"));
    }
    out
}

// ------------------------------------------------------------------------------------------
// replay of one exported behaviour
// ------------------------------------------------------------------------------------------

fn step_json(w: &World, t: &TickOutcome) -> Value {
    let steps: Vec<Value> = t
        .steps
        .iter()
        .enumerate()
        .map(|(i, s)| {
            json!({"head": w.head_of_key(&s.head_key), "n": s.admitted_count, "tickAfter": s.worldline_tick_after.as_u64(),
                   "gt": s.commit_global_tick.as_u64(), "rejected": t.rejected.get(i).copied().unwrap_or(0)})
        })
        .collect();
    json!({"ok": t.ok, "err": t.err, "steps": steps, "scope": t.fail_scope})
}

pub fn check_case(v: &Value, workers: usize) -> Value {
    let topo: Vec<u64> = v["topo"].as_array().map(|a| a.iter().filter_map(Value::as_u64).collect()).unwrap_or_default();
    let mut w = match World::new(&topo, workers, &BTreeMap::new()) {
        Ok(w) => w,
        Err(e) => return json!({"verdict": "tool_error", "detail": e}),
    };
    let model_heads: Vec<String> = v["heads"].as_array().map(|a| a.iter().filter_map(|x| x.as_str().map(str::to_string)).collect()).unwrap_or_default();
    let real_heads: Vec<String> = w.heads.iter().map(|(a, b)| head_name(*a, *b)).collect();
    if model_heads != real_heads {
        return json!({"verdict": "tool_error", "detail": format!("canonical head order: model {model_heads:?} real {real_heads:?} (stale rank table?)")});
    }
    let hist = v["hist"].as_array().cloned().unwrap_or_default();
    let mut drift: Vec<String> = Vec::new();
    let mut violations: Vec<Value> = Vec::new();
    let mut stats = json!({"ticks": 0, "failed": 0, "panics": 0, "head_faults": 0, "runtime_faults": 0, "rejections": 0, "refused": 0,
                           "commits": 0, "quarantine_skips": 0});
    let bump = |s: &mut Value, k: &str, n: u64| {
        let c = s[k].as_u64().unwrap_or(0);
        s[k] = json!(c + n);
    };
    for (idx, h) in hist.iter().enumerate() {
        let a = &h["a"];
        let want_r = &h["r"];
        let act = a["a"].as_str().unwrap_or("");
        let name = a["i"].as_str().unwrap_or("");
        let kind = a["k"].as_str().unwrap_or("kA");
        let got_r: Value = match act {
            "ingest" => w.ingest(&a["tg"], kind, name),
            "submit" => w.submit(&a["tg"], kind, name),
            "stage" => match w.stage(&a["tg"], kind, name, &head_of_target(&a["tg"]), a["t"].as_str().unwrap_or("")) {
                Ok(r) => r,
                Err(e) => return json!({"verdict": "tool_error", "detail": e}),
            },
            "elig" => {
                let (hw, hk) = parse_head(a["h"].as_str().unwrap_or(""));
                let e = if a["v"] == "dormant" { HeadEligibility::Dormant } else { HeadEligibility::Admitted };
                match w.rt.set_head_eligibility(head_key(hw, hk), e) {
                    Ok(()) => json!({"ok": true, "err": ""}),
                    Err(e) => json!({"ok": false, "err": err_name(&e)}),
                }
            }
            "arm" => {
                ARMED.store(a["v"].as_bool().unwrap_or(true), Ordering::SeqCst);
                json!({"ok": true, "err": ""})
            }
            "tickmax" => match w.set_tick_max(a["w"].as_u64().unwrap_or(0), a["v"].as_bool().unwrap_or(false)) {
                Ok(()) => json!({"ok": true, "err": ""}),
                Err(e) => return json!({"verdict": "tool_error", "detail": e}),
            },
            "gtmax" => {
                w.set_gt_max(a["v"].as_bool().unwrap_or(false));
                json!({"ok": true, "err": ""})
            }
            "provinject" => match w.prov_inject(a["w"].as_u64().unwrap_or(0)) {
                Ok(()) => json!({"ok": true, "err": ""}),
                Err(e) => return json!({"verdict": "tool_error", "detail": e}),
            },
            "provrepair" => match w.prov_repair(a["w"].as_u64().unwrap_or(0)) {
                Ok(()) => json!({"ok": true, "err": ""}),
                Err(e) => return json!({"verdict": "tool_error", "detail": e}),
            },
            "resolve" => {
                let before = fingerprint(&w.rt, &w.prov, &w.engine);
                let r = match w.resolve(a["f"].as_u64().unwrap_or(0) as usize) {
                    Ok(r) => r,
                    Err(e) => return json!({"verdict": "tool_error", "detail": e}),
                };
                if r["ok"] == false {
                    let after = fingerprint(&w.rt, &w.prov, &w.engine);
                    for d in diff_fingerprints(&before, &after, INSTRUMENTATION_MASK) {
                        violations.push(json!({"kind": "rejected_recovery_changed_state", "step": idx, "detail": d}));
                    }
                }
                r
            }
            "tick" => {
                let quarantined = w.heads.iter().filter(|(a, b)| w.rt.is_head_faulted(&head_key(*a, *b))).count() as u64;
                let t = w.tick();
                for (k, d) in &t.violations {
                    violations.push(json!({"kind": k, "step": idx, "detail": d}));
                }
                bump(&mut stats, "ticks", 1);
                bump(&mut stats, "commits", t.steps.len() as u64);
                bump(&mut stats, "rejections", t.rejected.iter().map(|x| *x as u64).sum());
                if t.ok && quarantined > 0 && !t.steps.is_empty() {
                    bump(&mut stats, "quarantine_skips", 1);
                }
                if !t.ok {
                    bump(&mut stats, "failed", 1);
                    if t.err == "Panic" {
                        bump(&mut stats, "panics", 1);
                    }
                    if t.err == "SchedulerRuntimeFaultActive" {
                        bump(&mut stats, "refused", 1);
                    } else if t.fail_scope == "runtime" {
                        bump(&mut stats, "runtime_faults", 1);
                    } else if t.fail_scope != "none" {
                        bump(&mut stats, "head_faults", 1);
                    }
                }
                // a predicted failure that does not happen means the injection did not fire: vacuous
                if want_r["ok"] == false && t.ok {
                    // ... unless the pass itself already broke the property (e.g. a due, unrelated head was
                    // skipped so the failing head never ran): that is a violation, not a vacuous injection
                    if !violations.is_empty() {
                        return json!({"verdict": "violation", "kind": violations[0]["kind"], "detail": violations, "drift": drift, "stats": stats});
                    }
                    return json!({"verdict": "vacuous", "detail": format!("step {idx}: model predicts {} but the real pass succeeded (fault injection did not fire)", want_r["err"])});
                }
                let got = step_json(&w, &t);
                // model comparison of the pass result: ok flag, error class, scope, committed steps
                let mut want_cmp = json!({"ok": want_r["ok"], "err": want_r["err"], "steps": want_r["steps"],
                                          "scope": want_r["scope"]});
                if want_cmp["err"] == "Engine" || want_cmp["err"] == "Provenance" {
                    // typed error classes: the real name is the RuntimeError variant
                }
                if t.ok {
                    want_cmp["scope"] = json!("none");
                }
                if !t.ok {
                    // steps of a failed pass are not observable through the API
                    want_cmp["steps"] = json!([]);
                }
                if want_cmp["err"] == "SchedulerRuntimeFaultActive" {
                    want_cmp["scope"] = json!("none");
                }
                // the classification head-scoped vs runtime-scoped is the model's transcription of the
                // documented design; a failure the design isolates to its head must not quarantine the
                // whole runtime ("without blocking unrelated heads")
                if !t.ok && t.fail_scope == "runtime" && want_cmp["scope"] != "runtime" && want_cmp["scope"] != "none" {
                    violations.push(json!({"kind": "head_scoped_failure_quarantined_runtime", "step": idx,
                        "detail": format!("{} at head {} is head-scoped by design but the runtime recorded a runtime-wide fault: unrelated heads are blocked", t.err, want_cmp["scope"])}));
                }
                let d = diff_values(&want_cmp, &got);
                if !d.is_empty() {
                    drift.push(format!("step {idx} tick result: {}", d.join("; ")));
                }
                Value::Null
            }
            other => return json!({"verdict": "tool_error", "detail": format!("unknown action {other}")}),
        };
        if act != "tick" {
            let d = diff_values(want_r, &got_r);
            if !d.is_empty() {
                drift.push(format!("step {idx} {act} result: {}", d.join("; ")));
            }
        }
        let want_s = norm_proj(&h["s"]);
        let got_s = norm_proj(&w.projection());
        let d = diff_values(&want_s, &got_s);
        if !d.is_empty() {
            drift.push(format!("step {idx} after {act}: {}", d.join("; ")));
        }
        if !drift.is_empty() || !violations.is_empty() {
            break;
        }
    }
    if !violations.is_empty() {
        return json!({"verdict": "violation", "kind": violations[0]["kind"], "detail": violations, "drift": drift, "stats": stats});
    }
    json!({"verdict": "ok", "drift": drift, "stats": stats})
}

/// The fingerprint splitter and the mask must name real fields of `WorldlineRuntime`; otherwise a
/// renamed field would silently escape (or be silently masked from) the all-or-nothing comparison.
pub fn selfcheck() -> Result<Vec<String>, String> {
    let w = World::new(&[1], 1, &BTreeMap::new())?;
    let fp = fingerprint(&w.rt, &w.prov, &w.engine);
    let names: Vec<String> = fp.runtime.keys().cloned().collect();
    for m in RUNTIME_MASK {
        if !fp.runtime.contains_key(*m) {
            return Err(format!("masked field `{m}` is not a field of WorldlineRuntime's Debug rendering: {names:?}"));
        }
    }
    for need in ["worldlines", "heads", "global_tick", "witnessed_submissions", "pending_witnessed_submission_ids",
                 "ticketed_runtime_ingress", "receipt_correlations_by_ticketed_ingress", "receipt_correlation_by_submission",
                 "receipt_correlation_by_ticket", "receipt_correlation_by_receipt_ref", "receipt_correlations_by_current_basis",
                 "default_writers", "public_inboxes", "strands"] {
        if !fp.runtime.contains_key(need) {
            return Err(format!("expected field `{need}` missing from the fingerprint split: {names:?}"));
        }
    }
    if fp.provenance.is_empty() || !fp.engine.contains("tx_counter=") {
        return Err("provenance / engine fingerprint is empty".to_string());
    }
    Ok(names)
}

pub fn run(args: &[String]) -> i32 {
    if args.len() < 2 {
        eprintln!("usage: echo-verif c09 <cases.ndjson> <results.ndjson>");
        return 2;
    }
    if let Err(e) = selfcheck() {
        eprintln!("c09 self-check failed: {e}");
        return 2;
    }
    let workers: usize = std::env::var("VERIF_RT_WORKERS").ok().and_then(|x| x.parse().ok()).unwrap_or(1);
    let mut out = util::Out::create(&args[1]);
    for (_i, v) in util::read_lines(&args[0]) {
        let r = match util::catch(|| check_case(&v, workers)) {
            Ok(r) => r,
            Err(p) => json!({"verdict": "tool_error", "detail": format!("harness panic: {p}")}),
        };
        out.line(&r);
    }
    out.finish();
    0
}

pub fn run_ranks() -> i32 {
    let fields = match selfcheck() {
        Ok(f) => f,
        Err(e) => {
            eprintln!("self-check failed: {e}");
            return 2;
        }
    };
    println!("{}", json!({"heads": head_rank_table(), "mask": RUNTIME_MASK, "runtime_fields": fields}));
    0
}
