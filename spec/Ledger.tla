------------------------------- MODULE Ledger -------------------------------
(***************************************************************************)
(* Multi-tick engine histories and the engine's own ledger / replay        *)
(* surface.  Tick.tla models ONE tick as a function of (pre-state,         *)
(* candidate set); this module models one `Engine` over a whole history:   *)
(*   begin / apply / commit_with_receipt / abort, repeated on one engine,  *)
(*   the ledger `tick_history` (`get_ledger()`), the commit chain          *)
(*   (`Snapshot.parents` = hash of the previous snapshot), `snapshot()`,   *)
(*   `jump_to_tick(k)` (fold of the recorded patches from the preserved    *)
(*   initial state U0) and `slice_worldline_indices` (which ticks the      *)
(*   final value of a slot depends on).                                    *)
(* Transcribed from                                                        *)
(*   crates/warp-core/src/engine_impl.rs  (Engine::begin, apply_in_warp,   *)
(*        commit_with_receipt, abort, snapshot, get_ledger, jump_to_tick,  *)
(*        extend_slots_from_footprint)                                     *)
(*   crates/warp-core/src/snapshot.rs     (Snapshot, compute_commit_hash_v2*)
(*        : commit id = H(state_root, parents, patch_digest, policy))      *)
(*   crates/warp-core/src/tick_patch.rs   (WarpTickPatchV1: policy, rule   *)
(*        pack, in_slots, out_slots, ops; SlotId; slice_worldline_indices, *)
(*        producer_before)                                                 *)
(*   crates/warp-core/src/worldline.rs    (WorldlineTickPatchV1::          *)
(*        apply_to_worldline_state = apply_ops_to_state on the full state) *)
(*                                                                         *)
(* The engine is a record; every entry point is a state FUNCTION           *)
(* (DoBegin, DoApply, DoCommit, DoAbort, DoJump) so that a model-checking  *)
(* module can compose them into macro steps (MC_C04l.tla) and the laws can *)
(* be stated over any engine value.  Hashes are injective constructors.    *)
(***************************************************************************)
EXTENDS Tick

CONSTANTS Root         \* <<warp, node>>: Engine.current_root; the state root is a function of Canon(state, Root)

(***************************************************************************)
(* Slots (tick_patch.rs SlotId): Node(NodeKey) | Edge(EdgeKey) |           *)
(* Attachment(AttachmentKey).  Ports do not occur in this program language.*)
(***************************************************************************)
SlotNode(k) == <<"node", k[1], k[2]>>
SlotEdge(k) == <<"edge", k[1], k[2]>>
SlotAtt(k)  == <<"att", k[1], k[2], k[3]>>          \* k = <<"n"|"e", warp, id>>

AllSlots == {SlotNode(NKey(w, n)) : w \in Warps, n \in Nodes}
            \cup {SlotEdge(EKey(w, e)) : w \in Warps, e \in Edges}
            \cup {SlotAtt(k) : k \in AttKeys}

\* the value a slot holds in a state ("absent" = None)
SlotValue(s, slot) ==
  CASE slot[1] = "node" -> Get(s.node, NKey(slot[2], slot[3]))
    [] slot[1] = "edge" -> Get(s.edge, EKey(slot[2], slot[3]))
    [] slot[1] = "att"  -> AttGet(s, <<slot[2], slot[3], slot[4]>>)

\* extend_slots_from_footprint over the footprints of the ACCEPTED rewrites:
\* every read and every write is an in-slot, every write is an out-slot
SlotsIn(F) ==
  {SlotNode(k) : k \in UNION {f.nr \cup f.nw : f \in F}}
  \cup {SlotEdge(k) : k \in UNION {f.er \cup f.ew : f \in F}}
  \cup {SlotAtt(k) : k \in UNION {f.ar \cup f.aw : f \in F}}
SlotsOut(F) ==
  {SlotNode(k) : k \in UNION {f.nw : f \in F}}
  \cup {SlotEdge(k) : k \in UNION {f.ew : f \in F}}
  \cup {SlotAtt(k) : k \in UNION {f.aw : f \in F}}

(***************************************************************************)
(* Commit ids.  compute_commit_hash_v2(state_root, parents, patch_digest,  *)
(* policy); patch_digest covers (policy, rule pack, status, in_slots,      *)
(* out_slots, ops); state_root covers Canon(state, Root).  Policy and rule *)
(* pack are constants of one engine.  A tuple is an injective constructor. *)
(***************************************************************************)
CommitIdC(parent, cn, patch, ins, outs) == <<"commit", parent, cn, patch, ins, outs>>
CommitId(parent, s, patch, ins, outs)  == CommitIdC(parent, Canon(s, Root), patch, ins, outs)

(***************************************************************************)
(* The engine                                                              *)
(***************************************************************************)
\* u0     : initial_state, preserved for jump_to_tick
\* state  : the live WarpState
\* ledger : tick_history, one record per committed tick
\* last   : last_snapshot (its commit id), None before the first commit
\* txc    : tx_counter;  live : live_txs;  pend : scheduler.pending (tx -> candidate SET; the order and
\*          repetition of enqueues is C01's concern: the outcome is a function of the set)
NewEngine(u0) == [u0 |-> u0, state |-> u0, ledger |-> <<>>, last |-> None, txc |-> 0, live |-> {},
                  pend |-> [x \in {} |-> {}]]

\* Engine::begin
DoBegin(e) == [e EXCEPT !.txc = @ + 1, !.live = @ \cup {e.txc + 1}, !.pend = Upd(@, e.txc + 1, {})]
NewTx(e)   == e.txc + 1

\* Engine::apply_in_warp: UnknownTx / UnknownWarp / NoMatch enqueue nothing
DoApply(e, tx, c) ==
  IF tx \notin e.live \/ ~Matches(c, e.state) THEN e
  ELSE [e EXCEPT !.pend = Upd(@, tx, e.pend[tx] \cup {c})]

RECURSIVE DoApplySeq(_, _, _, _)
DoApplySeq(e, tx, cs, i) == IF i > Len(cs) THEN e ELSE DoApplySeq(DoApply(e, tx, cs[i]), tx, cs, i + 1)
DoApplyAll(e, tx, S) == DoApplySeq(e, tx, SetToSortSeq(S, CandLess), 1)

\* the tick the engine would commit for tx (Tick.tla oracle on the LIVE state)
PendingOracle(e, tx) == TickOracle(e.state, e.pend[tx])
\* commit_with_receipt returns Ok.  (When the merged ops do not apply the engine reports
\* InternalCorruption; such ticks are outside this model.)
CommitOk(e, tx) == tx \in e.live /\ PendingOracle(e, tx).ok

\* Engine::commit_with_receipt.  `canon` is the content the snapshot's state_root commits to (kept in the record so
\* that it is computed once per tick); `ok` = the merged ops applied.
TickRecord(e, tx) ==
  LET o     == PendingOracle(e, tx)
      fps   == {CandFP(c, e.state) : c \in o.accepted}
      patch == Diff(e.state, o.post)              \* diff_state(state_before, state)
      ins   == SlotsIn(fps)
      outs  == SlotsOut(fps)
      cn    == Canon(o.post, Root)
  IN [tx |-> tx, cands |-> e.pend[tx], order |-> o.order, acc |-> o.acc, accepted |-> o.accepted, ok |-> o.ok,
      pre |-> e.state, post |-> o.post, canon |-> cn, patch |-> patch, inSlots |-> ins, outSlots |-> outs,
      parent |-> e.last,                           \* parents = last_snapshot.hash, [] before the first commit
      commit |-> CommitIdC(e.last, cn, patch, ins, outs)]
CommitWith(e, tx, rec) ==
  [e EXCEPT !.state = rec.post, !.ledger = Append(@, rec), !.last = rec.commit,
            !.live = @ \ {tx}, !.pend = Del(@, tx)]
DoCommit(e, tx) == CommitWith(e, tx, TickRecord(e, tx))

\* commit_with_receipt returning Err (the merged ops of the accepted rewrites do not apply): the INTENDED law is
\* that nothing is committed - state, ledger and tip untouched; the transaction was drained and stays live until
\* the caller aborts it.  (As built the ops are applied in place, see the `fail` steps of MC_C04l.)
DoFailedCommit(e, tx) == [e EXCEPT !.pend = Upd(@, tx, {})]

\* Engine::abort: closes the transaction, drops its pending rewrites; state, ledger, last_snapshot untouched
DoAbort(e, tx) == [e EXCEPT !.live = @ \ {tx}, !.pend = Del(@, tx)]

\* Engine::snapshot(): commit-shaped id of the live state with an empty patch and the current tip as parent
SnapshotId(e) == CommitId(e.last, e.state, <<>>, {}, {})

(***************************************************************************)
(* Replay                                                                  *)
(***************************************************************************)
\* fold of patches over a state (WarpTickPatchV1::apply_to_state in sequence)
RECURSIVE ReplayRec(_, _, _)
ReplayRec(s, patches, i) ==
  IF i > Len(patches) THEN [ok |-> TRUE, s |-> s]
  ELSE LET r == ApplyOps(s, patches[i])
       IN IF r.ok THEN ReplayRec(r.s, patches, i + 1) ELSE [ok |-> FALSE, s |-> s]
Replay(s, patches) == ReplayRec(s, patches, 1)

PatchesOf(L, idx) == [i \in 1..Len(idx) |-> L[idx[i]].patch]
UpTo(k) == [i \in 1..k |-> i]

\* Engine::jump_to_tick(k-1) (the code counts from 0): state := U0, then patches 1..k
JumpTo(e, k) == Replay(e.u0, PatchesOf(e.ledger, UpTo(k)))
DoJump(e, k) == [e EXCEPT !.state = JumpTo(e, k).s]

\* the state recorded after tick k (k = 0: U0)
StateAfter(e, k) == IF k = 0 THEN e.u0 ELSE e.ledger[k].post
FinalState(e)    == StateAfter(e, Len(e.ledger))

(***************************************************************************)
(* Slicing (slice_worldline_indices).  Ticks are 1-based here; the target  *)
(* is consumed at tick Len(L)+1.                                           *)
(***************************************************************************)
MaxOf(S) == CHOOSE x \in S : \A y \in S : y <= x
\* producer_before: the last tick < consumer whose out_slots contain the slot; 0 = value comes from U0
ProducerBefore(L, slot, consumer) ==
  LET P == {i \in 1..Len(L) : i < consumer /\ slot \in L[i].outSlots}
  IN IF P = {} THEN 0 ELSE MaxOf(P)

\* the work-list loop, transcribed (work items <<slot, consumer tick>>, `seen`, `needed`)
RECURSIVE SliceLoop(_, _, _, _)
SliceLoop(L, work, seen, needed) ==
  IF work = {} THEN needed
  ELSE LET item == CHOOSE x \in work : TRUE
           rest == work \ {item}
       IN IF item \in seen THEN SliceLoop(L, rest, seen, needed)
          ELSE LET p == ProducerBefore(L, item[1], item[2])
               IN IF p = 0 THEN SliceLoop(L, rest, seen \cup {item}, needed)
                  ELSE IF p \in needed THEN SliceLoop(L, rest, seen \cup {item}, needed)
                  ELSE SliceLoop(L, rest \cup {<<s, p>> : s \in L[p].inSlots}, seen \cup {item}, needed \cup {p})
SliceFor(L, slot) == SliceLoop(L, {<<slot, Len(L) + 1>>}, {}, {})

\* the same set, declaratively: least set closed under "the producer of a slot read or written by a needed tick"
RECURSIVE SliceClose(_, _)
SliceClose(L, N) ==
  LET N2 == N \cup ({ProducerBefore(L, s, t) : <<s, t>> \in {<<s, t>> \in AllSlots \X N : s \in L[t].inSlots}} \ {0})
  IN IF N2 = N THEN N ELSE SliceClose(L, N2)
SliceDecl(L, slot) ==
  LET p == ProducerBefore(L, slot, Len(L) + 1) IN IF p = 0 THEN {} ELSE SliceClose(L, {p})

\* replay of only the sliced ticks, in ascending order, from U0
SliceReplay(e, slot) == Replay(e.u0, PatchesOf(e.ledger, SetToSortSeq(SliceFor(e.ledger, slot), LAMBDA a, b : a < b)))

(***************************************************************************)
(* Laws (over any engine value reached by the entry points above)          *)
(***************************************************************************)
\* C04 for EVERY committed tick of the history: the patch of tick k applied to the state the tick started from
\* gives exactly the state the tick produced ...
PatchStepLaw(e) ==
  \A k \in 1..Len(e.ledger) :
    LET r == ApplyOps(e.ledger[k].pre, e.ledger[k].patch) IN r.ok /\ r.s = e.ledger[k].post
\* ... and the ledger is a LINEAR history: tick k started from the state tick k-1 produced (U0 for the first)
LinearLaw(e) == \A k \in 1..Len(e.ledger) : e.ledger[k].pre = StateAfter(e, k - 1)

\* jump_to_tick(k) reproduces the state the live engine held after tick k
JumpLaw(e) == \A k \in 1..Len(e.ledger) : LET r == JumpTo(e, k) IN r.ok /\ r.s = e.ledger[k].post

\* the commit chain: the first commit has no parent, every later one names its predecessor; the engine's tip is
\* the last commit; ids of different ticks differ
ChainLaw(e) ==
  /\ \A k \in 1..Len(e.ledger) : e.ledger[k].parent = IF k = 1 THEN None ELSE e.ledger[k - 1].commit
  /\ e.last = IF e.ledger = <<>> THEN None ELSE e.ledger[Len(e.ledger)].commit
  /\ \A j, k \in 1..Len(e.ledger) : j # k => e.ledger[j].commit # e.ledger[k].commit

\* what a transaction may leave behind when it is aborted: nothing but the consumed tx number
SameButTx(e1, e2) == /\ e1.state = e2.state /\ e1.ledger = e2.ledger /\ e1.last = e2.last /\ e1.u0 = e2.u0
                     /\ e1.live = e2.live /\ e1.pend = e2.pend

\* the two transcriptions of the slice agree
SliceDefsAgree(e) == \A slot \in AllSlots : SliceFor(e.ledger, slot) = SliceDecl(e.ledger, slot)

\* the slice theorem: replaying only SliceFor(slot) from U0 yields the slot's final value ...
SliceHolds(e, slot) == LET r == SliceReplay(e, slot) IN r.ok /\ SlotValue(r.s, slot) = SlotValue(FinalState(e), slot)
SliceTheorem(e)     == \A slot \in AllSlots : SliceHolds(e, slot)
\* ... and its weak form: a sliced replay that applies cleanly never yields a different value
SliceWeak(e) == \A slot \in AllSlots :
                  LET r == SliceReplay(e, slot) IN r.ok => SlotValue(r.s, slot) = SlotValue(FinalState(e), slot)
\* a slot no tick produced still holds its U0 value (nothing is written outside the declared out-slots)
UnproducedKeepsU0(e) == \A slot \in AllSlots :
                          ProducerBefore(e.ledger, slot, Len(e.ledger) + 1) = 0
                            => SlotValue(FinalState(e), slot) = SlotValue(e.u0, slot)
=============================================================================
