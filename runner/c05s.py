"""C05, transport leg - witnessed suffix bundles and boundary transition records.

MC : MC_C05s.tla over SuffixTransport.tla (on top of Provenance.tla, fixed store of MC_C05.tla: worldline a with 3
     entries, its fork sibling f, the independent worldline b).  Behaviours: importer basis state (its copy of a:
     empty, every prefix, the sibling's continuation under a's id; its copy of f: the fork point only / the full
     sibling) -> Export(a, from, to, boundary witness) for every range incl. empty and open -> Transport ->
     Tamper(part, field, variant, index, redigest) over every field of bundle / shell / source coordinates /
     transported entries / BTR header and payload / the importer's request (+ consistently rebuilt donor packages)
     -> EvaluateAdmission(target) -> Import -> Import.  Invariants: the untampered outcome per basis state (stated
     independently of the posture function), exactly the exporter's suffix after an admission, tamper-evidence for
     the bound fields, donor packages only as the donor's own history, fork lineage rule, only verified history is
     retained, shell-level refusal of raw alterations, an admission names a held basis, BTR evidence; action
     properties: evaluation pure, exporter untouched, import append-only, re-import changes nothing.
     Export obstruction cases (request x export context x boundary witness) are enumerated as well.
RP : every terminal behaviour and every export case is replayed on REAL values (harness/src/c05s.rs): real history
     from the runtime, real export_suffix / build_btr, the tamper applied to the real structs, real import_suffix /
     evaluate_witnessed_suffix_admission / append_local_commit / replay / validate_btr, the real
     cmd/import_suffix_intent rule through a runtime tick.  The property is decided on the real outcome; differences
     from the model's prediction that keep the property are drift.
MR : decided here: the real shell digest is an injective function of the abstract shell content the model derives
     (equal content => equal digest, different => different), likewise the derived bundle digest of
     (base frontier, target frontier, witness digest claim).
"""
import json
import os

from lib import *

P = "transport:"
CFG = {"quick": "MC_C05s_quick.cfg", "thorough": "MC_C05s_thorough.cfg"}


def canon(o):
    return json.dumps(o, sort_keys=True, separators=(",", ":"))


class Rel:
    """abstract key <-> real hash; reports keys with two hashes and hashes with two keys"""

    def __init__(self, name):
        self.name = name
        self.fwd = {}
        self.bwd = {}
        self.bad = []

    def add(self, key, h, wit):
        a = self.fwd.setdefault(key, (h, wit))
        if a[0] != h and len(self.bad) < 5:
            self.bad.append(("not_a_function", key, [a, (h, wit)]))
        b = self.bwd.setdefault(h, (key, wit))
        if b[0] != key and len(self.bad) < 5:
            self.bad.append(("collision", h, [b, (key, wit)]))


def slim(c):
    return {k: c.get(k) for k in ("kind", "from", "to", "bw", "a", "f", "tw", "part", "field", "variant", "idx", "rd", "req", "ctx") if c.get(k) is not None}


def run_leg(ck, binp, tier, replay=None):
    if replay:
        obj = json.load(open(replay))["case"]
        if obj.get("leg") == "transport_spec":        # a violation of the model itself: run the model again
            return run_leg(ck, binp, "thorough" if "thorough" in obj.get("cfg", "") else "quick", None)
        if obj.get("leg") != "transport":
            return
        store, cases = obj["store"], obj["cases"]
        for c in cases:
            c.setdefault("nopred", "exec" not in c and "ok" not in c)
    else:
        cfg = CFG[tier]
        res = tlc("MC_C05s", cfg, workers=4, timeout=3600 if tier == "quick" else 14400, tags=("CASE", "STORE"),
                  out_name="c05s_" + tier, heap="8g")
        ck.add_tlc(res)
        if res.violation:
            ck.violation(f"{P}spec:{cfg.replace('.cfg', '')}:{res.violation}", "TLC property violated on the transport model:\n" + res.error_text[:3000],
                         {"leg": "transport_spec", "cfg": cfg, "invariant": res.violation, "trace": res.error_text[:20000]})
            return
        stores = [o for t, o in res.lines if t == "STORE"]
        cases = [o for t, o in res.lines if t == "CASE"]
        res.lines = []
        if not stores or len(cases) < 1000:
            raise ToolError(f"{cfg}: nothing exported ({len(cases)} cases)")
        store = dict(stores[0], kind="store")
        cases.sort(key=canon)
    cin = write_ndjson(os.path.join(WORK, "c05s.cases"), [store] + cases + [{"kind": "report_probe"}, {"kind": "final"}])
    cout = os.path.join(WORK, "c05s.results")
    env = {"VERIF_C05S_PROBE_ALL": "1"} if tier == "thorough" else None
    harness(binp, ["c05s", cin, cout], timeout=7200, env=env)
    results = read_ndjson(cout)
    if len(results) != len(cases) + 3:
        raise ToolError("c05s: harness result count mismatch")
    head, probe, final = results[0], results[-2], results[-1]
    if probe["verdict"] == "tool_error":
        raise ToolError(f"c05s report probe: {probe.get('detail')}")
    if head["verdict"] == "tool_error":
        raise ToolError(f"c05s: the model's store could not be produced by the real runtime: {head.get('detail')}")
    if head.get("findings"):
        # the runtime's own history does not verify: reported by the main leg from the same store; nothing to transport
        ck.notes.append({"transport_leg_skipped": "the untampered store did not verify", "findings": [f["key"] for f in head["findings"]][:4]})
        return

    seen = {}
    drift = 0
    nontrivial = 0
    classes = {}
    evals = {}
    parts = {}
    xstats = {"bundle": 0, "obstructed": 0}
    rel_shell, rel_bundle = Rel("shell_digest"), Rel("bundle_digest")

    def report(findings, c):
        for f in findings:
            k = f["key"]
            seen[k] = seen.get(k, 0) + 1
            if seen[k] == 1:
                ck.violation(k, f["detail"], {"leg": "transport", "store": store, "cases": [c]})

    report(final.get("findings", []), {"kind": "final"})
    report(probe.get("findings", []), {"kind": "report_probe"})
    for c, r in zip(cases, results[1:-2]):
        if r["verdict"] == "tool_error":
            raise ToolError(f"c05s case {slim(c)}: {r.get('detail')}")
        if r["verdict"] == "skip":
            continue
        report(r.get("findings", []), c)
        if r.get("drift"):
            drift += 1
            if sum(1 for n in ck.notes if "transport_model_drift" in n) < 6:
                ck.notes.append({"transport_model_drift": r["drift"][:3], "case": slim(c)})
        if c["kind"] == "xcase":
            xstats["bundle" if r.get("ok") else "obstructed"] += 1
            if r.get("ok") and c.get("ok"):
                rel_shell.add(canon(c["shell_key"]), r["wd"], slim(c))
                rel_bundle.add(canon(c["bundle_key"]), r["bd"], slim(c))
            continue
        o = r.get("observed", {})
        classes[o.get("exec")] = classes.get(o.get("exec"), 0) + 1
        ek = c.get("eval", {}).get("class", "?") + ("/" + c["eval"]["why"] if c.get("eval", {}).get("why") else "")
        evals[ek] = evals.get(ek, 0) + 1
        parts[c["part"]] = parts.get(c["part"], 0) + 1
        if c["part"] != "none" and (not o.get("changed") or r.get("findings")):
            nontrivial += 1
        if "shell_key" in c and "wd" in r:
            rel_shell.add(canon(c["shell_key"]), r["wd"], slim(c))
            rel_bundle.add(canon(c["bundle_key"]), r["bd"], slim(c))
    for rel in (rel_shell, rel_bundle):
        for what, k, ws in rel.bad:
            key = f"{P}mr:{rel.name}_not_a_function_of_content" if what == "not_a_function" else f"{P}mr:{rel.name}_collision"
            seen[key] = seen.get(key, 0) + 1
            if seen[key] > 1:
                continue
            if what == "not_a_function":
                ck.violation(f"{P}mr:{rel.name}_not_a_function_of_content",
                             f"same abstract content, different real {rel.name}: {k[:500]}: {ws[0][0][:16]} ({ws[0][1]}) vs {ws[1][0][:16]} ({ws[1][1]})",
                             {"leg": "transport", "store": store, "cases": [c for c in cases if slim(c) in (ws[0][1], ws[1][1])][:2]})
            else:
                ck.violation(f"{P}mr:{rel.name}_collision",
                             f"different abstract contents share the real {rel.name} {k[:16]}: {ws[0][0][:400]} ({ws[0][1]}) vs {ws[1][0][:400]} ({ws[1][1]})",
                             {"leg": "transport", "store": store, "cases": [c for c in cases if slim(c) in (ws[0][1], ws[1][1])][:2]})
    # vacuity guards (clean full runs only)
    if not replay and not [k for k in seen if k.startswith(P)]:
        for need in ("admitted", "duplicate", "obstructed", "staged", "plural", "conflict:BaseDivergence", "conflict:UnsupportedImport",
                     "refused:PackageEntryMismatch", "refused:ParentCommitHashMismatch", "refused:CommitHashMismatch", "refused:StateRootMismatch"):
            if not classes.get(need):
                raise ToolError(f"c05s: vacuous replay, no real import of class {need}: {classes}")
        for need in ("obstructed/digest", "obstructed/bundle_digest", "obstructed/basis", "obstructed/bounds", "obstructed/entry", "obstructed/nowitness", "obstructed/report"):
            if not evals.get(need):
                raise ToolError(f"c05s: vacuous model, no evaluation of class {need}: {evals}")
        for need in ("none", "bundle", "shell", "refs", "ents", "btr", "btr.ents", "req", "compound"):
            if not parts.get(need):
                raise ToolError(f"c05s: no case for tamper part {need}")
        if not xstats["bundle"] or not xstats["obstructed"] or len(rel_shell.fwd) < 50 or final.get("probes", 0) < 20:
            raise ToolError(f"c05s: vacuous export / digest / intent-rule legs: {xstats}, {len(rel_shell.fwd)} shell contents, {final.get('probes')} probes")
    n = len(cases)
    ck.cov["traces_validated_against_impl"] += n
    ck.cov["evaluations"] += n
    ck.cov["distinct_nontrivial"] += nontrivial
    ck.cov["rule"] += ("; transport leg (%s): %d cases = every terminal behaviour of MC_C05s (importer basis state x export range x tamper x target, "
                       "each evaluated, imported and re-imported on real values, BTR validated where held / before / after) + every export case; "
                       "non-trivial = a tampered package that the real importer refuses or that changes an outcome" % (CFG.get(tier, "replay"), n))
    ck.cov["transport"] = {"cases": n, "import_classes": classes, "model_evaluation_classes": evals, "tamper_parts": parts, "export_cases": xstats,
                           "model_drift_cases": drift, "shell_digest_contents": len(rel_shell.fwd), "bundle_digest_contents": len(rel_bundle.fwd),
                           "import_intent_rule_probes": final.get("probes", 0), "finding_keys": seen,
                           "basis_report_fields": {f["field"]: f["class"] + ("" if f["abi_visible"] else " (not in the ABI projection)") for f in probe.get("fields", [])},
                           "basis_report_fields_outside_the_abi_projection_accepted": probe.get("abi_invisible_accepted", [])}
    mid = next((c for c in cases if c.get("part") == "refs" and c.get("rd") == "all"), None)
    if mid:
        ck.sample({"transport_case": slim(mid), "predicted": {k: mid.get(k) for k in ("eval", "exec", "reimport", "ticks", "btr_after")}}, limit=6)
    ck.assumptions += [
        "transport: the code under test is shape-only (a bundle carries provenance coordinates; import_suffix classifies, nothing is appended): the "
        "export context, the admission context (posture = SuffixTransport!Posture, answering from the importer's provenance store only) and the "
        "execution of an admission (append_local_commit + replay on a scratch copy, all or nothing) are the harness's, transcribed identically in the model",
        "transport: exporter = worldline a of the 3-worldline store (3 entries); ProvenanceEntry::as_ref coordinates, so the first entry (tick 0) can only be a "
        "base frontier, never part of a suffix; importer = replica with a in {empty, 3 prefixes, 2 diverged}, f in {fork point, full}, b intact",
        "transport: tampering = one field / one structural edit, optionally with the (unkeyed) digests recomputed; a package rebuilt consistently from a donor "
        "worldline is accepted only as the donor's own verified history (checked); the commit-hash byte order of two coordinates at one tick is never needed",
        "transport: a basis report is compared through its ABI projection (SettlementBasisReport), which is what the shell digest covers; strand_id and the slot "
        "identities of the footprints are not transported",
    ]
