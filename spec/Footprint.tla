----------------------------- MODULE Footprint -----------------------------
(***************************************************************************)
(* Footprints and the conflict relation of warp-core, transcribed from     *)
(*   crates/warp-core/src/footprint.rs   (Footprint, Footprint::independent)*)
(*   crates/warp-core/src/scheduler.rs   (RadixScheduler::has_conflict,    *)
(*                                         mark_all; LegacyScheduler)      *)
(*   crates/warp-core/src/engine_impl.rs (footprints_conflict - the blocker*)
(*                                         attribution predicate)          *)
(* Resource keys are warp-scoped values <<warp, local>>; nothing here      *)
(* depends on what a key is, only on equality.                             *)
(***************************************************************************)
EXTENDS Naturals, FiniteSets

\* A footprint: read/write sets per resource class, boundary ports, factor mask (set of bits).
FP(nr, nw, er, ew, ar, aw, bi, bo, mask) ==
  [nr |-> nr, nw |-> nw, er |-> er, ew |-> ew, ar |-> ar, aw |-> aw, bi |-> bi, bo |-> bo, mask |-> mask]
EmptyFP == FP({}, {}, {}, {}, {}, {}, {}, {}, {})

Meets(A, B) == A \cap B # {}

(***************************************************************************)
(* The law (C03 statement): two footprints conflict iff one writes what    *)
(* the other reads or writes (same node, edge or attachment), or they      *)
(* share any boundary port.                                                *)
(***************************************************************************)
Conflicts(a, b) ==
  \/ Meets(a.nw, b.nw \cup b.nr) \/ Meets(b.nw, a.nr)
  \/ Meets(a.ew, b.ew \cup b.er) \/ Meets(b.ew, a.er)
  \/ Meets(a.aw, b.aw \cup b.ar) \/ Meets(b.aw, a.ar)
  \/ Meets(a.bi \cup a.bo, b.bi \cup b.bo)

\* engine_impl.rs footprints_conflict (used to name blockers), clause by clause
FootprintsConflict(a, b) ==
  \/ Meets(a.bi, b.bi) \/ Meets(a.bi, b.bo) \/ Meets(a.bo, b.bi) \/ Meets(a.bo, b.bo)
  \/ Meets(a.ew, b.ew) \/ Meets(a.ew, b.er) \/ Meets(b.ew, a.er)
  \/ Meets(a.aw, b.aw) \/ Meets(a.aw, b.ar) \/ Meets(b.aw, a.ar)
  \/ Meets(a.nw, b.nw) \/ Meets(a.nw, b.nr) \/ Meets(b.nw, a.nr)

\* footprint.rs Footprint::independent (Legacy scheduler), incl. the factor-mask fast path
Independent(a, b) ==
  IF ~Meets(a.mask, b.mask) THEN TRUE
  ELSE ~FootprintsConflict(a, b)

(***************************************************************************)
(* Radix scheduler: generation-stamped active sets (ActiveFootprints)      *)
(***************************************************************************)
EmptyMarks == [nw |-> {}, nr |-> {}, ew |-> {}, er |-> {}, aw |-> {}, ar |-> {}, ports |-> {}]

\* RadixScheduler::has_conflict
HasConflict(m, f) ==
  \/ Meets(f.nw, m.nw \cup m.nr) \/ Meets(f.nr, m.nw)
  \/ Meets(f.ew, m.ew \cup m.er) \/ Meets(f.er, m.ew)
  \/ Meets(f.aw, m.aw \cup m.ar) \/ Meets(f.ar, m.aw)
  \/ Meets(f.bi, m.ports) \/ Meets(f.bo, m.ports)

\* RadixScheduler::mark_all
MarkAll(m, f) ==
  [nw |-> m.nw \cup f.nw, nr |-> m.nr \cup f.nr, ew |-> m.ew \cup f.ew, er |-> m.er \cup f.er,
   aw |-> m.aw \cup f.aw, ar |-> m.ar \cup f.ar, ports |-> m.ports \cup f.bi \cup f.bo]

\* Marks that exactly the footprints in F would leave
MarksOf(F) ==
  [nw |-> UNION {f.nw : f \in F}, nr |-> UNION {f.nr : f \in F}, ew |-> UNION {f.ew : f \in F},
   er |-> UNION {f.er : f \in F}, aw |-> UNION {f.aw : f \in F}, ar |-> UNION {f.ar : f \in F},
   ports |-> UNION {f.bi \cup f.bo : f \in F}]
=============================================================================
