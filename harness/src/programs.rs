//! Table-driven rewrite rules. `ExecuteFn` / `MatchFn` / `FootprintFn` are plain `fn`
//! pointers, so rule k (1-based, k <= 16) interprets `PROGRAMS[k-1]` from a process-global
//! table that each case installs before it runs. The program language and its honest
//! footprints are the ones of spec/Tick.tla (Prog / DeclaredFP / Effects).

use std::sync::Mutex;

use serde::Deserialize;
use warp_core::{
    AttachmentKey, AttachmentValue, ConflictPolicy, EdgeKey, EdgeRecord, Footprint, GraphView, NodeId,
    NodeKey, NodeRecord, PatternGraph, RewriteRule, TickDelta, WarpOp,
};

use crate::ids;

#[derive(Deserialize, Clone, Debug, Default)]
pub struct Program {
    pub kind: String,
    #[serde(default)]
    pub a: String,
    #[serde(default)]
    pub b: String,
    #[serde(default)]
    pub e: String,
    #[serde(default)]
    pub ty: String,
    #[serde(default)]
    pub ty2: String,
    #[serde(default)]
    pub p: String,
    /// fault injection (C09/C14): "", "panic", "undeclared_read", "undeclared_write", ...
    #[serde(default)]
    pub fault: String,
}

pub static PROGRAMS: Mutex<Vec<Program>> = Mutex::new(Vec::new());
pub const MAX_RULES: usize = 16;

pub fn install(progs: &[Program]) {
    let mut g = PROGRAMS.lock().unwrap_or_else(|p| p.into_inner());
    *g = progs.to_vec();
}

fn prog(k: usize) -> Program {
    let g = PROGRAMS.lock().unwrap_or_else(|p| p.into_inner());
    g.get(k).cloned().unwrap_or_default()
}

fn res(x: &str, scope: &NodeId) -> NodeId {
    if x == "S" { *scope } else { ids::node(x) }
}

fn is_desc(v: Option<&AttachmentValue>) -> bool {
    matches!(v, Some(AttachmentValue::Descend(_)))
}

pub fn declared_footprint(p: &Program, warp: warp_core::WarpId, scope: &NodeId) -> Footprint {
    let a = res(&p.a, scope);
    let b = res(&p.b, scope);
    let e = EdgeKey { warp_id: warp, local_id: ids::edge(&p.e) };
    let nk = |n: NodeId| NodeKey { warp_id: warp, local_id: n };
    let natt = |n: NodeId| AttachmentKey::node_alpha(nk(n));
    let eatt = AttachmentKey::edge_beta(e);
    let mut fp = Footprint { factor_mask: 1, ..Footprint::default() };
    match p.kind.as_str() {
        "SetAtom" => {
            fp.n_read.insert(nk(a));
            fp.a_read.insert(natt(a));
            fp.a_write.insert(natt(a));
        }
        "CopyAtt" => {
            fp.n_read.insert(nk(b));
            fp.a_read.insert(natt(a));
            fp.a_read.insert(natt(b));
            fp.a_write.insert(natt(b));
        }
        "AddEdge" => {
            fp.n_read.insert(nk(a));
            fp.n_read.insert(nk(b));
            fp.n_write.insert(nk(a));
            fp.e_write.insert(e);
        }
        "DelEdgeFrom" => {
            fp.n_read.insert(nk(a));
            fp.n_write.insert(nk(a));
            fp.e_write.insert(e);
            fp.a_read.insert(eatt);
            fp.a_write.insert(eatt);
        }
        "SetEdgeAtom" => {
            fp.e_read.insert(e);
            fp.a_read.insert(eatt);
            fp.a_write.insert(eatt);
        }
        "UpsertNode" => {
            fp.n_write.insert(nk(a));
        }
        "RetypeByAtt" => {
            fp.a_read.insert(natt(a));
            fp.n_write.insert(nk(b));
        }
        "DelNodeIso" => {
            fp.n_read.insert(nk(a));
            fp.n_write.insert(nk(a));
            fp.a_read.insert(natt(a));
            fp.a_write.insert(natt(a));
        }
        _ => {}
    }
    fp
}

fn interp_exec(k: usize, view: GraphView<'_>, scope: &NodeId, delta: &mut TickDelta) {
    let p = prog(k);
    let warp = view.warp_id();
    let a = res(&p.a, scope);
    let b = res(&p.b, scope);
    let e = ids::edge(&p.e);
    let nk = |n: NodeId| NodeKey { warp_id: warp, local_id: n };
    match p.kind.as_str() {
        "SetAtom" => {
            if view.node(&a).is_some() && !is_desc(view.node_attachment(&a)) {
                delta.push(WarpOp::SetAttachment {
                    key: AttachmentKey::node_alpha(nk(a)),
                    value: Some(AttachmentValue::Atom(ids::atom(&p.p))),
                });
            }
        }
        "CopyAtt" => {
            let v = view.node_attachment(&a).cloned();
            if view.node(&b).is_some() && !is_desc(v.as_ref()) && !is_desc(view.node_attachment(&b)) {
                delta.push(WarpOp::SetAttachment { key: AttachmentKey::node_alpha(nk(b)), value: v });
            }
        }
        "AddEdge" => {
            if view.node(&a).is_some() && view.node(&b).is_some() {
                delta.push(WarpOp::UpsertEdge {
                    warp_id: warp,
                    record: EdgeRecord { id: e, from: a, to: b, ty: ids::ty(&p.ty) },
                });
            }
        }
        "DelEdgeFrom" => {
            let present = view.edges_from(&a).any(|r| r.id == e);
            if present && !is_desc(view.edge_attachment(&e)) {
                delta.push(WarpOp::DeleteEdge { warp_id: warp, from: a, edge_id: e });
            }
        }
        "SetEdgeAtom" => {
            if view.has_edge(&e) && !is_desc(view.edge_attachment(&e)) {
                delta.push(WarpOp::SetAttachment {
                    key: AttachmentKey::edge_beta(EdgeKey { warp_id: warp, local_id: e }),
                    value: Some(AttachmentValue::Atom(ids::atom(&p.p))),
                });
            }
        }
        "UpsertNode" => {
            delta.push(WarpOp::UpsertNode { node: nk(a), record: NodeRecord { ty: ids::ty(&p.ty) } });
        }
        "RetypeByAtt" => {
            let hit = view.node_attachment(&a) == Some(&AttachmentValue::Atom(ids::atom(&p.p)));
            let ty = if hit { &p.ty } else { &p.ty2 };
            delta.push(WarpOp::UpsertNode { node: nk(b), record: NodeRecord { ty: ids::ty(ty) } });
        }
        "DelNodeIso" => {
            if view.node(&a).is_some() && view.edges_from(&a).next().is_none() && !is_desc(view.node_attachment(&a)) {
                delta.push(WarpOp::DeleteNode { node: nk(a) });
            }
        }
        _ => {}
    }
}

fn interp_match(_k: usize, view: GraphView<'_>, scope: &NodeId) -> bool {
    view.node(scope).is_some()
}

fn interp_fp(k: usize, view: GraphView<'_>, scope: &NodeId) -> Footprint {
    declared_footprint(&prog(k), view.warp_id(), scope)
}

macro_rules! rule_fns {
    ($($k:literal => $e:ident, $m:ident, $f:ident;)*) => {
        $(
            fn $e(view: GraphView<'_>, scope: &NodeId, delta: &mut TickDelta) { interp_exec($k, view, scope, delta) }
            fn $m(view: GraphView<'_>, scope: &NodeId) -> bool { interp_match($k, view, scope) }
            fn $f(view: GraphView<'_>, scope: &NodeId) -> Footprint { interp_fp($k, view, scope) }
        )*
        fn fns(k: usize) -> (warp_core::ExecuteFn, warp_core::MatchFn, for<'a> fn(GraphView<'a>, &NodeId) -> Footprint) {
            match k {
                $($k => ($e, $m, $f),)*
                _ => unreachable!("rule index out of range"),
            }
        }
    };
}
rule_fns! {
    0 => e0, m0, f0; 1 => e1, m1, f1; 2 => e2, m2, f2; 3 => e3, m3, f3;
    4 => e4, m4, f4; 5 => e5, m5, f5; 6 => e6, m6, f6; 7 => e7, m7, f7;
    8 => e8, m8, f8; 9 => e9, m9, f9; 10 => e10, m10, f10; 11 => e11, m11, f11;
    12 => e12, m12, f12; 13 => e13, m13, f13; 14 => e14, m14, f14; 15 => e15, m15, f15;
}

/// Name of rule `r` (1-based model index).
pub fn rule_name(r: usize) -> &'static str {
    static NAMES: Mutex<Vec<Option<&'static str>>> = Mutex::new(Vec::new());
    let mut g = NAMES.lock().unwrap_or_else(|p| p.into_inner());
    if g.len() <= r {
        g.resize(r + 1, None);
    }
    if let Some(n) = g[r] {
        return n;
    }
    let s: &'static str = Box::leak(format!("verif{}/rule/{}", ids::salt(), r).into_boxed_str());
    g[r] = Some(s);
    s
}

pub fn rule_id(r: usize) -> [u8; 32] {
    *blake3::hash(format!("rule:{}", rule_name(r)).as_bytes()).as_bytes()
}

/// The real `RewriteRule` for model rule index `r` (1-based).
pub fn rule(r: usize) -> RewriteRule {
    let (executor, matcher, compute_footprint) = fns(r - 1);
    RewriteRule {
        id: rule_id(r),
        name: rule_name(r),
        left: PatternGraph { nodes: vec![] },
        matcher,
        executor,
        compute_footprint,
        factor_mask: 1,
        conflict_policy: ConflictPolicy::Abort,
        join_fn: None,
    }
}
