//! C15, braid-shell leg - retained theta_braid shells: retention, audit, replay, collapse.
//!
//! Every state exported by spec/MC_C15b.tla (a scenario run through the settlement model that leaves
//! 1-3 retained shells, followed by at most `depth` registry- or lane-changing operations, plus the
//! predicted result of every pure call in the state reached) is replayed into a real
//! `WorldlineRuntime` + `ProvenanceService` + `Engine`:
//!   tick      `runtime.ingest` + `SchedulerCoordinator::super_tick` (table-driven `cmd/` rule)
//!   fork/pin  `fork_strand`, `pin_support`
//!   settle    `SettlementService::{plan_with_policy, settle_with_policy}`; the shell it retains
//!   joint     `BraidShell::assemble` over the members of two retained shells + `append_braid_shell`
//!   collapse  `collapse_braid_shell` (+ `append_braid_shell` of the shell it returned)
//!   audit / replay  `audit_braid_shell`, `replay_braid_shell` (on the service, on a bare record map,
//!             and - for lineage shells - on a map without the parent)
//!
//! After every step the harness compares outcome class, slot values / history lengths of every lane
//! and the registry (count, the new shell field by field, digest / coordinate / member-digest
//! relations) with the model, and decides the property on the real outcome: a retained artifact and
//! every shell-level call leave every lane bit-identical (`{:?}` of runtime); audit, replay and
//! collapse leave `{:?}` of runtime and provenance unchanged and are deterministic; a shell replays to
//! the member verdicts of the settlement that retained it (read from the real plan) now and after
//! every later step; collapse without a policy yields the documented obstruction and never a derived
//! shell; a refused call changes nothing and an accepted one adds exactly one shell; no plural
//! artifact id is bound to two shells; every shell ever retained stays `==` to what it was.

use std::collections::{BTreeMap, BTreeSet};

use serde::Deserialize;
use serde_json::{json, Value};
use warp_core::{
    audit_braid_shell, collapse_braid_shell, make_head_id, make_intent_kind, make_strand_id, replay_braid_shell, ActorId,
    AdmissionOutcomeKind, AdmissionScopeId, AttachmentKey, AttachmentValue, AuthorityBinding, AuthorityDomainId,
    AuthorityDomainRef, BraidMemberRef, BraidProofBinding, BraidShell, BraidShellError, BraidShellMember,
    BraidShellOutcome, BraidWitnessPosture, CausalAuthority, CausalPosture, CollapsePolicy,
    CollapseResult, ConflictPolicy, ConflictReason, Engine, EngineBuilder, Footprint, ForkStrandRequest, GraphView,
    InboxPolicy, IngressDisposition, IngressEnvelope, IngressTarget, MemberVerdict, NodeId, NodeKey, NodeRecord,
    OriginId, PatternGraph, PlaybackMode, PluralityLawFamily, PostureDerivation, ProvenanceRef, ProvenanceService,
    ProvenanceStore, RetentionContractId, RetentionPosture, RewriteRule, SchedulerCoordinator, SchedulerKind,
    SealStrength, SettlementDecision, SettlementPolicy, SettlementService, StrandId, TickDelta, WarpOp, WitnessDigest,
    WorldlineId, WorldlineRuntime, WorldlineState, WorldlineTick, WriterHead, WriterHeadKey,
    COLLAPSE_WITHOUT_POLICY_REASON,
};

use crate::absgraph::{self, AttJ, EdgeJ, InstJ, KeyJ, NodeJ, StateJ};
use crate::ids;
use crate::util;

type Hash = [u8; 32];

// --------------------------------------------------------------------------- model vocabulary
// (the table-driven rule of harness/src/c15.rs, under its own name)

const RULE_NAME: &str = "cmd/verif-c15b";
const MAGIC: &[u8] = b"VB";
const COLLAPSE_WITNESS: Hash = [0x99; 32];

#[derive(Deserialize, Clone, Debug)]
struct ProgJ {
    k: String,
    a: String,
    b: String,
    v: String,
}

fn slot_ix(s: &str) -> u8 {
    match s {
        "n1" => 1,
        "n2" => 2,
        "n3" => 3,
        _ => 4,
    }
}
fn kind_ix(k: &str) -> u8 {
    match k {
        "set" => 0,
        "copy" => 1,
        "read" => 2,
        "del" => 3,
        _ => 4,
    }
}
fn val_ix(v: &str) -> u8 {
    match v {
        "p0" => 1,
        "p1" => 2,
        "tA" => 3,
        "tB" => 4,
        _ => 0,
    }
}
fn encode_intent(nonce: u32, p: &ProgJ) -> Vec<u8> {
    let mut v = MAGIC.to_vec();
    v.extend_from_slice(&nonce.to_le_bytes());
    v.extend_from_slice(&[kind_ix(&p.k), slot_ix(&p.a), slot_ix(&p.b), val_ix(&p.v)]);
    v
}

#[derive(Clone, Copy)]
struct Op {
    kind: u8,
    a: u8,
    b: u8,
    v: u8,
}

fn decode(view: GraphView<'_>, scope: &NodeId) -> Option<Op> {
    match view.node_attachment(scope) {
        Some(AttachmentValue::Atom(p)) => {
            let b = p.bytes.as_ref();
            if b.len() == 10 && &b[..2] == MAGIC {
                Some(Op { kind: b[6], a: b[7], b: b[8], v: b[9] })
            } else {
                None
            }
        }
        _ => None,
    }
}
fn slot_node(a: u8) -> NodeId {
    ids::node(&format!("n{}", a.clamp(1, 4)))
}
fn att_of(v: u8) -> Option<AttachmentValue> {
    match v {
        1 => Some(AttachmentValue::Atom(ids::atom("p0"))),
        2 => Some(AttachmentValue::Atom(ids::atom("p1"))),
        _ => None,
    }
}
fn rule_match(view: GraphView<'_>, scope: &NodeId) -> bool {
    decode(view, scope).is_some()
}
fn rule_exec(view: GraphView<'_>, scope: &NodeId, delta: &mut TickDelta) {
    let Some(o) = decode(view, scope) else { return };
    let warp = view.warp_id();
    let nk = |n: NodeId| NodeKey { warp_id: warp, local_id: n };
    let a = slot_node(o.a);
    let b = slot_node(o.b);
    match o.kind {
        0 => {
            if view.node(&a).is_some() {
                let _ = view.node_attachment(&a);
                delta.push(WarpOp::SetAttachment { key: AttachmentKey::node_alpha(nk(a)), value: att_of(o.v) });
            }
        }
        1 => {
            let v = view.node_attachment(&a).cloned();
            if view.node(&b).is_some() {
                let _ = view.node_attachment(&b);
                delta.push(WarpOp::SetAttachment { key: AttachmentKey::node_alpha(nk(b)), value: v });
            }
        }
        2 => {
            let _ = view.node_attachment(&a);
        }
        3 => {
            let has = view.node(&a).is_some();
            let _ = view.node_attachment(&a);
            if has {
                delta.push(WarpOp::DeleteNode { node: nk(a) });
            }
        }
        _ => {
            let ty = if o.v == 4 { "tB" } else { "tA" };
            delta.push(WarpOp::UpsertNode { node: nk(a), record: NodeRecord { ty: ids::ty(ty) } });
        }
    }
}
fn rule_fp(view: GraphView<'_>, scope: &NodeId) -> Footprint {
    let warp = view.warp_id();
    let nk = |n: NodeId| NodeKey { warp_id: warp, local_id: n };
    let mut fp = Footprint { factor_mask: 1, ..Footprint::default() };
    fp.n_read.insert(nk(*scope));
    fp.a_read.insert(AttachmentKey::node_alpha(nk(*scope)));
    if let Some(o) = decode(view, scope) {
        let a = slot_node(o.a);
        let b = slot_node(o.b);
        match o.kind {
            0 => {
                fp.n_read.insert(nk(a));
                fp.a_read.insert(AttachmentKey::node_alpha(nk(a)));
                fp.a_write.insert(AttachmentKey::node_alpha(nk(a)));
            }
            1 => {
                fp.n_read.insert(nk(b));
                fp.a_read.insert(AttachmentKey::node_alpha(nk(a)));
                fp.a_read.insert(AttachmentKey::node_alpha(nk(b)));
                fp.a_write.insert(AttachmentKey::node_alpha(nk(b)));
            }
            2 => {
                fp.a_read.insert(AttachmentKey::node_alpha(nk(a)));
            }
            3 => {
                fp.n_read.insert(nk(a));
                fp.n_write.insert(nk(a));
                fp.a_read.insert(AttachmentKey::node_alpha(nk(a)));
                fp.a_write.insert(AttachmentKey::node_alpha(nk(a)));
            }
            _ => {
                fp.n_write.insert(nk(a));
            }
        }
    }
    fp
}
fn rule() -> RewriteRule {
    RewriteRule {
        id: *blake3::hash(format!("rule:{RULE_NAME}").as_bytes()).as_bytes(),
        name: RULE_NAME,
        left: PatternGraph { nodes: vec![] },
        matcher: rule_match,
        executor: rule_exec,
        compute_footprint: rule_fp,
        factor_mask: 1,
        conflict_policy: ConflictPolicy::Abort,
        join_fn: None,
    }
}

// --------------------------------------------------------------------------- world

fn wl(name: &str) -> WorldlineId {
    WorldlineId::from_bytes(match name {
        "P" => [1; 32],
        "A" => [2; 32],
        "B" => [3; 32],
        _ => [9; 32],
    })
}
fn sid(name: &str) -> StrandId {
    make_strand_id(&format!("verif-c15b-{name}"))
}
fn wt(t: u64) -> WorldlineTick {
    WorldlineTick::from_raw(t)
}
fn head_key(w: WorldlineId) -> WriterHeadKey {
    WriterHeadKey { worldline_id: w, head_id: make_head_id("h0") }
}
fn new_head(key: WriterHeadKey) -> WriterHead {
    WriterHead::with_routing(key, PlaybackMode::Play, InboxPolicy::AcceptAll, None, true)
}
fn shared_posture() -> RetentionPosture {
    let origin = OriginId::from_bytes([0x51; 32]);
    let domain = AuthorityDomainRef::new(origin, AuthorityDomainId::from_bytes([0x52; 32]));
    let authority = CausalAuthority::new(
        origin,
        ActorId::from_bytes([0x53; 32]),
        domain,
        AuthorityBinding::LocalUnbound { origin },
        SealStrength::Advisory,
    )
    .expect("authority");
    RetentionPosture::new(
        CausalPosture::Shared,
        PostureDerivation::ExplicitIntent,
        authority,
        RetentionContractId::from_bytes([0x54; 32]),
        Some(AdmissionScopeId::from_bytes([0x55; 32])),
    )
    .expect("shared posture")
}
fn policy(name: &str) -> SettlementPolicy {
    if name == "plural" {
        SettlementPolicy::allow_plural_over_footprint_overlap([0x5E; 32])
    } else {
        SettlementPolicy::default()
    }
}
/// Policy identity of a model policy name ("absent" is learned from the first obstruction shell).
fn policy_id(name: &str) -> Option<Hash> {
    match name {
        "refused" => Some(SettlementPolicy::default().policy_id),
        "plural" => Some([0x5E; 32]),
        "J" => Some([0x4A; 32]),
        "cA" => Some([0xCA; 32]),
        "cB" => Some([0xCB; 32]),
        "zero" => Some([0; 32]),
        _ => None,
    }
}
fn reason_name(r: ConflictReason) -> &'static str {
    match r {
        ConflictReason::ChannelPolicyConflict => "ChannelPolicyConflict",
        ConflictReason::UnsupportedImport => "UnsupportedImport",
        ConflictReason::BaseDivergence => "BaseDivergence",
        ConflictReason::ParentFootprintOverlap => "ParentFootprintOverlap",
        ConflictReason::QuantumMismatch => "QuantumMismatch",
        ConflictReason::PluralUpstream => "PluralUpstream",
    }
}
/// settlement.rs ConflictReason::code (private): the documented numbering.
fn reason_code(name: &str) -> u8 {
    match name {
        "ChannelPolicyConflict" => 1,
        "UnsupportedImport" => 2,
        "BaseDivergence" => 3,
        "ParentFootprintOverlap" => 4,
        "QuantumMismatch" => 5,
        "PluralUpstream" => 6,
        _ => 0,
    }
}

fn u0_state() -> WorldlineState {
    let none = AttJ { k: "none".into(), ..Default::default() };
    let s = StateJ {
        inst: vec![InstJ { w: "w0".into(), root: "n0".into(), parent: KeyJ { o: "none".into(), ..Default::default() } }],
        node: ["n0", "n1", "n2", "n3", "n4"]
            .iter()
            .map(|n| NodeJ { w: "w0".into(), n: (*n).into(), ty: "tA".into(), att: none.clone() })
            .collect(),
        edge: (1..=3)
            .map(|k| EdgeJ {
                w: "w0".into(),
                e: format!("e{}", k - 1),
                from: "n0".into(),
                to: format!("n{k}"),
                ty: "tA".into(),
                att: none.clone(),
            })
            .collect(),
    };
    WorldlineState::new(absgraph::build_state(&s), absgraph::nkey("w0", "n0")).expect("U0 must be a valid worldline state")
}

fn project_slots(state: &WorldlineState) -> BTreeMap<String, String> {
    let mut m = BTreeMap::new();
    let store = state.store(&ids::warp("w0"));
    for n in ["n1", "n2", "n3"] {
        let v = match store.and_then(|s| s.node_attachment(&ids::node(n))) {
            None => "none".to_string(),
            Some(AttachmentValue::Atom(p)) if *p == ids::atom("p0") => "p0".to_string(),
            Some(AttachmentValue::Atom(p)) if *p == ids::atom("p1") => "p1".to_string(),
            Some(other) => format!("?{other:?}"),
        };
        m.insert(n.to_string(), v);
    }
    let n4 = match store.and_then(|s| s.node(&ids::node("n4"))) {
        None => "absent".to_string(),
        Some(r) if r.ty == ids::ty("tA") => "tA".to_string(),
        Some(r) if r.ty == ids::ty("tB") => "tB".to_string(),
        Some(r) => format!("?{:?}", r.ty),
    };
    m.insert("n4".to_string(), n4);
    m
}

fn json_vals(v: &Value) -> BTreeMap<String, String> {
    v.as_object()
        .map(|o| o.iter().map(|(k, x)| (k.clone(), x.as_str().unwrap_or("?").to_string())).collect())
        .unwrap_or_default()
}

pub static TIMES: std::sync::Mutex<BTreeMap<&'static str, (u64, u128)>> = std::sync::Mutex::new(BTreeMap::new());
struct Timed(&'static str, std::time::Instant);
fn timed(name: &'static str) -> Timed {
    Timed(name, std::time::Instant::now())
}
impl Drop for Timed {
    fn drop(&mut self) {
        let mut g = TIMES.lock().unwrap_or_else(|p| p.into_inner());
        let e = g.entry(self.0).or_insert((0, 0));
        e.0 += 1;
        e.1 += self.1.elapsed().as_micros();
    }
}

/// `{:?}` of the whole runtime with the `_for_test` scan counter masked.
fn rt_fp(runtime: &WorldlineRuntime) -> String {
    let _t = timed("rt_fp");
    let r = format!("{runtime:?}");
    let prefix = "receipt_correlation_full_scan_count: Cell { value: ";
    match r.find(prefix) {
        None => r,
        Some(i) => {
            let start = i + prefix.len();
            let end = r[start..].find(|c: char| !c.is_ascii_digit()).map(|e| start + e).unwrap_or(r.len());
            format!("{}<masked>{}", &r[..start], &r[end..])
        }
    }
}
fn pv_fp(prov: &ProvenanceService) -> String {
    let _t = timed("pv_fp");
    format!("{prov:?}")
}
fn fp_diff(a: &str, b: &str) -> String {
    let i = a.bytes().zip(b.bytes()).position(|(x, y)| x != y).unwrap_or(a.len().min(b.len()));
    let lo = i.saturating_sub(100);
    let cut = |s: &str| s.get(lo..(i + 100).min(s.len())).unwrap_or("<non-utf8 boundary>").to_string();
    format!("first difference at byte {i}: before `{}` after `{}`", cut(a), cut(b))
}

/// Canonical text of a model value: arrays that stand for sets are sorted.
fn canon(v: &Value) -> String {
    fn norm(v: &Value, set: bool) -> Value {
        match v {
            Value::Array(a) => {
                let mut items: Vec<Value> = a.iter().map(|x| norm(x, false)).collect();
                if set {
                    items.sort_by_key(|x| x.to_string());
                }
                Value::Array(items)
            }
            Value::Object(o) => Value::Object(
                o.iter().map(|(k, x)| (k.clone(), norm(x, matches!(k.as_str(), "members" | "alts" | "eo" | "verdicts")))).collect(),
            ),
            other => other.clone(),
        }
    }
    norm(v, false).to_string()
}

/// model key <-> real digest must be one-to-one within a behaviour (hashes are injective constructors).
#[derive(Default, Clone)]
struct Rel {
    fwd: BTreeMap<(String, String), Hash>,
    bwd: BTreeMap<(String, Hash), String>,
}
impl Rel {
    fn add(&mut self, field: &str, key: String, real: Hash) -> Result<(), String> {
        if let Some(old) = self.fwd.get(&(field.to_string(), key.clone())) {
            if *old != real {
                return Err(format!("{field}: equal abstract content `{}` has two real digests {} / {}", cut(&key), hex8(old), hex8(&real)));
            }
        }
        if let Some(old) = self.bwd.get(&(field.to_string(), real)) {
            if *old != key {
                return Err(format!("{field}: one real digest {} for different abstract content `{}` / `{}`", hex8(&real), cut(old), cut(&key)));
            }
        }
        self.fwd.insert((field.to_string(), key.clone()), real);
        self.bwd.insert((field.to_string(), real), key);
        Ok(())
    }
}
fn hex8(h: &Hash) -> String {
    hex::encode(&h[..8])
}
fn cut(s: &str) -> String {
    s.chars().take(160).collect()
}

#[derive(Clone, Default)]
struct Findings {
    list: Vec<(String, String)>,
    drift: Vec<String>,
}
impl Findings {
    fn violation(&mut self, kind: &str, detail: String) {
        if !self.list.iter().any(|(k, _)| k == kind) {
            self.list.push((kind.to_string(), detail));
        }
    }
    fn drift(&mut self, d: String) {
        if self.drift.len() < 8 {
            self.drift.push(d);
        }
    }
}

#[derive(Default, Clone)]
struct Stats {
    ticks: u64,
    settles: u64,
    refused_settles: u64,
    joints: u64,
    collapses_kept: u64,
    derived: u64,
    obstructed: u64,
    refused: u64,
    audits: u64,
    replays: u64,
    collapse_probes: u64,
    shells: BTreeSet<String>,
    two_member: u64,
    lineage_probes: u64,
}

#[derive(Clone)]
struct World {
    runtime: WorldlineRuntime,
    prov: ProvenanceService,
    nonce: u32,
    live: Vec<String>,
    /// retained shells in retention order: digest, the shell as it was when retained
    names: Vec<(Hash, BraidShell)>,
    /// model shells by index (as exported when retained)
    model: Vec<Value>,
    /// canonical model pid -> real plural artifact id
    pids: BTreeMap<String, Hash>,
    /// member verdicts of the settlement that retained shell i, read from the real plan
    settled: BTreeMap<usize, (StrandId, MemberVerdict, AdmissionOutcomeKind)>,
    absent_policy: Option<Hash>,
    rel: Rel,
}

/// The engine only executes rules: `commit_with_state` swaps the lane's state in and out, so one engine serves
/// every lane and every behaviour of a run.
fn new_engine(u0: &WorldlineState) -> Result<Engine, String> {
    let mut engine = EngineBuilder::from_state(u0.warp_state().clone(), *u0.root())
        .scheduler(SchedulerKind::Radix)
        .workers(1)
        .build()
        .map_err(|e| format!("engine build: {e:?}"))?;
    engine.register_rule(rule()).map_err(|e| format!("register rule: {e:?}"))?;
    Ok(engine)
}

impl World {
    fn new(u0: &WorldlineState) -> Result<Self, String> {
        let _t = timed("world_new");
        let mut runtime = WorldlineRuntime::new();
        runtime.register_worldline(wl("P"), u0.clone()).map_err(|e| format!("register worldline: {e:?}"))?;
        runtime.register_writer_head(new_head(head_key(wl("P")))).map_err(|e| format!("register head: {e:?}"))?;
        let mut prov = ProvenanceService::new();
        prov.register_worldline(wl("P"), u0).map_err(|e| format!("prov register: {e:?}"))?;
        Ok(Self {
            runtime,
            prov,
            nonce: 0,
            live: vec!["P".into()],
            names: Vec::new(),
            model: Vec::new(),
            pids: BTreeMap::new(),
            settled: BTreeMap::new(),
            absent_policy: None,
            rel: Rel::default(),
        })
    }
    fn vals(&self, w: &str) -> Result<BTreeMap<String, String>, String> {
        self.runtime.worldlines().get(&wl(w)).map(|f| project_slots(f.state())).ok_or_else(|| format!("worldline {w} not registered"))
    }
    fn len(&self, w: &str) -> Result<u64, String> {
        self.prov.len(wl(w)).map_err(|e| format!("prov len {w}: {e:?}"))
    }
    fn pref(&self, r: &Value) -> Result<ProvenanceRef, String> {
        let w = r["w"].as_str().ok_or("ref without w")?;
        let t = r["t"].as_u64().ok_or("ref without t")?;
        Ok(self.prov.entry(wl(w), wt(t)).map_err(|e| format!("ref {w}@{t}: {e:?}"))?.as_ref())
    }
    fn digest_of(&self, idx: u64) -> Option<Hash> {
        if idx == 0 {
            None
        } else {
            self.names.get(idx as usize - 1).map(|(d, _)| *d)
        }
    }
    /// What the property speaks about, per lane: state root, frontier tick, history length and tip commit, plus the
    /// global tick, the writer heads and the strand registry.  Cheap; the full `{:?}` of the runtime is compared
    /// once around all the pure calls of a behaviour.
    fn lanes_fp(&self) -> String {
        let mut out = format!("g={:?}|strands={:?}|heads={:?}", self.runtime.global_tick(), self.runtime.strands(), self.runtime.heads().iter().map(|(k, _)| *k).collect::<Vec<_>>());
        for w in &self.live {
            let fr = self.runtime.worldlines().get(&wl(w));
            out.push_str(&format!(
                "|{w}:{:?}:{:?}:{:?}:{:?}",
                fr.map(|x| hex::encode(x.state().state_root())),
                fr.map(|x| x.frontier_tick().as_u64()),
                self.prov.len(wl(w)).ok(),
                self.prov.tip_ref(wl(w)).ok().flatten().map(|r| hex::encode(r.commit_hash))
            ));
        }
        out
    }
    /// Everything retained: shells in digest order and what the residue index resolves every known id to.
    fn registry_fp(&self) -> String {
        let shells: Vec<&BraidShell> = self.prov.braid_shells().collect();
        let index: Vec<(String, Option<Hash>)> =
            self.pids.iter().map(|(k, pid)| (k.clone(), self.prov.braid_shell_for_plural(pid).map(|s| s.digest))).collect();
        format!("{shells:?}|{index:?}")
    }
}

fn check_snapshot(world: &World, step: &Value, f: &mut Findings, at: &str) -> Result<(), String> {
    let vals = step["vals"].as_object().ok_or("step without vals")?;
    for (w, want) in vals {
        let got = world.vals(w)?;
        let want = json_vals(want);
        if got != want {
            f.violation("lane_values_differ_from_model", format!("{at}: lane {w}: real {got:?}, model {want:?}"));
        }
        let want_len = step["lens"][w].as_u64().ok_or("step without lens")?;
        let got_len = world.len(w)?;
        if got_len != want_len {
            f.violation("lane_length_differs_from_model", format!("{at}: lane {w}: provenance len {got_len}, model {want_len}"));
        }
    }
    if let Some(n) = step["nshells"].as_u64() {
        let real = world.prov.braid_shells().count() as u64;
        if real != n || world.names.len() as u64 != n {
            f.violation("registry_size_differs_from_model", format!("{at}: {real} shells retained ({} tracked), model {n}", world.names.len()));
        }
    }
    Ok(())
}

/// Every shell ever retained is still retained and `==` to what it was; every known plural id resolves
/// to exactly the one shell that lists it.
fn check_immutable(world: &World, f: &mut Findings, at: &str) {
    for (i, (d, born)) in world.names.iter().enumerate() {
        match world.prov.braid_shell(d) {
            Some(now) if now == born => {}
            Some(now) => f.violation("retained_shell_mutated", format!("{at}: shell {} changed after retention: was {born:?}, is {now:?}", i + 1)),
            None => f.violation("retained_shell_lost", format!("{at}: shell {} ({}) is no longer retained", i + 1, hex8(d))),
        }
    }
    for (key, pid) in &world.pids {
        let holders: Vec<Hash> = world
            .prov
            .braid_shells()
            .filter(|s| matches!(&s.outcome, BraidShellOutcome::Plural { alternative_ids } if alternative_ids.contains(pid)))
            .map(|s| s.digest)
            .collect();
        let indexed = world.prov.braid_shell_for_plural(pid).map(|s| s.digest);
        if holders.len() > 1 {
            f.violation("plural_artifact_bound_twice", format!("{at}: plural artifact {} ({}) is listed by {} retained shells", hex8(pid), cut(key), holders.len()));
        } else if holders.first().copied() != indexed {
            f.violation("plural_index_differs_from_shells", format!("{at}: plural artifact {}: listed by {:?}, index resolves to {:?}", hex8(pid), holders.first().map(hex8), indexed.as_ref().map(hex8)));
        }
    }
}

/// Cheap purity screen after a single call: exactly the tracked shells are retained, each `==` to what it was.
fn registry_intact(world: &World) -> bool {
    world.prov.braid_shells().count() == world.names.len() && world.names.iter().all(|(d, born)| world.prov.braid_shell(d) == Some(born))
}

fn verdict_name(v: MemberVerdict) -> &'static str {
    match v {
        MemberVerdict::Derived => "Derived",
        MemberVerdict::Plural => "Plural",
        MemberVerdict::Conflict => "Conflict",
        MemberVerdict::Obstructed => "Obstructed",
    }
}
fn kind_name(k: AdmissionOutcomeKind) -> &'static str {
    match k {
        AdmissionOutcomeKind::Derived => "derived",
        AdmissionOutcomeKind::Plural => "plural",
        AdmissionOutcomeKind::Conflict => "conflict",
        AdmissionOutcomeKind::Obstruction => "obstruction",
    }
}
fn law_name(f: PluralityLawFamily) -> String {
    match f {
        PluralityLawFamily::Settlement => "Settlement".into(),
        PluralityLawFamily::Collapse => "Collapse".into(),
        other => format!("{other:?}"),
    }
}
fn err_name(e: &BraidShellError) -> String {
    match e {
        BraidShellError::ShellNotFound { .. } => "ShellNotFound".into(),
        BraidShellError::InvalidLineageParent { .. } => "InvalidLineageParent".into(),
        BraidShellError::EmptyPolicyId => "EmptyPolicyId".into(),
        BraidShellError::PluralArtifactAlreadyBound { .. } => "PluralArtifactAlreadyBound".into(),
        BraidShellError::DuplicateMemberStrand { .. } => "DuplicateMemberStrand".into(),
        BraidShellError::OutcomeMemberMismatch { .. } => "OutcomeMemberMismatch".into(),
        BraidShellError::EmptyMembers => "EmptyMembers".into(),
        BraidShellError::IncoherentCollapsePolicy { .. } => "IncoherentCollapsePolicy".into(),
        other => format!("{other:?}").chars().take(60).collect(),
    }
}
fn member_name(world: &World, r: &BraidMemberRef) -> String {
    for n in ["sA", "sB"] {
        if *r == BraidMemberRef::Revealed(sid(n)) {
            return n.to_string();
        }
    }
    let _ = world;
    format!("?{r:?}")
}

/// Resolves the model policy name of a shell to the real id ("absent": the id the first obstruction carried).
fn want_policy(world: &mut World, name: &str, real: Hash) -> Option<Hash> {
    if name == "absent" {
        if world.absent_policy.is_none() {
            world.absent_policy = Some(real);
        }
        world.absent_policy
    } else {
        policy_id(name)
    }
}

/// Compares a real shell with the model's shell; returns the differences (empty = agree) and feeds the
/// digest relations.
fn compare_shell(world: &mut World, real: &BraidShell, model: &Value) -> Result<Vec<String>, String> {
    let mut d = Vec::new();
    if let Err(e) = real.validate() {
        d.push(format!("shell does not validate: {e:?}"));
    }
    if real.worldline_id != wl(model["wl"].as_str().unwrap_or("?")) {
        d.push(format!("worldline {:?}, model {}", real.worldline_id, model["wl"]));
    }
    if real.basis != world.pref(&model["basis"])? {
        d.push(format!("basis {:?}, model {}", real.basis, model["basis"]));
    }
    let pname = model["pol"].as_str().unwrap_or("?").to_string();
    if want_policy(world, &pname, real.policy_id) != Some(real.policy_id) {
        d.push(format!("policy id {}, model policy {pname}", hex8(&real.policy_id)));
    }
    if pname == "absent" && (real.policy_id == [0; 32] || ["refused", "plural", "J", "cA", "cB"].iter().any(|n| policy_id(n) == Some(real.policy_id))) {
        d.push("the absent-policy id collides with a named policy".into());
    }
    if real.posture != CausalPosture::Shared || real.proof.is_some() {
        d.push(format!("posture {:?} proof {:?}", real.posture, real.proof.is_some()));
    }
    // members
    let mm = model["members"].as_array().ok_or("model shell without members")?;
    if mm.len() != real.members.len() {
        d.push(format!("{} members, model {}", real.members.len(), mm.len()));
    }
    if real.members.windows(2).any(|p| p[0].member_digest() > p[1].member_digest()) {
        d.push("members not in canonical digest order".into());
    }
    for m in mm {
        let name = m["ref"].as_str().unwrap_or("?");
        let Some(rm) = real.members.iter().find(|x| x.member_ref == BraidMemberRef::Revealed(sid(name))) else {
            d.push(format!("no member for strand {name}"));
            continue;
        };
        if verdict_name(rm.verdict) != m["verdict"].as_str().unwrap_or("?") {
            d.push(format!("member {name}: verdict {:?}, model {}", rm.verdict, m["verdict"]));
        }
        if rm.posture != CausalPosture::Shared {
            d.push(format!("member {name}: posture {:?}", rm.posture));
        }
        let pins_key = if m["npins"].as_u64() == Some(0) { "none".to_string() } else { format!("{name}:{}", m["npins"]) };
        let claims_key = canon(&m["claims"]);
        let checks: [(&str, String, Hash); 7] = [
            ("member", canon(m), rm.member_digest()),
            ("pins", pins_key, rm.support_pin_digest),
            ("fork_basis", canon(&m["fbasis"]), rm.basis_digest),
            ("frontier", canon(&m["frontier"]), rm.frontier_digest),
            ("footprint", canon(&json!({"eo": m["eo"]})), rm.footprint_digest),
            ("claims", claims_key.clone(), rm.claim_digest),
            ("decisions", format!("{}{}", canon(&m["decs"]), claims_key), rm.verdict_digest),
        ];
        for (field, key, real_digest) in checks {
            if let Err(e) = world.rel.add(field, key, real_digest) {
                d.push(e);
            }
        }
    }
    // outcome
    let out = &model["out"];
    let k = out["k"].as_str().unwrap_or("?");
    if kind_name(real.outcome_kind()) != k {
        d.push(format!("outcome {:?}, model {k}", real.outcome_kind()));
    } else {
        match &real.outcome {
            BraidShellOutcome::Plural { alternative_ids } => {
                let mut want: Vec<Hash> = Vec::new();
                for p in out["alts"].as_array().map(Vec::as_slice).unwrap_or(&[]) {
                    match world.pids.get(&canon(p)) {
                        Some(h) => want.push(*h),
                        None => d.push(format!("model plural id {} has no real counterpart", canon(p))),
                    }
                }
                want.sort_unstable();
                if *alternative_ids != want {
                    d.push(format!("alternative ids {:?}, model {:?}", alternative_ids.iter().map(hex8).collect::<Vec<_>>(), want.iter().map(hex8).collect::<Vec<_>>()));
                }
            }
            BraidShellOutcome::Conflict { reason_codes } => {
                let want: Vec<u8> = out["codes"].as_array().map(|a| a.iter().map(|c| reason_code(c.as_str().unwrap_or(""))).collect()).unwrap_or_default();
                if *reason_codes != want {
                    d.push(format!("reason codes {reason_codes:?}, model {want:?} ({})", out["codes"]));
                }
            }
            BraidShellOutcome::Derived { result_refs, collapse_policy, collapse_witness, collapsed_from } => {
                let mut want = Vec::new();
                for r in out["refs"].as_array().map(Vec::as_slice).unwrap_or(&[]) {
                    want.push(world.pref(r)?);
                }
                if *result_refs != want {
                    d.push(format!("result refs {result_refs:?}, model {}", out["refs"]));
                }
                let cpol = out["cpol"].as_str().unwrap_or("");
                let want_pol = if cpol.is_empty() { None } else { policy_id(cpol) };
                let want_from = world.digest_of(out["from"].as_u64().unwrap_or(0));
                let want_wit = if cpol.is_empty() { None } else { Some(COLLAPSE_WITNESS) };
                if *collapse_policy != want_pol || *collapsed_from != want_from || *collapse_witness != want_wit {
                    d.push(format!("collapse lineage policy {:?} from {:?} witness {:?}, model policy `{cpol}` from shell {}", collapse_policy.as_ref().map(hex8), collapsed_from.as_ref().map(hex8), collapse_witness.as_ref().map(hex8), out["from"]));
                }
            }
            BraidShellOutcome::Obstruction { reason_code, witness, obstructed_from } => {
                let want_from = world.digest_of(out["from"].as_u64().unwrap_or(0));
                if u64::from(*reason_code) != out["code"].as_u64().unwrap_or(99) || *obstructed_from != want_from || WitnessDigest::new(*witness).is_err() {
                    d.push(format!("obstruction code {reason_code} from {:?}, model code {} from shell {}", obstructed_from.as_ref().map(hex8), out["code"], out["from"]));
                }
            }
        }
    }
    // identity relations
    if let Err(e) = world.rel.add("shell", canon(model), real.digest) {
        d.push(e);
    }
    if let Err(e) = world.rel.add("coordinate", canon(&json!({"basis": model["basis"], "members": model["members"], "pol": model["pol"]})), real.coordinate.0) {
        d.push(e);
    }
    Ok(d)
}

// --------------------------------------------------------------------------- steps

fn do_tick(world: &mut World, engine: &mut Engine, step: &Value, progs: &[ProgJ], f: &mut Findings, st: &mut Stats, at: &str) -> Result<(), String> {
    let _t = timed("tick");
    let w = step["w"].as_str().ok_or("tick without w")?.to_string();
    let pi = step["pi"].as_u64().ok_or("tick without pi")? as usize;
    let p = progs.get(pi - 1).ok_or("program index out of range")?;
    let reg0 = world.registry_fp();
    world.nonce += 1;
    let env = IngressEnvelope::local_intent(IngressTarget::DefaultWriter { worldline_id: wl(&w) }, make_intent_kind("verif/c15b"), encode_intent(world.nonce, p));
    match world.runtime.ingest(env).map_err(|e| format!("{at}: ingest: {e:?}"))? {
        IngressDisposition::Accepted { head_key: hk, .. } if hk == head_key(wl(&w)) => {}
        other => return Err(format!("{at}: intent for lane {w} not accepted by its own head: {other:?}")),
    }
    let recs = util::catch(|| SchedulerCoordinator::super_tick(&mut world.runtime, &mut world.prov, engine))
        .map_err(|p| format!("{at}: super_tick panicked: {p}"))?
        .map_err(|e| format!("{at}: super_tick: {e:?}"))?;
    st.ticks += 1;
    if recs.len() != 1 {
        return Err(format!("{at}: {} heads committed for one intent", recs.len()));
    }
    if world.registry_fp() != reg0 {
        f.violation("tick_changed_shells", format!("{at}: a tick on lane {w} changed the retained shells or the plural index"));
    }
    Ok(())
}

fn do_fork(world: &mut World, step: &Value, f: &mut Findings, at: &str) -> Result<(), String> {
    let s = step["sid"].as_str().ok_or("fork without sid")?;
    let src = step["src"].as_str().ok_or("fork without src")?;
    let child = step["child"].as_str().ok_or("fork without child")?.to_string();
    let t = step["t"].as_u64().ok_or("fork without t")?;
    let req = ForkStrandRequest {
        strand_id: sid(s),
        source_lane_id: wl(src),
        fork_tick: wt(t),
        child_worldline_id: wl(&child),
        writer_heads: vec![new_head(head_key(wl(&child)))],
        retention_posture: shared_posture(),
    };
    let reg0 = world.registry_fp();
    world.runtime.fork_strand(&mut world.prov, req).map_err(|e| format!("{at}: fork_strand: {e:?}"))?;
    world.live.push(child);
    if world.registry_fp() != reg0 {
        f.violation("fork_changed_shells", at.to_string());
    }
    Ok(())
}

fn do_pin(world: &mut World, step: &Value, at: &str) -> Result<(), String> {
    let owner = step["owner"].as_str().ok_or("pin without owner")?;
    let target = step["target"].as_str().ok_or("pin without target")?;
    let tick = step["tick"].as_u64().ok_or("pin without tick")?;
    let res = world.runtime.pin_support(&world.prov, sid(owner), sid(target), wt(tick));
    if res.is_ok() != step["ok"].as_bool().unwrap_or(false) {
        return Err(format!("{at}: pin_support {res:?}, model ok={}", step["ok"]));
    }
    Ok(())
}

/// Registers a freshly retained shell under the next index after comparing it with the model.
fn adopt(world: &mut World, digest: Hash, model: &Value, f: &mut Findings, st: &mut Stats, at: &str) -> Result<(), String> {
    let Some(real) = world.prov.braid_shell(&digest).cloned() else {
        f.violation("retained_shell_lost", format!("{at}: digest {} returned by the call is not retained", hex8(&digest)));
        return Err("ABORT".into());
    };
    if real.digest != digest {
        f.violation("retained_shell_lost", format!("{at}: shell stored under {} carries digest {}", hex8(&digest), hex8(&real.digest)));
    }
    world.names.push((digest, real.clone()));
    world.model.push(model.clone());
    let diffs = compare_shell(world, &real, model)?;
    if !diffs.is_empty() {
        f.violation("shell_contents_differ_from_model", format!("{at}: shell {}: {}", world.names.len(), diffs.join("; ")));
    }
    st.shells.insert(format!("{}/{}", kind_name(real.outcome_kind()), real.members.len()));
    if real.members.len() > 1 {
        st.two_member += 1;
    }
    Ok(())
}

fn do_settle(world: &mut World, step: &Value, f: &mut Findings, st: &mut Stats, at: &str) -> Result<(), String> {
    let _t = timed("settle");
    let s = step["sid"].as_str().ok_or("settle without sid")?.to_string();
    let pol = step["pol"].as_str().ok_or("settle without pol")?.to_string();
    let child = step["child"].as_str().ok_or("settle without child")?.to_string();
    let want_ok = step["ok"].as_bool().unwrap_or(true);
    let plan = SettlementService::plan_with_policy(&world.runtime, &world.prov, sid(&s), &policy(&pol)).map_err(|e| format!("{at}: plan: {e:?}"))?;
    let target = "P";
    // the model's decisions, and the real plural ids behind the model's plural ids
    let kinds: Vec<&str> = step["kinds"].as_array().map(|a| a.iter().map(|k| k.as_str().unwrap_or("?")).collect()).unwrap_or_default();
    let real_kinds: Vec<&str> = plan
        .decisions
        .iter()
        .map(|d| match d {
            SettlementDecision::ImportCandidate(_) => "import",
            SettlementDecision::ConflictArtifact(_) => "conflict",
            SettlementDecision::PluralAlternative(_) => "plural",
        })
        .collect();
    let real_reasons: Vec<&str> = plan.decisions.iter().map(|d| if let SettlementDecision::ConflictArtifact(c) = d { reason_name(c.reason) } else { "" }).collect();
    let reasons: Vec<&str> = step["reasons"].as_array().map(|a| a.iter().map(|k| k.as_str().unwrap_or("?")).collect()).unwrap_or_default();
    if real_kinds != kinds || real_reasons != reasons {
        // the settlement leg of C15 owns this comparison; here it only means the shell cannot be compared
        f.drift(format!("{at}: plan decisions {real_kinds:?} {real_reasons:?}, model {kinds:?} {reasons:?}"));
    }
    for (i, d) in plan.decisions.iter().enumerate() {
        if let SettlementDecision::PluralAlternative(p) = d {
            // the model's id of this alternative (target, child, source tick, contended slots, policy)
            let Some(mp) = step["pids"][i].as_array().and_then(|a| a.first()) else { continue };
            if mp["t"].as_u64() != Some(p.source_ref.worldline_tick.as_u64()) || p.source_ref.worldline_id != wl(&child) {
                f.drift(format!("{at}: plural decision {i} is for {:?}, model {}", p.source_ref, mp));
                continue;
            }
            let key = canon(mp);
            if let Some(old) = world.pids.get(&key) {
                if *old != p.plural_id {
                    f.violation("plural_id_not_stable", format!("{at}: the same alternative ({}) got plural id {} now and {} before", cut(&key), hex8(&p.plural_id), hex8(old)));
                }
            }
            world.pids.insert(key, p.plural_id);
        }
    }
    let (rt_before, pv_before) = (world.runtime.clone(), world.prov.clone());
    let vals0 = world.vals(target)?;
    let root0 = world.runtime.worldlines().get(&wl(target)).map(|x| x.state().state_root());
    let shells0: BTreeSet<Hash> = world.prov.braid_shells().map(|x| x.digest).collect();
    let res = util::catch(|| SettlementService::settle_with_policy(&mut world.runtime, &mut world.prov, sid(&s), &policy(&pol)))
        .map_err(|p| format!("{at}: settle panicked: {p}"))?;
    st.settles += 1;
    let shells1: BTreeSet<Hash> = world.prov.braid_shells().map(|x| x.digest).collect();
    match res {
        Err(e) => {
            st.refused_settles += 1;
            // all-or-nothing: a refused settlement leaves no trace
            let (rt0, pv0) = (rt_fp(&rt_before), pv_fp(&pv_before));
            if rt_fp(&world.runtime) != rt0 || pv_fp(&world.prov) != pv0 {
                f.violation("refused_settlement_left_traces", format!("{at}: {e:?}: {}", fp_diff(&pv0, &pv_fp(&world.prov))));
            }
            if want_ok {
                f.violation("settlement_refused", format!("{at}: {e:?}; the model retains a shell"));
                return Err("ABORT".into());
            }
        }
        Ok(result) => {
            let new: Vec<Hash> = shells1.difference(&shells0).copied().collect();
            if !shells0.is_subset(&shells1) {
                f.violation("retained_shell_lost", format!("{at}: a settlement removed a retained shell"));
            }
            if !want_ok {
                // the model says the plural alternative of this plan is already bound to an earlier shell
                check_immutable(world, f, at);
                f.violation("plural_artifact_bound_twice", format!("{at}: re-settlement of {s} under {pol} was accepted and retained {} new shell(s) although its plural alternative is already retained", new.len()));
                return Err("ABORT".into());
            }
            if step["empty"].as_bool() == Some(true) {
                if !new.is_empty() || result.braid_shell.is_some() {
                    f.violation("empty_settlement_retained_shell", at.to_string());
                }
                return Ok(());
            }
            if new.len() != 1 || result.braid_shell != new.first().copied() {
                f.violation("settlement_shell_count", format!("{at}: {} new shells, result names {:?}", new.len(), result.braid_shell.as_ref().map(hex8)));
                return Err("ABORT".into());
            }
            // retained (non-import) decisions never change the parent: decided on the real values
            let any_import = real_kinds.iter().any(|k| *k == "import");
            let vals1 = world.vals(target)?;
            let root1 = world.runtime.worldlines().get(&wl(target)).map(|x| x.state().state_root());
            if !any_import && (vals1 != vals0 || root1 != root0) {
                f.violation("retained_artifact_changed_parent", format!("{at}: a settlement of only retained decisions {real_kinds:?} changed the parent: {vals0:?} -> {vals1:?} (state root equal: {})", root0 == root1));
            }
            let digest = new[0];
            adopt(world, digest, &step["made"][0], f, st, at)?;
            // what the settlement recorded, read from the real plan (verdict precedence plural > conflict > derived)
            let verdict = if real_kinds.contains(&"plural") {
                MemberVerdict::Plural
            } else if real_kinds.contains(&"conflict") {
                MemberVerdict::Conflict
            } else {
                MemberVerdict::Derived
            };
            let kind = match verdict {
                MemberVerdict::Plural => AdmissionOutcomeKind::Plural,
                MemberVerdict::Conflict => AdmissionOutcomeKind::Conflict,
                _ => AdmissionOutcomeKind::Derived,
            };
            world.settled.insert(world.names.len(), (sid(&s), verdict, kind));
            let shell = &world.names[world.names.len() - 1].1;
            let plural_ids: BTreeSet<Hash> = plan.decisions.iter().filter_map(|d| if let SettlementDecision::PluralAlternative(p) = d { Some(p.plural_id) } else { None }).collect();
            let listed: BTreeSet<Hash> = match &shell.outcome {
                BraidShellOutcome::Plural { alternative_ids } => alternative_ids.iter().copied().collect(),
                _ => BTreeSet::new(),
            };
            if listed != plural_ids || shell.members.len() != 1 || shell.members[0].verdict != verdict || shell.outcome_kind() != kind {
                f.violation("shell_differs_from_settlement", format!("{at}: decisions {real_kinds:?} retained as {:?} with member verdicts {:?}, {} alternative ids for {} plural decisions", shell.outcome_kind(), shell.members.iter().map(|m| m.verdict).collect::<Vec<_>>(), listed.len(), plural_ids.len()));
            }
            for pid in &plural_ids {
                if world.prov.braid_shell_for_plural(pid).map(|x| x.digest) != Some(digest) {
                    f.violation("plural_index_differs_from_shells", format!("{at}: plural artifact {} does not resolve to the shell that retained it", hex8(pid)));
                }
            }
        }
    }
    Ok(())
}

fn members_of(world: &World, idx: u64) -> Result<Vec<BraidShellMember>, String> {
    let d = world.digest_of(idx).ok_or("joint over an unknown shell")?;
    Ok(world.prov.braid_shell(&d).ok_or("joint source shell vanished")?.members.clone())
}

fn joint_pid(pid: &Hash) -> Hash {
    let mut h = blake3::Hasher::new();
    h.update(b"verif.c15b.joint-plural-id\0");
    h.update(pid);
    *h.finalize().as_bytes()
}

fn do_joint(world: &mut World, step: &Value, f: &mut Findings, st: &mut Stats, at: &str) -> Result<(), String> {
    let (a, b) = (step["a"].as_u64().unwrap_or(0), step["b"].as_u64().unwrap_or(0));
    let mode = step["mode"].as_str().unwrap_or("fresh");
    let model = &step["made"][0];
    let sa = world.names.get(a as usize - 1).ok_or("joint: shell a")?.1.clone();
    let sb = world.names.get(b as usize - 1).ok_or("joint: shell b")?.1.clone();
    let mut members = members_of(world, a)?;
    members.extend(members_of(world, b)?);
    // the outcome the model assembled, in real identities
    let out = &model["out"];
    let outcome = match out["k"].as_str().unwrap_or("?") {
        "plural" => {
            let mut ids = Vec::new();
            for s in [&sa, &sb] {
                if let BraidShellOutcome::Plural { alternative_ids } = &s.outcome {
                    for p in alternative_ids {
                        ids.push(if mode == "same" { *p } else { joint_pid(p) });
                    }
                }
            }
            // learn the real ids of the model's joint ids
            for p in out["alts"].as_array().map(Vec::as_slice).unwrap_or(&[]) {
                if p["joint"].as_bool() == Some(true) {
                    let mut base = p.clone();
                    base["joint"] = json!(false);
                    base["pol"] = json!("plural");
                    if let Some(h) = world.pids.get(&canon(&base)).copied() {
                        world.pids.insert(canon(p), joint_pid(&h));
                    }
                }
            }
            BraidShellOutcome::Plural { alternative_ids: ids }
        }
        "conflict" => {
            let mut codes = Vec::new();
            for s in [&sa, &sb] {
                if let BraidShellOutcome::Conflict { reason_codes } = &s.outcome {
                    codes.extend(reason_codes.iter().copied());
                }
            }
            BraidShellOutcome::Conflict { reason_codes: codes }
        }
        _ => {
            let mut refs = Vec::new();
            for s in [&sa, &sb] {
                if let BraidShellOutcome::Derived { result_refs, .. } = &s.outcome {
                    refs.extend(result_refs.iter().copied());
                }
            }
            BraidShellOutcome::Derived { result_refs: refs, collapse_policy: None, collapse_witness: None, collapsed_from: None }
        }
    };
    let jpol = policy_id("J").ok_or("joint policy")?;
    let _t = timed("joint");
    let rt0 = world.lanes_fp();
    let pv0 = pv_fp(&world.prov);
    // requests the code must refuse without a trace: the same strand twice, an outcome arm the verdicts contradict
    let wrong_arm = if matches!(outcome, BraidShellOutcome::Conflict { .. }) { BraidShellOutcome::Plural { alternative_ids: vec![[0x77; 32]] } } else { BraidShellOutcome::Conflict { reason_codes: vec![4] } };
    let dup: Vec<BraidShellMember> = members.iter().take(1).cloned().chain(members.iter().take(1).cloned()).collect();
    for (why, ms, oc, pid) in [("duplicate_member", dup, outcome.clone(), jpol), ("outcome_contradicts_verdicts", members.clone(), wrong_arm, jpol), ("empty_policy", members.clone(), outcome.clone(), [0u8; 32])] {
        // (a contradicting arm exists only where a member is not Derived)
        if why == "outcome_contradicts_verdicts" && members.iter().all(|m| m.verdict == MemberVerdict::Derived) {
            continue;
        }
        if why == "outcome_contradicts_verdicts" && matches!(oc, BraidShellOutcome::Conflict { .. }) && members.iter().any(|m| m.verdict == MemberVerdict::Conflict) && !members.iter().any(|m| m.verdict == MemberVerdict::Plural) {
            continue;
        }
        if let Ok(s) = BraidShell::assemble(sa.worldline_id, sa.basis, ms, pid, oc, CausalPosture::Shared) {
            f.violation(&format!("assemble_accepted:{why}"), format!("{at}: {:?}", s.outcome_kind()));
        }
    }
    let assembled = BraidShell::assemble(sa.worldline_id, sa.basis, members, jpol, outcome, CausalPosture::Shared);
    let res = match assembled {
        Ok(shell) => world.prov.append_braid_shell(shell).map_err(|e| err_name(&e)),
        Err(e) => Err(err_name(&e)),
    };
    st.joints += 1;
    let want_ok = step["ok"].as_bool().unwrap_or(false);
    match res {
        Ok(digest) => {
            if world.lanes_fp() != rt0 {
                f.violation("shell_call_changed_lanes:joint", format!("{at}: {}", fp_diff(&rt0, &world.lanes_fp())));
            }
            if !want_ok {
                check_immutable(world, f, at);
                f.violation("plural_artifact_bound_twice", format!("{at}: a second shell claiming plural ids already bound ({mode}) was retained; model: {}", step["err"]));
                return Err("ABORT".into());
            }
            adopt(world, digest, model, f, st, at)?;
        }
        Err(e) => {
            if world.lanes_fp() != rt0 || pv_fp(&world.prov) != pv0 {
                f.violation("refused_retention_left_traces", format!("{at}: {e}: {}", fp_diff(&pv0, &pv_fp(&world.prov))));
            }
            if want_ok {
                f.violation("valid_shell_refused", format!("{at}: {e}"));
                return Err("ABORT".into());
            } else if e != step["err"].as_str().unwrap_or("") {
                f.drift(format!("{at}: refused with {e}, model {}", step["err"]));
            }
        }
    }
    Ok(())
}

fn collapse_policy(name: &str) -> Result<Option<CollapsePolicy>, String> {
    if name == "none" {
        return Ok(None);
    }
    let id = policy_id(name).ok_or(format!("unknown collapse policy {name}"))?;
    Ok(Some(CollapsePolicy { policy_id: id, witness: WitnessDigest::new(COLLAPSE_WITNESS).map_err(|e| format!("witness: {e:?}"))? }))
}

/// One collapse call (pure part): runs `collapse_braid_shell`, checks purity, determinism, the documented
/// refusal and the result against the parent and the model.  Returns the shell the call produced.
fn run_collapse(world: &mut World, c: &Value, base: Option<&str>, f: &mut Findings, st: &mut Stats, at: &str) -> Result<Option<BraidShell>, String> {
    let d_idx = c["d"].as_u64().unwrap_or(0);
    let digest = world.digest_of(d_idx).unwrap_or([0xEE; 32]);
    let cpol = c["cpol"].as_str().unwrap_or("none");
    let mut sel = Vec::new();
    for r in c["sel"].as_array().map(Vec::as_slice).unwrap_or(&[]) {
        sel.push(world.pref(r)?);
    }
    let pol = collapse_policy(cpol)?;
    let r1 = util::catch(|| collapse_braid_shell(&world.prov, digest, sel.clone(), pol)).map_err(|p| format!("{at}: collapse_braid_shell panicked: {p}"))?;
    let r2 = collapse_braid_shell(&world.prov, digest, sel.clone(), pol);
    if r1 != r2 {
        f.violation("collapse_not_deterministic", format!("{at}: two collapses of shell {d_idx} under `{cpol}` differ"));
    }
    if !registry_intact(world) {
        f.violation("collapse_not_pure", format!("{at}: collapse_braid_shell changed the retained shells"));
    }
    if let Some(base) = base {
        let pv1 = pv_fp(&world.prov);
        if pv1 != base {
            f.violation("collapse_not_pure", format!("{at}: collapse_braid_shell changed the provenance service: {}", fp_diff(base, &pv1)));
        }
    }
    let parent = world.digest_of(d_idx).and_then(|d| world.prov.braid_shell(&d).cloned());
    let parent_plural = parent.as_ref().is_some_and(|p| matches!(p.outcome, BraidShellOutcome::Plural { .. }));
    let want_class = c["class"].as_str().unwrap_or("?");
    let (class, shell, err) = match r1 {
        Ok(CollapseResult::Derived(s)) => ("derived", Some(s), String::new()),
        Ok(CollapseResult::Obstructed(s)) => ("obstructed", Some(s), String::new()),
        Err(e) => ("err", None, err_name(&e)),
    };
    // ---- the property, decided on the real outcome
    if pol.is_none() && class == "derived" {
        f.violation("collapse_without_policy_not_refused", format!("{at}: collapse of shell {d_idx} without a policy produced a derived shell"));
    }
    if !parent_plural && class != "err" {
        f.violation("collapse_of_non_plural_accepted", format!("{at}: shell {d_idx} ({}) collapsed to {class}", parent.as_ref().map(|p| kind_name(p.outcome_kind())).unwrap_or("not retained")));
    }
    if let (Some(s), Some(p)) = (&shell, &parent) {
        if let Err(e) = s.validate() {
            f.violation("collapse_result_invalid", format!("{at}: {e:?}"));
        }
        if s.members != p.members || s.worldline_id != p.worldline_id || s.basis != p.basis || s.posture != p.posture {
            f.violation("collapse_result_differs_from_parent", format!("{at}: the {class} shell does not carry exactly the parent's members / lane / basis: {:?} vs {:?}", s.members.iter().map(|m| (m.member_ref, m.verdict)).collect::<Vec<_>>(), p.members.iter().map(|m| (m.member_ref, m.verdict)).collect::<Vec<_>>()));
        }
        match &s.outcome {
            BraidShellOutcome::Obstruction { reason_code, obstructed_from, .. } => {
                if *reason_code != COLLAPSE_WITHOUT_POLICY_REASON || *obstructed_from != Some(p.digest) || pol.is_some() {
                    f.violation("collapse_obstruction_not_as_documented", format!("{at}: reason {reason_code}, from {:?}, policy given: {}", obstructed_from.as_ref().map(hex8), pol.is_some()));
                }
            }
            BraidShellOutcome::Derived { result_refs, collapse_policy, collapse_witness, collapsed_from } => {
                if *result_refs != sel {
                    f.violation("collapse_records_other_selection", format!("{at}: selected {sel:?}, recorded {result_refs:?}"));
                }
                if *collapsed_from != Some(p.digest) || *collapse_policy != pol.map(|x| x.policy_id) || *collapse_witness != Some(COLLAPSE_WITNESS) || Some(s.policy_id) != pol.map(|x| x.policy_id) {
                    f.violation("collapse_lineage_wrong", format!("{at}: from {:?} policy {:?}", collapsed_from.as_ref().map(hex8), collapse_policy.as_ref().map(hex8)));
                }
            }
            other => f.violation("collapse_result_arm", format!("{at}: {other:?}")),
        }
    }
    // ---- against the model
    if class != want_class {
        f.violation("collapse_outcome_differs_from_model", format!("{at}: collapse of shell {d_idx} under `{cpol}`: real {class} {err}, model {want_class} {}", c["err"]));
        return Ok(shell);
    }
    if class == "err" && err != c["err"].as_str().unwrap_or("") {
        f.drift(format!("{at}: refused with {err}, model {}", c["err"]));
    }
    match class {
        "derived" => st.derived += 1,
        "obstructed" => st.obstructed += 1,
        _ => st.refused += 1,
    }
    if let (Some(s), true) = (&shell, d_idx > 0) {
        let mut model = world.model[d_idx as usize - 1].clone();
        model["pol"] = c["pol"].clone();
        model["out"] = c["out"][0].clone();
        let diffs = compare_shell(world, s, &model)?;
        if !diffs.is_empty() {
            f.violation("shell_contents_differ_from_model", format!("{at}: {class} shell of shell {d_idx} under `{cpol}`: {}", diffs.join("; ")));
        }
        let want_idx = c["idx"].as_u64().unwrap_or(0);
        let retained = world.names.iter().position(|(d, _)| *d == s.digest).map(|i| i as u64 + 1).unwrap_or(0);
        if c["keep"].as_bool() == Some(false) && want_idx != retained {
            f.violation("shell_identity_differs_from_model", format!("{at}: the produced shell is retained shell {retained}, model says {want_idx}"));
        }
    }
    Ok(shell)
}

fn do_collapse(world: &mut World, step: &Value, f: &mut Findings, st: &mut Stats, at: &str) -> Result<(), String> {
    let _t = timed("collapse");
    let (rt0, pv0) = (world.lanes_fp(), pv_fp(&world.prov));
    let shell = run_collapse(world, step, Some(&pv0), f, st, at)?;
    let Some(shell) = shell else {
        if world.lanes_fp() != rt0 {
            f.violation("shell_call_changed_lanes:collapse", format!("{at}: {}", fp_diff(&rt0, &world.lanes_fp())));
        }
        return Ok(());
    };
    if step["keep"].as_bool() != Some(true) || step["class"].as_str() == Some("err") {
        return Ok(());
    }
    let before: BTreeSet<Hash> = world.prov.braid_shells().map(|x| x.digest).collect();
    let digest = shell.digest;
    let res = world.prov.append_braid_shell(shell.clone());
    st.collapses_kept += 1;
    let after: BTreeSet<Hash> = world.prov.braid_shells().map(|x| x.digest).collect();
    if world.lanes_fp() != rt0 {
        f.violation("shell_call_changed_lanes:collapse", format!("{at}: collapse_braid_shell + append_braid_shell: {}", fp_diff(&rt0, &world.lanes_fp())));
    }
    match res {
        Err(e) => {
            if pv_fp(&world.prov) != pv0 {
                f.violation("refused_retention_left_traces", format!("{at}: {e:?}"));
            }
            f.violation("valid_shell_refused", format!("{at}: the shell returned by collapse_braid_shell was refused: {e:?}"));
            Err("ABORT".into())
        }
        Ok(d) => {
            let new: Vec<Hash> = after.difference(&before).copied().collect();
            let want_new = step["new"].as_bool().unwrap_or(false);
            // all-or-nothing: exactly this one shell, or (idempotent) nothing
            if d != digest || !before.is_subset(&after) || new.len() > 1 || (new.len() == 1 && new[0] != digest) {
                f.violation("collapse_not_all_or_nothing", format!("{at}: retention of one collapse result added {:?}", new.iter().map(hex8).collect::<Vec<_>>()));
                return Err("ABORT".into());
            }
            if new.is_empty() && pv_fp(&world.prov) != pv0 {
                f.violation("collapse_not_all_or_nothing", format!("{at}: idempotent re-retention changed the provenance service"));
            }
            if (new.len() == 1) != want_new {
                f.violation("shell_identity_differs_from_model", format!("{at}: retention added {} shell(s), model new={want_new}", new.len()));
                return Err("ABORT".into());
            }
            if want_new {
                let mut model = world.model[step["d"].as_u64().unwrap_or(1) as usize - 1].clone();
                model["pol"] = step["pol"].clone();
                model["out"] = step["out"][0].clone();
                adopt(world, digest, &model, f, st, at)?;
            }
            if world.names.iter().position(|(x, _)| *x == digest).map(|i| i as u64 + 1) != step["idx"].as_u64() {
                f.violation("shell_identity_differs_from_model", format!("{at}: retained as shell {:?}, model {}", world.names.iter().position(|(x, _)| *x == digest).map(|i| i + 1), step["idx"]));
            }
            Ok(())
        }
    }
}

// --------------------------------------------------------------------------- pure calls in the final state

fn do_reads(world: &mut World, case: &Value, f: &mut Findings, st: &mut Stats) -> Result<String, String> {
    let _t = timed("reads");
    let (rt0, lanes0, pv0) = (rt_fp(&world.runtime), world.lanes_fp(), pv_fp(&world.prov));
    let bare: BTreeMap<Hash, BraidShell> = world.prov.braid_shells().map(|s| (s.digest, s.clone())).collect();
    for pair in case["probes"]["reads"].as_array().map(Vec::as_slice).unwrap_or(&[]) {
        for p in pair.as_array().map(Vec::as_slice).unwrap_or(&[]) {
            let op = p["op"].as_str().unwrap_or("?");
            let d_idx = p["d"].as_u64().unwrap_or(0);
            let at = format!("final state: {op} of shell {d_idx}");
            let digest = world.digest_of(d_idx).unwrap_or([0xEE; 32]);
            let shell = world.prov.braid_shell(&digest).cloned();
            // (outcome kind, member verdicts in order, policy, law, error)
            let seen: Result<(AdmissionOutcomeKind, Vec<(BraidMemberRef, MemberVerdict)>, Hash, PluralityLawFamily), String>;
            if op == "audit" {
                st.audits += 1;
                let a1 = util::catch(|| audit_braid_shell(&digest, &world.prov)).map_err(|x| format!("{at}: panicked: {x}"))?;
                let a2 = audit_braid_shell(&digest, &world.prov);
                if a1 != a2 {
                    f.violation("audit_not_deterministic", at.clone());
                }
                if audit_braid_shell(&digest, &bare) != a1 {
                    f.violation("audit_depends_on_more_than_the_records", format!("{at}: the service and a bare record map give different audits"));
                }
                seen = match a1 {
                    Err(e) => Err(err_name(&e)),
                    Ok(a) => {
                        if let Some(s) = &shell {
                            // the audit reports the shell's own facts, member by member
                            let facts_ok = a.member_facts.len() == s.members.len()
                                && a.member_facts.iter().zip(&s.members).all(|(x, m)| {
                                    x.member_ref == m.member_ref
                                        && x.verdict == m.verdict
                                        && x.posture == m.posture
                                        && x.support_pin_digest == m.support_pin_digest
                                        && x.basis_digest == m.basis_digest
                                        && x.frontier_digest == m.frontier_digest
                                        && x.footprint_digest == m.footprint_digest
                                        && x.claim_digest == m.claim_digest
                                        && x.verdict_digest == m.verdict_digest
                                });
                            let frontier_ok = a.settlement_frontier == s.members.iter().map(|m| m.member_ref).collect::<Vec<_>>();
                            let head_ok = a.shell_digest == s.digest
                                && a.coordinate == s.coordinate
                                && a.outcome_kind == s.outcome_kind()
                                && a.policy_id == s.policy_id
                                && a.shell_posture == s.posture
                                && a.proof_binding == BraidProofBinding::Absent
                                && a.witness_posture == BraidWitnessPosture::SelfWitnessIntegrityOnly { digest: s.witness_digest }
                                && Some(a.posture_floor) == s.members.iter().map(|m| m.posture).min();
                            if !facts_ok || !frontier_ok || !head_ok {
                                f.violation(
                                    "audit_differs_from_shell",
                                    format!("{at}: audit facts {:?} frontier {:?}; retained members {:?} (header equal: {head_ok})",
                                        a.member_facts.iter().map(|x| (member_name(world, &x.member_ref), x.verdict)).collect::<Vec<_>>(),
                                        a.settlement_frontier.iter().map(|x| member_name(world, x)).collect::<Vec<_>>(),
                                        s.members.iter().map(|m| (member_name(world, &m.member_ref), m.verdict)).collect::<Vec<_>>()),
                                );
                            }
                        }
                        Ok((a.outcome_kind, a.member_facts.iter().map(|x| (x.member_ref, x.verdict)).collect(), a.policy_id, a.law_reading.law_ref().family()))
                    }
                };
            } else {
                st.replays += 1;
                let r1 = util::catch(|| replay_braid_shell(&digest, &world.prov)).map_err(|x| format!("{at}: panicked: {x}"))?;
                let r2 = replay_braid_shell(&digest, &world.prov);
                if r1 != r2 {
                    f.violation("replay_not_deterministic", at.clone());
                }
                // hostile replay: from the bare records alone
                if replay_braid_shell(&digest, &bare) != r1 {
                    f.violation("replay_depends_on_more_than_the_records", format!("{at}: the service and a bare record map replay differently"));
                }
                seen = match r1 {
                    Err(e) => Err(err_name(&e)),
                    Ok(r) => {
                        if let Some(s) = &shell {
                            let want: Vec<(BraidMemberRef, MemberVerdict)> = s.members.iter().map(|m| (m.member_ref, m.verdict)).collect();
                            if r.member_verdicts != want || r.outcome_kind != s.outcome_kind() || r.policy_id != s.policy_id || r.witness_digest != s.witness_digest || r.posture != s.posture {
                                f.violation("replay_differs_from_shell", format!("{at}: replay {:?} {:?}; retained {:?} {:?}", r.outcome_kind, r.member_verdicts.iter().map(|(m, v)| (member_name(world, m), *v)).collect::<Vec<_>>(), s.outcome_kind(), want.iter().map(|(m, v)| (member_name(world, m), *v)).collect::<Vec<_>>()));
                            }
                        }
                        Ok((r.outcome_kind, r.member_verdicts.clone(), r.policy_id, r.law_ref.family()))
                    }
                };
            }
            // purity (the provenance service after every call; the lanes once after the whole group - neither call
            // is handed the runtime)
            if !registry_intact(world) {
                f.violation(&format!("{op}_not_pure"), format!("{at}: the call changed the retained shells"));
            }
            let pv1 = if op == "replay" { pv_fp(&world.prov) } else { pv0.clone() };
            if pv1 != pv0 {
                f.violation(&format!("{op}_not_pure"), format!("{at}: {}", fp_diff(&pv0, &pv1)));
            }
            // a shell replays to exactly the member state its settlement recorded
            if let (Ok((kind, verdicts, _, _)), Some((strand, verdict, skind))) = (&seen, world.settled.get(&(d_idx as usize))) {
                if *verdicts != vec![(BraidMemberRef::Revealed(*strand), *verdict)] || kind != skind {
                    f.violation(&format!("{op}_differs_from_settlement"), format!("{at}: reports {kind:?} {:?}; the settlement recorded {skind:?} with verdict {verdict:?}", verdicts.iter().map(|(m, v)| (member_name(world, m), *v)).collect::<Vec<_>>()));
                }
            }
            // against the model
            let want_ok = p["ok"].as_bool().unwrap_or(false);
            match &seen {
                Err(e) => {
                    if want_ok {
                        f.violation(&format!("{op}_refused"), format!("{at}: {e}; the model reads the shell"));
                    } else if e != p["err"].as_str().unwrap_or("") {
                        f.drift(format!("{at}: refused with {e}, model {}", p["err"]));
                    }
                }
                Ok((kind, verdicts, pol, law)) => {
                    if !want_ok {
                        f.violation(&format!("{op}_of_unknown_shell_accepted"), format!("{at}: model {}", p["err"]));
                        continue;
                    }
                    let got: BTreeSet<String> = verdicts.iter().map(|(m, v)| format!("{}:{}", member_name(world, m), verdict_name(*v))).collect();
                    let want: BTreeSet<String> = p["verdicts"].as_array().map(|a| a.iter().map(|x| format!("{}:{}", x["ref"].as_str().unwrap_or("?"), x["verdict"].as_str().unwrap_or("?"))).collect()).unwrap_or_default();
                    let pname = p["pol"].as_str().unwrap_or("?").to_string();
                    let pol_ok = want_policy(world, &pname, *pol) == Some(*pol);
                    if got != want || kind_name(*kind) != p["kind"].as_str().unwrap_or("?") || law_name(*law) != p["law"].as_str().unwrap_or("?") || !pol_ok {
                        f.violation(&format!("{op}_differs_from_model"), format!("{at}: real {} {got:?} law {} policy {}; model {} {want:?} law {} policy {pname}", kind_name(*kind), law_name(*law), hex8(pol), p["kind"], p["law"]));
                    }
                }
            }
            // lineage: a collapse / obstruction shell does not replay without its plural parent
            if let Some(s) = &shell {
                let has_parent = matches!(&s.outcome, BraidShellOutcome::Derived { collapsed_from: Some(_), .. } | BraidShellOutcome::Obstruction { obstructed_from: Some(_), .. });
                if has_parent && op == "replay" {
                    st.lineage_probes += 1;
                    let alone: BTreeMap<Hash, BraidShell> = BTreeMap::from([(s.digest, s.clone())]);
                    match replay_braid_shell(&s.digest, &alone) {
                        Err(BraidShellError::InvalidLineageParent { .. }) => {}
                        other => f.violation("lineage_shell_replays_without_parent", format!("{at}: {:?}", other.map(|r| r.outcome_kind))),
                    }
                }
            }
        }
    }
    let lanes1 = world.lanes_fp();
    if lanes1 != lanes0 {
        f.violation("shell_call_changed_lanes:audit_replay", format!("final state: audit / replay of the retained shells: {}", fp_diff(&lanes0, &lanes1)));
    }
    Ok(rt0)
}

fn do_collapse_probes(world: &mut World, case: &Value, f: &mut Findings, st: &mut Stats, rt0: &str) -> Result<(), String> {
    let _t = timed("collapse_probes");
    let pv0 = pv_fp(&world.prov);
    for row in case["probes"]["collapses"].as_array().map(Vec::as_slice).unwrap_or(&[]) {
        for c in row.as_array().map(Vec::as_slice).unwrap_or(&[]) {
            st.collapse_probes += 1;
            let at = format!("final state: collapse of shell {} under `{}` selecting {}", c["d"], c["cpol"].as_str().unwrap_or("?"), c["selkind"].as_str().unwrap_or("?"));
            run_collapse(world, c, None, f, st, &at)?;
        }
        let pv1 = pv_fp(&world.prov);
        if pv1 != pv0 {
            f.violation("collapse_not_pure", format!("final state: collapse_braid_shell probes changed the provenance service: {}", fp_diff(&pv0, &pv1)));
        }
    }
    let rt1 = rt_fp(&world.runtime);
    if rt1 != rt0 {
        f.violation("shell_call_changed_lanes:pure_calls", format!("final state: `{{:?}}` of the runtime differs after the audit / replay / collapse calls: {}", fp_diff(rt0, &rt1)));
    }
    Ok(())
}

/// The registry at the end: every model shell is retained with the same content, the residue index agrees.
fn check_final(world: &mut World, case: &Value, f: &mut Findings) -> Result<(), String> {
    let shells = case["shells"].as_array().ok_or("case without shells")?;
    if shells.len() != world.names.len() || world.prov.braid_shells().count() != shells.len() {
        f.violation("registry_size_differs_from_model", format!("final state: {} retained, {} tracked, model {}", world.prov.braid_shells().count(), world.names.len(), shells.len()));
        return Ok(());
    }
    for (i, m) in shells.iter().enumerate() {
        let d = world.names[i].0;
        let Some(real) = world.prov.braid_shell(&d).cloned() else { continue };
        let diffs = compare_shell(world, &real, m)?;
        if !diffs.is_empty() {
            f.violation("shell_contents_differ_from_model", format!("final state: shell {}: {}", i + 1, diffs.join("; ")));
        }
    }
    for b in case["pidx"].as_array().map(Vec::as_slice).unwrap_or(&[]) {
        let key = canon(&b["pid"]);
        let want = world.digest_of(b["shell"].as_u64().unwrap_or(0));
        match world.pids.get(&key) {
            None => f.drift(format!("final state: model plural id {} has no real counterpart", cut(&key))),
            Some(pid) => {
                let got = world.prov.braid_shell_for_plural(pid).map(|s| s.digest);
                if got != want {
                    f.violation("plural_index_differs_from_model", format!("final state: {} resolves to {:?}, model shell {}", cut(&key), got.as_ref().map(hex8), b["shell"]));
                }
            }
        }
    }
    Ok(())
}

/// The state of one behaviour: the world plus what has been found and counted so far.
#[derive(Clone)]
struct Run {
    world: World,
    f: Findings,
    st: Stats,
    aborted: bool,
}

/// Shared by the behaviours of one harness run: the engine, U0, and the state at the end of the scenario
/// script of the previous behaviour (many behaviours continue the same scenario).
pub struct Ctx {
    engine: Engine,
    u0: WorldlineState,
    cache: Option<(String, Run)>,
}

impl Ctx {
    pub fn new() -> Result<Self, String> {
        let u0 = u0_state();
        Ok(Self { engine: new_engine(&u0)?, u0, cache: None })
    }
}

fn run_steps(run: &mut Run, engine: &mut Engine, steps: &[Value], offset: usize, progs: &[ProgJ]) -> Result<(), String> {
    for (i, step) in steps.iter().enumerate() {
        if run.aborted {
            break;
        }
        let op = step["op"].as_str().unwrap_or("");
        let at = format!("step {} ({op})", offset + i);
        let (world, f, st) = (&mut run.world, &mut run.f, &mut run.st);
        let r = match op {
            "tick" => do_tick(world, engine, step, progs, f, st, &at),
            "fork" => do_fork(world, step, f, &at),
            "pin" => do_pin(world, step, &at),
            "settle" => do_settle(world, step, f, st, &at),
            "joint" => do_joint(world, step, f, st, &at),
            "collapse" => do_collapse(world, step, f, st, &at),
            other => Err(format!("unknown step op {other}")),
        };
        let r = r.and_then(|()| {
            check_immutable(world, f, &at);
            check_snapshot(world, step, f, &at)
        });
        match r {
            Err(e) if e == "ABORT" => run.aborted = true,
            Err(e) if !run.f.list.is_empty() => {
                run.f.drift(format!("behaviour abandoned after the violation: {e}"));
                run.aborted = true;
            }
            Err(e) => return Err(e),
            Ok(()) => {}
        }
    }
    Ok(())
}

pub fn check_case(ctx: &mut Ctx, v: &Value) -> Value {
    let progs: Vec<ProgJ> = match serde_json::from_value(v["prog"].clone()) {
        Ok(p) => p,
        Err(e) => return json!({"verdict":"tool_error","detail":format!("case parse: {e}")}),
    };
    let Some(steps) = v["steps"].as_array() else {
        return json!({"verdict":"tool_error","detail":"case without steps"});
    };
    // the scenario script = everything before the last `depth` steps
    let script_len = steps.len().saturating_sub(v["depth"].as_u64().unwrap_or(0) as usize);
    let key = Value::Array(steps[..script_len].to_vec()).to_string();
    let mut run = match &ctx.cache {
        // (the calls of the script are counted once, by the behaviour that made them)
        Some((k, r)) if *k == key => Run { st: Stats { shells: r.st.shells.clone(), ..Stats::default() }, ..r.clone() },
        _ => {
            let world = match World::new(&ctx.u0) {
                Ok(w) => w,
                Err(e) => return json!({"verdict":"tool_error","detail":e}),
            };
            let mut r = Run { world, f: Findings::default(), st: Stats::default(), aborted: false };
            if let Err(e) = run_steps(&mut r, &mut ctx.engine, &steps[..script_len], 0, &progs) {
                return json!({"verdict":"tool_error","detail":e});
            }
            ctx.cache = Some((key, r.clone()));
            r
        }
    };
    if let Err(e) = run_steps(&mut run, &mut ctx.engine, &steps[script_len..], script_len, &progs) {
        return json!({"verdict":"tool_error","detail":e});
    }
    let Run { mut world, mut f, mut st, aborted } = run;
    if !aborted {
        let r = check_final(&mut world, v, &mut f)
            .and_then(|()| do_reads(&mut world, v, &mut f, &mut st))
            .and_then(|rt0| do_collapse_probes(&mut world, v, &mut f, &mut st, &rt0));
        check_immutable(&world, &mut f, "after the pure calls");
        if let Err(e) = r {
            if f.list.is_empty() {
                return json!({"verdict":"tool_error","detail":e});
            }
            f.drift(format!("behaviour abandoned after the violation: {e}"));
        }
    }
    let stats = json!({"ticks": st.ticks, "settles": st.settles, "refused_settles": st.refused_settles, "joints": st.joints,
        "collapses_kept": st.collapses_kept, "derived": st.derived, "obstructed": st.obstructed, "refused": st.refused,
        "audits": st.audits, "replays": st.replays, "collapse_probes": st.collapse_probes, "shells": st.shells,
        "two_member": st.two_member, "lineage_probes": st.lineage_probes, "retained": world.names.len()});
    if f.list.is_empty() {
        json!({"verdict":"ok","drift":f.drift,"stats":stats})
    } else {
        let fl: Vec<Value> = f.list.iter().map(|(k, d)| json!({"kind":k,"detail":d})).collect();
        json!({"verdict":"violation","findings":fl,"drift":f.drift,"stats":stats})
    }
}

pub fn run(args: &[String]) -> i32 {
    if args.len() < 2 {
        eprintln!("usage: echo-verif c15b <cases.ndjson> <results.ndjson>");
        return 2;
    }
    let mut ctx = match Ctx::new() {
        Ok(c) => c,
        Err(e) => {
            eprintln!("c15b: {e}");
            return 2;
        }
    };
    let mut out = util::Out::create(&args[1]);
    let (mut n, mut viol, mut tool) = (0u64, 0u64, 0u64);
    for (i, v) in util::read_lines(&args[0]) {
        let mut r = match util::catch(|| check_case(&mut ctx, &v)) {
            Ok(r) => r,
            Err(p) => {
                ctx.cache = None;
                json!({"verdict":"tool_error","detail":format!("harness panicked: {p}")})
            }
        };
        r["i"] = json!(i);
        n += 1;
        match r["verdict"].as_str() {
            Some("violation") => viol += 1,
            Some("tool_error") => tool += 1,
            _ => {}
        }
        out.line(&r);
    }
    out.finish();
    println!("{}", json!({"cases":n,"violations":viol,"tool_errors":tool}));
    if std::env::var("VERIF_C15B_TIMES").is_ok() {
        for (k, (c, us)) in TIMES.lock().unwrap_or_else(|p| p.into_inner()).iter() {
            eprintln!("time {k}: {c} calls, {} ms", us / 1000);
        }
    }
    if tool > 0 {
        2
    } else {
        0
    }
}

// --------------------------------------------------------------------------- the braid event log (braid.rs)

fn log_member(name: &str) -> BraidMemberRef {
    if name.starts_with('z') {
        let origin = OriginId::from_bytes([0x61; 32]);
        BraidMemberRef::Sealed {
            blinded_commitment: *blake3::hash(format!("verif-c15b-sealed-{name}").as_bytes()).as_bytes(),
            authority: AuthorityDomainRef::new(origin, AuthorityDomainId::from_bytes([0x62; 32])),
        }
    } else {
        BraidMemberRef::Revealed(sid(name))
    }
}
fn log_digest(name: &str) -> Hash {
    match name {
        "" => [0; 32],
        "empty" => [0; 32],
        other => *blake3::hash(format!("verif-c15b-log-{other}").as_bytes()).as_bytes(),
    }
}
fn log_event(e: &Value, domain: AuthorityDomainRef) -> warp_core::BraidEvent {
    use warp_core::BraidEvent;
    match e["k"].as_str().unwrap_or("?") {
        "created" => BraidEvent::BraidCreated { braid_id: log_digest(e["d"].as_str().unwrap_or("")), creator_domain: domain },
        "woven" => BraidEvent::MemberWoven { member_ref: log_member(e["m"].as_str().unwrap_or("")), sequence_num: e["seq"].as_u64().unwrap_or(u64::MAX) },
        "finalized" => BraidEvent::SettlementFinalized { settlement_digest: log_digest(e["d"].as_str().unwrap_or("")) },
        _ => BraidEvent::BraidCollapsed { collapse_witness: log_digest(e["w"].as_str().unwrap_or("")), outcome_digest: log_digest(e["d"].as_str().unwrap_or("")) },
    }
}
fn log_err_name(e: &warp_core::BraidError) -> &'static str {
    use warp_core::BraidError as E;
    match e {
        E::EmptyLog => "EmptyLog",
        E::MissingCreated => "MissingCreated",
        E::DuplicateCreated => "DuplicateCreated",
        E::IncoherentSequence { .. } => "IncoherentSequence",
        E::InvalidTransition { .. } => "InvalidTransition",
        E::SequenceOverflow { .. } => "SequenceOverflow",
        E::DuplicateMember { .. } => "DuplicateMember",
        E::MixedMemberReferencePosture => "MixedMemberReferencePosture",
        E::EmptySettlementFrontier => "EmptySettlementFrontier",
        E::EmptyCollapseWitness => "EmptyCollapseWitness",
    }
}
fn log_entries(v: &Value) -> Vec<(BraidMemberRef, u64)> {
    v.as_array().map(|a| a.iter().map(|x| (log_member(x["m"].as_str().unwrap_or("")), x["seq"].as_u64().unwrap_or(u64::MAX))).collect()).unwrap_or_default()
}

/// One exported behaviour of MC_C15b_log: every event applied to a real `Braid`.
pub fn check_log_case(v: &Value) -> Value {
    use warp_core::{Braid, BraidMembershipCursor, BraidStatus};
    let mut f = Findings::default();
    let origin = OriginId::from_bytes([0x61; 32]);
    let domain = AuthorityDomainRef::new(origin, AuthorityDomainId::from_bytes([0x63; 32]));
    let mut braid = Braid::new(log_digest("b1"), domain);
    let mut status = BraidStatus::Active;
    let mut events = 0u64;
    for (i, e) in v["events"].as_array().map(Vec::as_slice).unwrap_or(&[]).iter().enumerate() {
        let at = format!("event {i} ({})", e["k"].as_str().unwrap_or("?"));
        let ev = log_event(e, domain);
        let before = braid.clone();
        let res = braid.apply(ev.clone());
        events += 1;
        let want = e["err"].as_str().unwrap_or("");
        match &res {
            Ok(()) => {
                // append-only: exactly this event was added
                if braid.events().len() != before.events().len() + 1 || braid.events().last() != Some(&ev) || braid.events()[..before.events().len()] != *before.events() {
                    f.violation("log_not_append_only", format!("{at}: accepted event did not extend the log by exactly itself"));
                }
                if !want.is_empty() {
                    let kind = match e["k"].as_str().unwrap_or("") {
                        "woven" => "member_woven_unlawfully",
                        "finalized" => "settlement_bound_twice",
                        "collapsed" => "collapse_bound_unlawfully",
                        _ => "braid_created_twice",
                    };
                    f.violation(kind, format!("{at}: accepted in status {:?}; model refuses it with {want}", before.status()));
                }
            }
            Err(err) => {
                if braid != before {
                    f.violation("refused_event_changed_braid", format!("{at}: {err:?}"));
                }
                if want.is_empty() {
                    f.violation("lawful_event_refused", format!("{at}: {err:?}"));
                } else if log_err_name(err) != want {
                    f.drift(format!("{at}: refused with {}, model {want}", log_err_name(err)));
                }
                // the same log with this event appended does not fold
                let mut evs = before.events().to_vec();
                evs.push(ev.clone());
                if Braid::fold(evs).is_ok() {
                    f.violation("fold_accepts_what_apply_refuses", at.clone());
                }
            }
        }
        // lifecycle is monotone
        let ok = matches!((status, braid.status()), (a, b) if a == b) || matches!((status, braid.status()), (BraidStatus::Active, BraidStatus::Finalized) | (BraidStatus::Finalized, BraidStatus::Collapsed));
        if !ok {
            f.violation("braid_status_went_backwards", format!("{at}: {status:?} -> {:?}", braid.status()));
        }
        status = braid.status();
        // historical views are stable
        for c in 0..=before.next_sequence_num() {
            if braid.membership_at(BraidMembershipCursor::new(c)) != before.membership_at(BraidMembershipCursor::new(c)) {
                f.violation("membership_history_rewritten", format!("{at}: the view at cursor {c} changed"));
            }
        }
    }
    // the folded state
    let fin = &v["final"];
    let members: Vec<BraidMemberRef> = fin["members"].as_array().map(|a| a.iter().map(|m| log_member(m.as_str().unwrap_or(""))).collect()).unwrap_or_default();
    let status_name = match braid.status() {
        BraidStatus::Active => "Active",
        BraidStatus::Finalized => "Finalized",
        BraidStatus::Collapsed => "Collapsed",
    };
    let latest = fin["latest"].as_str().unwrap_or("");
    let want_latest = if latest.is_empty() { None } else { Some(log_digest(latest)) };
    if braid.frontier() != members.as_slice()
        || Some(braid.next_sequence_num()) != fin["next"].as_u64()
        || braid.latest_settlement() != want_latest
        || status_name != fin["status"].as_str().unwrap_or("?")
        || Some(braid.events().len() as u64) != fin["nevents"].as_u64()
    {
        f.violation("braid_state_differs_from_model", format!("real frontier {:?} next {} latest {:?} status {status_name} events {}; model {fin}", braid.frontier().len(), braid.next_sequence_num(), braid.latest_settlement().map(|h| hex8(&h)), braid.events().len()));
    }
    match Braid::fold(braid.events().to_vec()) {
        Ok(b) if b == braid => {}
        other => f.violation("fold_differs_from_apply", format!("{:?}", other.map(|b| b.status()))),
    }
    let real_entries = |es: Vec<warp_core::BraidMembershipEntry>| -> Vec<(BraidMemberRef, u64)> { es.iter().map(|e| (e.member_ref, e.sequence_num)).collect() };
    if real_entries(braid.membership_history()) != log_entries(&v["history"]) {
        f.violation("membership_history_differs_from_model", format!("{:?}", braid.membership_history().len()));
    }
    for (c, want) in v["views"].as_array().map(Vec::as_slice).unwrap_or(&[]).iter().enumerate() {
        if real_entries(braid.membership_at(BraidMembershipCursor::new(c as u64))) != log_entries(want) {
            f.violation("membership_view_differs_from_model", format!("cursor {c}"));
        }
    }
    for d in v["diffs"].as_array().map(Vec::as_slice).unwrap_or(&[]) {
        let (from, to) = (d["from"].as_u64().unwrap_or(0), d["to"].as_u64().unwrap_or(0));
        let real = braid.diff_membership(BraidMembershipCursor::new(from), BraidMembershipCursor::new(to));
        if real_entries(real.added.clone()) != log_entries(&d["added"]) || real_entries(real.ended.clone()) != log_entries(&d["ended"]) || !real.revealed.is_empty() || !real.concealed.is_empty() {
            f.violation("membership_diff_differs_from_model", format!("{from} -> {to}: added {} ended {}", real.added.len(), real.ended.len()));
        }
        if braid.diff_membership(BraidMembershipCursor::new(from), BraidMembershipCursor::new(to)) != real {
            f.violation("membership_diff_not_deterministic", format!("{from} -> {to}"));
        }
    }
    let stats = json!({"events": events});
    if f.list.is_empty() {
        json!({"verdict":"ok","drift":f.drift,"stats":stats})
    } else {
        let fl: Vec<Value> = f.list.iter().map(|(k, d)| json!({"kind":k,"detail":d})).collect();
        json!({"verdict":"violation","findings":fl,"drift":f.drift,"stats":stats})
    }
}

pub fn run_log(args: &[String]) -> i32 {
    if args.len() < 2 {
        eprintln!("usage: echo-verif c15b-log <cases.ndjson> <results.ndjson>");
        return 2;
    }
    let mut out = util::Out::create(&args[1]);
    let (mut n, mut viol, mut tool) = (0u64, 0u64, 0u64);
    for (i, v) in util::read_lines(&args[0]) {
        let mut r = match util::catch(|| check_log_case(&v)) {
            Ok(r) => r,
            Err(p) => json!({"verdict":"tool_error","detail":format!("harness panicked: {p}")}),
        };
        r["i"] = json!(i);
        n += 1;
        match r["verdict"].as_str() {
            Some("violation") => viol += 1,
            Some("tool_error") => tool += 1,
            _ => {}
        }
        out.line(&r);
    }
    out.finish();
    println!("{}", json!({"cases":n,"violations":viol,"tool_errors":tool}));
    if tool > 0 {
        2
    } else {
        0
    }
}
