------------------------------ MODULE BusTrace ------------------------------
(***************************************************************************)
(* Trace validation for the materialization bus (C18, impl -> spec).       *)
(*                                                                         *)
(* The harness (`echo-verif c18 trace`) drives the real MaterializationBus *)
(* with seeded random emission sets (8..40 emissions, up to 12 channels,   *)
(* several shuffled orders per set) and logs every call with its real      *)
(* result.  This spec replays the log through the actions of Bus.tla and   *)
(* accepts an event only if the model's result equals the logged one:      *)
(*   reset     a new bus; policies registered as logged                    *)
(*   emit      Emit(ch, key, data) and the logged Ok/Err flag              *)
(*   finalize  Finalize and the logged report (bytes per channel in        *)
(*             channel order, conflicts)                                   *)
(* The Bus invariants (finalize = order-free oracle of the accepted SET,   *)
(* duplicates rejected, partition) are checked on every state of the run.  *)
(* Keys are logged as the scope hash in 24-bit big-endian chunks followed  *)
(* by rule and subkey in 16-bit halves, so that KeyLess is Ord for EmitKey.*)
(***************************************************************************)
EXTENDS Bus, Json, IOUtils

Rec == ndJsonDeserialize(IOEnv.VERIF_C18_TRACE)

VARIABLE l
tvars == <<policies, pending, hist, report, l>>

TInit == l = 1 /\ BusInit

Reset(e) ==
  /\ policies' = [c \in {e.pol[i][1] : i \in 1..Len(e.pol)} |-> e.pol[CHOOSE i \in 1..Len(e.pol) : e.pol[i][1] = c][2]]
  /\ pending' = EmptyFn
  /\ hist' = <<>>
  /\ report' = None

TNext ==
  /\ l <= Len(Rec)
  /\ LET e == Rec[l]
     IN \/ e.event = "reset" /\ Reset(e)
        \/ /\ e.event = "emit"
           /\ Emit(e.ch, e.key, e.data)
           /\ e.ok = ~IsDuplicate(pending, e.ch, e.key)
        \/ /\ e.event = "finalize"
           /\ Finalize
           /\ report'.channels = e.channels
           /\ report'.errors = e.errors
  /\ l' = l + 1

TSpec == TInit /\ [][TNext]_tvars

TInv_Types     == TypeOK
TInv_Pending   == Inv_PendingIsSet
TInv_Dup       == Inv_DuplicateRejected
TInv_Oracle    == Inv_FinalizeIsOracle
TInv_Partition == Inv_ReportPartition

\* the whole log must have been consumed; otherwise print the index of the first rejected event
Accepted ==
  IF TLCGet("stats").diameter - 1 = Len(Rec) THEN TRUE
  ELSE Print(<<"REJECTED", TLCGet("stats").diameter, Len(Rec)>>, FALSE)
=============================================================================
