//! C03: canonical greedy admission with exact blocking witnesses.
//!
//! `c03`      : replay of model-enumerated candidate tuples (footprint classes) through the
//!              raw scheduler hook into the real `DeterministicScheduler` (both kinds) and
//!              `reserve_for_receipt`; decisions and `blocked_by` are compared with the model
//!              (whose decisions TLC proved equal to the declarative greedy oracle).
//! `c03-keys` : adversarial sort-key sets (shared long prefixes, late-byte differences, rule
//!              halves, duplicates, sizes across the 1024 threshold) are enqueued and drained;
//!              the enqueue/drain events form an ndjson trace validated by SchedulerTrace.tla.

use rand::rngs::StdRng;
use rand::seq::SliceRandom;
use rand::{Rng, SeedableRng};
use serde::Deserialize;
use serde_json::{json, Value};
use warp_core::{
    pack_port_key, AttachmentKey, EdgeKey, Engine, Footprint, GraphStore, NodeId, NodeKey, NodeRecord,
    SchedulerKind, TickReceiptDisposition,
};

use crate::ids;
use crate::util;

#[derive(Deserialize)]
struct Case {
    c: Vec<Vec<u8>>, // [n, e, a, p, w, m, n2, e2, a2, p2] per candidate
    /// candidate tuples of earlier ticks run on the SAME engine before this one
    #[serde(default)]
    prev: Vec<Vec<Vec<u8>>>,
    #[serde(rename = "accR")]
    acc_r: Vec<bool>,
    #[serde(rename = "accL")]
    acc_l: Vec<bool>,
    blk: Vec<Vec<u32>>, // 1-based positions
    sound: bool,
}

fn r(m: u8) -> bool {
    m == 1 || m == 3
}
fn w(m: u8) -> bool {
    m == 2 || m == 3
}

pub fn footprint_of(c: &[u8]) -> (Footprint, NodeKey) {
    let warp = ids::warp(if c[4] == 0 { "w0" } else { "w1" });
    let n = NodeKey { warp_id: warp, local_id: ids::node("n0") };
    let e = EdgeKey { warp_id: warp, local_id: ids::edge("e0") };
    let a = AttachmentKey::node_alpha(n);
    let p = pack_port_key(&n.local_id, 0, true);
    let mut fp = Footprint::default();
    if r(c[0]) { fp.n_read.insert(n); }
    if w(c[0]) { fp.n_write.insert(n); }
    if r(c[1]) { fp.e_read.insert(e); }
    if w(c[1]) { fp.e_write.insert(e); }
    if r(c[2]) { fp.a_read.insert(a); }
    if w(c[2]) { fp.a_write.insert(a); }
    if r(c[3]) { fp.b_in.insert(warp, p); }
    if w(c[3]) { fp.b_out.insert(warp, p); }
    if c.len() >= 10 {
        // second resource of every class
        let n2 = NodeKey { warp_id: warp, local_id: ids::node("n1") };
        let e2 = EdgeKey { warp_id: warp, local_id: ids::edge("e1") };
        let a2 = AttachmentKey::node_alpha(n2);
        let p2 = pack_port_key(&n2.local_id, 0, true);
        if r(c[6]) { fp.n_read.insert(n2); }
        if w(c[6]) { fp.n_write.insert(n2); }
        if r(c[7]) { fp.e_read.insert(e2); }
        if w(c[7]) { fp.e_write.insert(e2); }
        if r(c[8]) { fp.a_read.insert(a2); }
        if w(c[8]) { fp.a_write.insert(a2); }
        if r(c[9]) { fp.b_in.insert(warp, p2); }
        if w(c[9]) { fp.b_out.insert(warp, p2); }
    }
    fp.factor_mask = match c[5] { 0 => 0, 1 => 0b01, _ => 0b10 };
    (fp, n)
}

fn new_engine(kind: SchedulerKind) -> Engine {
    let root = ids::node("n0");
    let mut store = GraphStore::new(ids::warp("w0"));
    store.insert_node(root, NodeRecord { ty: ids::ty("tA") });
    Engine::with_scheduler(store, root, kind)
}

fn rule_hash(compact: u32) -> [u8; 32] {
    let mut h = [0u8; 32];
    h[28..32].copy_from_slice(&compact.to_be_bytes());
    h
}

fn scope_hash_for(pos: usize) -> [u8; 32] {
    let mut h = [0u8; 32];
    h[30] = (pos >> 8) as u8;
    h[31] = (pos & 0xff) as u8;
    h
}

/// One reserve pass of `cands` on `engine` (a fresh transaction on a possibly long-lived engine).
fn reserve_tuple(engine: &mut Engine, cands: &[Vec<u8>], reverse: bool) -> Result<warp_core::TickReceipt, String> {
    let tx = engine.begin();
    let mut order: Vec<usize> = (0..cands.len()).collect();
    if reverse {
        order.reverse();
    }
    for k in order {
        let (fp, scope) = footprint_of(&cands[k]);
        engine.verif_enqueue_raw(tx, scope_hash_for(k + 1), rule_hash(7), 7, scope, fp);
    }
    engine.verif_drain_reserve(tx).map_err(|e| format!("reserve error: {e:?}"))
}

fn run_reserve(engine: &mut Engine, case: &Case, reverse: bool) -> Result<(Vec<bool>, Vec<Vec<u32>>), String> {
    // earlier ticks on the same engine: their reservations must not leak into this one
    for t in &case.prev {
        reserve_tuple(engine, t, reverse)?;
    }
    let tx = engine.begin();
    let mut order: Vec<usize> = (0..case.c.len()).collect();
    if reverse {
        order.reverse();
    }
    for k in order {
        let (fp, scope) = footprint_of(&case.c[k]);
        engine.verif_enqueue_raw(tx, scope_hash_for(k + 1), rule_hash(7), 7, scope, fp);
    }
    let receipt = engine.verif_drain_reserve(tx).map_err(|e| format!("reserve error: {e:?}"))?;
    let entries = receipt.entries();
    if entries.len() != case.c.len() {
        return Err(format!("receipt has {} entries for {} candidates", entries.len(), case.c.len()));
    }
    let mut acc = Vec::new();
    let mut blk = Vec::new();
    for (i, e) in entries.iter().enumerate() {
        if e.scope_hash != scope_hash_for(i + 1) {
            return Err(format!("drain order wrong at {i}"));
        }
        acc.push(matches!(e.disposition, TickReceiptDisposition::Applied));
        blk.push(receipt.blocked_by(i).to_vec());
    }
    Ok((acc, blk))
}

pub struct Engines {
    radix: Engine,
    legacy: Engine,
    uses: usize,
}

impl Engines {
    pub fn new() -> Self {
        Self { radix: new_engine(SchedulerKind::Radix), legacy: new_engine(SchedulerKind::Legacy), uses: 0 }
    }
}

/// `engines` are reused across cases (every case is a new transaction on the same two engines),
/// so state leaking from one tick into the next is observed; they are recreated every 4096 cases
/// and after any failure.
pub fn check_case(engines: &mut Engines, v: &Value) -> Value {
    engines.uses += 1;
    if engines.uses % 4096 == 0 {
        *engines = Engines::new();
    }
    let r = check_case_inner(engines, v);
    if r["verdict"] != "ok" {
        *engines = Engines::new();
    }
    r
}

fn check_case_inner(engines: &mut Engines, v: &Value) -> Value {
    let case: Case = match serde_json::from_value(v.clone()) {
        Ok(c) => c,
        Err(e) => return json!({"verdict":"tool_error","detail":format!("case parse: {e}")}),
    };
    let want_blk: Vec<Vec<u32>> = case.blk.iter().map(|b| { let mut x: Vec<u32> = b.iter().map(|p| p - 1).collect(); x.sort(); x }).collect();
    for name in ["radix", "legacy"] {
        for reverse in [false, true] {
            let engine = if name == "radix" { &mut engines.radix } else { &mut engines.legacy };
            let got = match util::catch(|| run_reserve(engine, &case, reverse)) {
                Ok(Ok(g)) => g,
                Ok(Err(e)) => return json!({"verdict":"violation","kind":format!("{name}_reserve_failed"),"detail":e}),
                Err(p) => return json!({"verdict":"violation","kind":format!("{name}_panicked"),"detail":p}),
            };
            let (want_acc, check_blk) = match name {
                "radix" => (&case.acc_r, true),
                _ => (&case.acc_l, case.sound),
            };
            if name == "legacy" && !case.sound {
                // outside the stated precondition ("whenever partition masks are sound") only
                // conformance with the transcription is observed, never judged
                if &got.0 != want_acc {
                    return json!({"verdict":"ok","drift":[format!("legacy (unsound masks) decisions {:?} vs model {:?}", got.0, want_acc)]});
                }
                continue;
            }
            if &got.0 != want_acc {
                return json!({"verdict":"violation","kind":format!("{name}_decisions_not_canonical_greedy"),
                    "detail":format!("got {:?} want {:?} (reverse_enqueue={reverse})", got.0, want_acc)});
            }
            if check_blk {
                let mut gb = got.1.clone();
                for b in &mut gb { b.sort(); }
                if gb != want_blk {
                    return json!({"verdict":"violation","kind":format!("{name}_blocking_witnesses_not_exact"),
                        "detail":format!("got {:?} want {:?}", gb, want_blk)});
                }
            }
        }
    }
    json!({"verdict":"ok"})
}

pub fn run(args: &[String]) -> i32 {
    if args.len() < 2 {
        eprintln!("usage: echo-verif c03 <cases.ndjson> <results.ndjson>");
        return 2;
    }
    let mut out = util::Out::create(&args[1]);
    let (mut n, mut viol, mut tool, mut rejected) = (0u64, 0u64, 0u64, 0u64);
    let mut engines = Engines::new();
    for (i, v) in util::read_lines(&args[0]) {
        let r = check_case(&mut engines, &v);
        n += 1;
        if v["accR"].as_array().is_some_and(|a| a.iter().any(|x| x == &json!(false))) {
            rejected += 1;
        }
        match r["verdict"].as_str() {
            Some("violation") => viol += 1,
            Some("tool_error") => tool += 1,
            _ => {}
        }
        // only non-ok or drifting results are written (the case file has 10^5..10^6 lines)
        if r["verdict"] != "ok" || r.get("drift").is_some() {
            let mut r = r;
            r["i"] = json!(i);
            out.line(&r);
        }
    }
    out.finish();
    println!("{}", json!({"cases":n,"violations":viol,"tool_errors":tool,"with_rejection":rejected}));
    if tool > 0 { 2 } else { 0 }
}

// --------------------------------------------------------------------------- sort keys

fn key_set(pattern: &str, n: usize, rng: &mut StdRng) -> Vec<([u8; 32], u32)> {
    let mut out: Vec<([u8; 32], u32)> = Vec::new();
    let base: [u8; 32] = { let mut b = [0u8; 32]; rng.fill(&mut b); b };
    for i in 0..n {
        let mut k = base;
        let mut rule = 1u32;
        match pattern {
            // all keys share everything except one chosen 16-bit digit (pair index `d`)
            p if p.starts_with("digit") => {
                let d: usize = p[5..].parse().unwrap_or(15);
                let v = (rng.gen::<u16>()) as usize ^ i;
                k[2 * d] = (v >> 8) as u8;
                k[2 * d + 1] = v as u8;
            }
            // equal scopes, rules differ in low / high half
            "rule_lo" => rule = (rng.gen::<u16>() as u32) + 1,
            "rule_hi" => rule = ((rng.gen::<u16>() as u32 & 0x7fff) << 16) | 1,
            "rule_mix" => rule = rng.gen::<u32>() & 0x7fff_ffff,
            // last byte only / first byte only
            "last_byte" => k[31] = rng.gen(),
            "first_byte" => k[0] = rng.gen(),
            // two late digits
            "late2" => { k[29] = rng.gen(); k[31] = rng.gen(); }
            // siblings sharing a long prefix, with repeats arriving after their siblings
            "prefix_dups" => { k[30] = rng.gen::<u8>() & 3; k[31] = rng.gen::<u8>() & 7; }
            // 0x00 / 0xff boundaries
            "extremes" => { for b in k.iter_mut() { *b = if rng.gen::<bool>() { 0x00 } else { 0xff }; } }
            _ => rng.fill(&mut k),
        }
        if (pattern == "random_dups" || pattern == "prefix_dups") && i % 3 == 2 && !out.is_empty() {
            let j = rng.gen_range(0..out.len());
            out.push(out[j]);
            continue;
        }
        out.push((k, rule));
    }
    out.shuffle(rng);
    out
}

fn key_ints(k: &[u8; 32], rule: u32) -> Vec<u32> {
    let mut v: Vec<u32> = k.iter().map(|b| *b as u32).collect();
    v.extend(rule.to_be_bytes().iter().map(|b| *b as u32));
    v
}

/// Generates key sets, runs enqueue + drain on the real scheduler (both kinds), writes the trace.
pub fn run_keys(args: &[String]) -> i32 {
    if args.len() < 3 {
        eprintln!("usage: echo-verif c03-keys <trace.ndjson> <seed> <tier>");
        return 2;
    }
    let seed: u64 = args[1].parse().unwrap_or(1);
    let thorough = args[2] == "thorough";
    let mut rng = StdRng::seed_from_u64(seed);
    let mut out = util::Out::create(&args[0]);
    let patterns = ["digit0", "digit3", "digit7", "digit12", "digit14", "digit15", "rule_lo", "rule_hi", "rule_mix",
        "last_byte", "first_byte", "late2", "extremes", "random", "random_dups", "prefix_dups"];
    let mut sizes: Vec<usize> = vec![0, 1, 7, 1023, 1024, 1025];
    if thorough {
        sizes.extend([2, 1300, 2048, 3000, 5000]);
    }
    let mut runs = 0u64;
    let mut events = 0u64;
    for (pi, pattern) in patterns.iter().enumerate() {
        for (si, size) in sizes.iter().enumerate() {
            // quick: every pattern at the threshold sizes, a rotating subset elsewhere
            if !thorough && *size < 1023 && (pi + si) % 3 != 0 {
                continue;
            }
            for (kind, kname) in [(SchedulerKind::Radix, "radix"), (SchedulerKind::Legacy, "legacy")] {
                if !thorough && kname == "legacy" && (*size > 1024 || pi % 2 == 1) {
                    continue;
                }
                let keys = key_set(pattern, *size, &mut rng);
                let mut engine = new_engine(kind);
                let tx = engine.begin();
                out.line(&json!({"event":"reset","pattern":pattern,"size":size,"kind":kname}));
                events += 1;
                for (tag, (k, rule)) in keys.iter().enumerate() {
                    let scope = NodeKey { warp_id: ids::warp("w0"), local_id: NodeId(*blake3::hash(&(tag as u64).to_le_bytes()).as_bytes()) };
                    engine.verif_enqueue_raw(tx, *k, rule_hash(*rule), *rule, scope, Footprint::default());
                    out.line(&json!({"event":"enq","h":format!("{}:{}", hex::encode(k), rule),"k":key_ints(k, *rule),"tag":tag + 1}));
                    events += 1;
                }
                let receipt = match util::catch(|| engine.verif_drain_reserve(tx)) {
                    Ok(Ok(r)) => r,
                    other => {
                        out.line(&json!({"event":"drain_failed","detail":format!("{:?}", other.err())}));
                        continue;
                    }
                };
                let tag_of: std::collections::HashMap<NodeId, usize> = (0..keys.len())
                    .map(|t| (NodeId(*blake3::hash(&(t as u64).to_le_bytes()).as_bytes()), t + 1))
                    .collect();
                for e in receipt.entries() {
                    let rule = u32::from_be_bytes([e.rule_id[28], e.rule_id[29], e.rule_id[30], e.rule_id[31]]);
                    out.line(&json!({"event":"drain","h":format!("{}:{}", hex::encode(e.scope_hash), rule),
                        "k":key_ints(&e.scope_hash, rule),"tag":tag_of.get(&e.scope.local_id).copied().unwrap_or(0),
                        "applied": matches!(e.disposition, TickReceiptDisposition::Applied)}));
                    events += 1;
                }
                out.line(&json!({"event":"end"}));
                events += 1;
                runs += 1;
            }
        }
    }
    out.finish();
    println!("{}", json!({"runs":runs,"events":events}));
    0
}
