SPECIFICATION Spec
CONSTANTS
  MaxEvents = 5
  Members = {"mA", "mB", "zA"}
  Export = TRUE
INVARIANTS LogWellFormed Lifecycle LatestLaw RefusedChangesNothing AcceptedAppendsExactlyTheEvent FoldIsApply ViewsStable DiffLaw Inv_Export
PROPERTIES P_AppendOnly P_StatusMonotone
CHECK_DEADLOCK FALSE
