SPECIFICATION Spec
CONSTANTS
  Slots <- MC_Slots
  U0 <- MC_U0
  None = None
  Mode = "chain"
  MaxEntries = 2
  Export = FALSE
INVARIANTS Inv_Chain Inv_PrefixesVerify Inv_HashRelation
PROPERTIES AppendOnly GapFree
CHECK_DEADLOCK FALSE
