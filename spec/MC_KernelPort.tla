---------------------------- MODULE MC_KernelPort ----------------------------
(***************************************************************************)
(* C09 / C08, kernel-port leg: KernelPort.tla explored in two modes.       *)
(*                                                                         *)
(* Mode "graph": ALL interleavings of port calls over the whole alphabet   *)
(*   (dispatch of every intent / refused input with unbounded retries,     *)
(*   Start with every cycle limit, Stop, SetHeadEligibility of the known   *)
(*   and of an unknown head, read-only calls).  History variables are      *)
(*   hidden by VIEW, the number of accepted Starts is bounded by MaxRuns,  *)
(*   so the state graph is finite.  Every TRANSITION is exported with a    *)
(*   witness path to its source state and the predicted response / status  *)
(*   of every call on it.  The laws of KernelPort.tla are checked on every *)
(*   transition as an action property (Laws), not only on fresh states.    *)
(*                                                                         *)
(* Mode "beh": complete behaviours of exactly MaxCalls calls over a        *)
(*   restricted alphabet (no VIEW): every arrival order of the intents     *)
(*   with retries anywhere between the Starts.  The runner demands equal   *)
(*   real commit hashes / state roots for equal committed batch sequences  *)
(*   across all behaviours.                                                *)
(***************************************************************************)
EXTENDS KernelPort, Json

CONSTANTS IntentSet,     \* subset of Universe offered to dispatch
          BadSet,        \* refused dispatch inputs offered
          LimitSet,      \* cycle limits offered to Start (0 = Some(0); NoLimit = None)
          NoLimit,       \* TRUE: Start { cycle_limit: None } is part of the alphabet
          HeadSet,       \* heads offered to SetHeadEligibility ("default", "missing")
          EligSet,       \* eligibilities offered
          ReadSet,       \* read-only calls offered ("status", "head")
          UseStop,
          Mode,          \* "graph" | "beh"
          MaxRuns,       \* bound on accepted Starts
          MaxCalls,      \* beh mode: behaviour length
          Export

VARIABLES calls          \* the calls so far with the model's predictions (graph mode: witness path)
allvars == <<vars, calls>>

\* ---- universe (interpreted identically by harness/src/kport.rs) ---------------------------------
Universe == {"a1", "a2", "n1", "p1", "b1"}
BehT == [i \in Universe |-> CASE i \in {"a1", "a2"} -> "ok" [] i = "n1" -> "none" [] i = "p1" -> "panic" [] OTHER -> "badop"]
MC_BehOf(i) == BehT[i]
MC_Intents == Universe

\* ---- export -------------------------------------------------------------------------------------
N(x) == IF x = None THEN 0 ELSE x                       \* ticks / run ids: "none" is 0 (tick 0 is reported as none anyway)
StatusJson(s) == [state |-> s.state, mode_on |-> (s.mode # None),
                  limit |-> (IF s.mode = None THEN 0 ELSE N(s.mode.limit)),
                  limit_some |-> (IF s.mode = None THEN FALSE ELSE s.mode.limit # None),
                  work |-> s.work, run |-> N(s.run), cyc |-> N(s.cyc), com |-> N(s.com), quies |-> N(s.quies),
                  done |-> (IF s.done = None THEN "none" ELSE s.done)]
Has(r, f) == f \in DOMAIN r
ResJson(r) == [ok |-> r.ok, err |-> r.err,
               accepted |-> (IF Has(r, "accepted") THEN r.accepted ELSE FALSE),
               gen |-> (IF Has(r, "gen") THEN r.gen ELSE 0),
               cycles |-> (IF Has(r, "cycles") THEN r.cycles ELSE 0),
               commits |-> (IF Has(r, "commits") THEN r.commits ELSE 0),
               has_status |-> (r.status # None)]          \* the status a response carries is the kernel's status after the call (s.st)
StateJson == [wt |-> wtick, gt |-> gtick, nh |-> Len(hist), st |-> StatusJson(st)]
HistJson == [k \in 1..Len(hist) |-> [b |-> hist[k].batch, gt |-> hist[k].gt, wt |-> hist[k].wt]]

OpDispatch(x) == [a |-> "dispatch", x |-> x]
OpStart(l)    == [a |-> "start", some |-> (l # None), n |-> N(l)]
OpStop        == [a |-> "stop"]
OpElig(h, e)  == [a |-> "elig", h |-> h, e |-> e]
OpRead(k)     == [a |-> "read", k |-> k]

Emit(op) ==
  /\ calls' = Append(calls, [op |-> op, r |-> ResJson(last'), s |-> StateJson'])
  /\ ((Export /\ Mode = "graph") =>
        PrintT(<<"CASE", ToJson([mode |-> "graph", calls |-> calls', hist |-> HistJson'])>>))

\* ---- interleavings ------------------------------------------------------------------------------
Beh == Mode = "beh"
More == Beh => Len(calls) < MaxCalls
Limits == LimitSet \cup (IF NoLimit THEN {None} ELSE {})
\* at most one faulty intent is ever offered to one batch: which of a panic and a typed error wins inside one
\* tick is the engine's business (C01), not the port's
Faulty(i) == MC_BehOf(i) \in {"panic", "badop"}
DispatchOk(x) == (x \in IntentSet /\ Faulty(x)) => (\A j \in pending : ~Faulty(j) \/ j = x)

DoDispatch == \E x \in IntentSet \cup BadSet : More /\ DispatchOk(x) /\ Dispatch(x) /\ Emit(OpDispatch(x))
DoStart    == \E l \in Limits : /\ More
                                /\ (nextRun <= MaxRuns \/ st.state # "inactive" \/ l = 0)     \* refused Starts are free
                                /\ Start(l) /\ Emit(OpStart(l))
DoStop     == More /\ UseStop /\ Stop /\ Emit(OpStop)
DoElig     == \E h \in HeadSet, e \in EligSet : More /\ SetElig(h, e) /\ Emit(OpElig(h, e))
DoRead     == \E k \in ReadSet : More /\ Read(k) /\ Emit(OpRead(k))

MC_Init == Init0 /\ calls = <<>>
MC_Next == DoDispatch \/ DoStart \/ DoStop \/ DoElig \/ DoRead
MC_Spec == MC_Init /\ [][MC_Next]_allvars

\* graph mode: history is not part of a state's identity (usedRuns and commitCount are functions of the rest
\* unless a model mutant is switched on, so they stay in the view)
MC_View == <<core, usedRuns, commitCount, hung>>

\* ---- the laws, on every state (beh mode) and on every transition (graph mode) ---------------------
AllLaws == /\ TypeOK /\ TicksAdvanceOnlyByCycles /\ HistoryAppendOnly /\ AtMostOnce /\ LedgerIsLog
           /\ DuplicateChangesNothing /\ AcceptedIsNew /\ RunCommitsPendingSet /\ RunIdsFresh
           /\ StartCompletionConsistent /\ StatusFresh /\ RefusedChangesNothing /\ FailedRunCommitsNothing
           /\ DormantNeverCommitted /\ ReadChangesNothing /\ ResponseCarriesStatus
Laws == [][AllLaws']_allvars

\* ---- beh mode: export maximal behaviours -----------------------------------------------------------
Done == Len(calls) = MaxCalls \/ hung
Inv_Export ==
  (Export /\ Beh /\ Done) => PrintT(<<"CASE", ToJson([mode |-> "beh", calls |-> calls, hist |-> HistJson])>>)

\* ---- reachability witnesses (run once with these as invariants: each must be VIOLATED) --------------
Reach_Dup            == ~(last.act = "dispatch" /\ last.ok /\ ~last.accepted /\ last.arg \in committed)
Reach_CycleLimit     == ~(st.done = "cycle_limit_reached")
Reach_BlockedOnly    == ~(st.done = "blocked_only")
Reach_Stopped        == ~(st.done = "stopped")
Reach_AlreadyActive  == ~(last.act = "start" /\ ~last.ok /\ last.err = "INVALID_CONTROL" /\ last.arg # 0)
Reach_EngineError    == ~(last.act = "start" /\ last.err = "ENGINE_ERROR" /\ prev.st.run # None)
Reach_Hung           == ~hung
Reach_TwoCommits     == ~(Len(hist) >= 2)
\* the same for transitions into states whose view was seen before (self-loops under VIEW): as action properties
ReachA_Dup           == [][Reach_Dup']_allvars
ReachA_AlreadyActive == [][Reach_AlreadyActive']_allvars
ReachA_Refused       == [][~(~last.ok /\ last.err \in {"INVALID_CONTROL", "INVALID_INTENT", "FORBIDDEN_CONTROL_INTENT"})']_allvars
ReachA_Read          == [][~(last.act = "read")']_allvars
=============================================================================
