------------------------------ MODULE BraidLog ------------------------------
(***************************************************************************)
(* C15, braid-shell leg - the append-only coordination log of a braid      *)
(* (/repo/crates/warp-core/src/braid.rs: Braid::new / apply / fold,        *)
(* membership_history, membership_at, diff_membership, frontier).          *)
(*                                                                         *)
(* A braid is created, members are woven with dense sequence numbers while *)
(* it is Active, a settlement is finalized once (binding the digest of the *)
(* retained shell), and a finalized plural braid collapses at most once    *)
(* (binding the digest of the derived shell).  Every refused event leaves  *)
(* the braid unchanged.  Digests and witnesses are opaque names.           *)
(***************************************************************************)
EXTENDS Naturals, Sequences, FiniteSets

VARIABLES braid,      \* [id, events, members, next, latest, status]
          llast       \* the last attempted event, its outcome and the braid before it
lvars == <<braid, llast>>

Ev(k, m, seq, d, w) == [k |-> k, m |-> m, seq |-> seq, d |-> d, w |-> w]
Created(id) == Ev("created", "", 0, id, "")
Woven(m, seq) == Ev("woven", m, seq, "", "")
Finalized(d) == Ev("finalized", "", 0, d, "")
Collapsed(w, d) == Ev("collapsed", "", 0, d, w)
Sealed(m) == m \in {"zA", "zB"}                      \* BraidMemberRef::Sealed (the others are Revealed)

NewBraid(id) == [id |-> id, events |-> <<Created(id)>>, members |-> <<>>, next |-> 0, latest |-> "", status |-> "Active"]

\* Braid::apply, refusals in the order of the code
ApplyErr(b, e) ==
  CASE e.k = "created" -> "DuplicateCreated"
    [] e.k = "woven" ->
         IF b.status # "Active" THEN "InvalidTransition"
         ELSE IF e.seq # b.next THEN "IncoherentSequence"
         ELSE IF \E i \in 1..Len(b.members) : b.members[i] = e.m THEN "DuplicateMember"
         ELSE IF Len(b.members) > 0 /\ Sealed(b.members[1]) # Sealed(e.m) THEN "MixedMemberReferencePosture"
         ELSE ""
    [] e.k = "finalized" ->
         IF b.status # "Active" THEN "InvalidTransition"
         ELSE IF Len(b.members) = 0 THEN "EmptySettlementFrontier" ELSE ""
    [] OTHER ->
         IF b.status # "Finalized" THEN "InvalidTransition"
         ELSE IF e.w = "empty" THEN "EmptyCollapseWitness" ELSE ""
ApplyTo(b, e) ==
  LET b1 == [b EXCEPT !.events = Append(@, e)]
  IN CASE e.k = "woven" -> [b1 EXCEPT !.members = Append(@, e.m), !.next = @ + 1]
       [] e.k = "finalized" -> [b1 EXCEPT !.latest = e.d, !.status = "Finalized"]
       [] OTHER -> [b1 EXCEPT !.latest = e.d, !.status = "Collapsed"]

\* read models
History(b) == SelectSeq(b.events, LAMBDA e : e.k = "woven")
At(b, c) == SelectSeq(History(b), LAMBDA e : e.seq < c)
Refs(s) == {s[i].m : i \in 1..Len(s)}
Diff(b, from, to) ==
  [added |-> SelectSeq(At(b, to), LAMBDA e : e.m \notin Refs(At(b, from))),
   ended |-> SelectSeq(At(b, from), LAMBDA e : e.m \notin Refs(At(b, to)))]

RECURSIVE FoldFrom(_, _, _)
FoldFrom(b, evs, i) ==
  IF i > Len(evs) THEN [ok |-> TRUE, b |-> b]
  ELSE IF ApplyErr(b, evs[i]) # "" THEN [ok |-> FALSE, b |-> b]
  ELSE FoldFrom(ApplyTo(b, evs[i]), evs, i + 1)
Fold(evs) ==
  IF Len(evs) = 0 \/ evs[1].k # "created" THEN [ok |-> FALSE, b |-> NewBraid("")]
  ELSE FoldFrom(NewBraid(evs[1].d), evs, 2)

Apply(e) ==
  LET err == ApplyErr(braid, e)
  IN /\ braid' = IF err = "" THEN ApplyTo(braid, e) ELSE braid
     /\ llast' = [e |-> e, err |-> err, before |-> braid]
LInit(id) == braid = NewBraid(id) /\ llast = [e |-> Created(id), err |-> "", before |-> NewBraid(id)]

\* ---- invariants -----------------------------------------------------------------------
Count(k) == Len(SelectSeq(braid.events, LAMBDA e : e.k = k))
LogWellFormed ==
  /\ braid.events[1] = Created(braid.id) /\ Count("created") = 1
  /\ LET h == History(braid)
     IN /\ Len(h) = Len(braid.members) /\ braid.next = Len(h)
        /\ \A i \in 1..Len(h) : h[i].m = braid.members[i] /\ h[i].seq = i - 1        \* dense sequence numbers
        /\ \A i, j \in 1..Len(h) : i # j => h[i].m # h[j].m                            \* a member is woven once
        /\ \A i \in 1..Len(h) : Sealed(h[i].m) = Sealed(h[1].m)                        \* one reference posture
\* create -> weave* -> finalize (once, over a non-empty frontier) -> collapse (once); nothing is woven afterwards
Lifecycle ==
  /\ Count("finalized") <= 1 /\ Count("collapsed") <= 1
  /\ braid.status = (IF Count("collapsed") = 1 THEN "Collapsed" ELSE IF Count("finalized") = 1 THEN "Finalized" ELSE "Active")
  /\ Count("collapsed") = 1 => Count("finalized") = 1
  /\ Count("finalized") = 1 => Len(braid.members) > 0
  /\ \A i, j \in 1..Len(braid.events) :
       i < j => /\ ~(braid.events[i].k = "finalized" /\ braid.events[j].k = "woven")
                /\ ~(braid.events[i].k = "collapsed" /\ braid.events[j].k \in {"woven", "finalized"})
  /\ \A i \in 1..Len(braid.events) : braid.events[i].k = "collapsed" => braid.events[i].w # "empty"
\* the bound settlement is the digest of the last finalize / collapse event
LatestLaw ==
  LET b == SelectSeq(braid.events, LAMBDA e : e.k \in {"finalized", "collapsed"})
  IN braid.latest = (IF Len(b) = 0 THEN "" ELSE b[Len(b)].d)
RefusedChangesNothing == llast.err # "" => braid = llast.before
AcceptedAppendsExactlyTheEvent == llast.err = "" => (braid.events = Append(llast.before.events, llast.e) \/ llast.e.k = "created")
\* the event log is the source of truth: folding it gives the braid back
FoldIsApply == LET r == Fold(braid.events) IN r.ok /\ r.b = braid
\* historical membership views never change: a view at a cursor the braid had already passed is what it was
ViewsStable == \A c \in 0..llast.before.next : At(braid, c) = At(llast.before, c)
DiffLaw ==
  \A from, to \in 0..(braid.next + 1) :
     LET d == Diff(braid, from, to)
     IN /\ (from <= to => d.ended = <<>> /\ Len(d.added) = (IF to > braid.next THEN braid.next ELSE to) - (IF from > braid.next THEN braid.next ELSE from))
        /\ (from >= to => d.added = <<>>)
=============================================================================
