//! Fixed table between model identifiers ("w0", "n1", ...) and real BLAKE3-derived ids.
//!
//! The ranks (byte order of the real ids) are exported to TLC as `VERIF_IDS` so the
//! model's canonical op order is the real one; nothing about the order is assumed.

use std::collections::BTreeMap;

use serde_json::{json, Value};
use warp_core::{
    make_edge_id, make_node_id, make_type_id, make_warp_id, AtomPayload, EdgeId, NodeId, TypeId,
    WarpId,
};

pub const WARPS: &[&str] = &["w0", "w1", "w2"];
pub const NODES: &[&str] = &["n0", "n1", "n2", "n3"];
pub const EDGES: &[&str] = &["e0", "e1", "e2"];
pub const TYPES: &[&str] = &["tA", "tB"];
pub const ATOMS: &[&str] = &["p0", "p1", "p2", "p3"];

/// Salt mixed into every label; changing it changes all id orders (used to explore
/// other canonical orders with the same model).
pub fn salt() -> String {
    std::env::var("VERIF_ID_SALT").unwrap_or_default()
}

fn lbl(kind: &str, m: &str) -> String {
    format!("verif{}/{}/{}", salt(), kind, m)
}

pub fn warp(m: &str) -> WarpId {
    make_warp_id(&lbl("warp", m))
}
pub fn node(m: &str) -> NodeId {
    make_node_id(&lbl("node", m))
}
pub fn edge(m: &str) -> EdgeId {
    make_edge_id(&lbl("edge", m))
}
pub fn ty(m: &str) -> TypeId {
    make_type_id(&lbl("type", m))
}
/// p0 and p1 share a type and differ in bytes; p2 has p0's bytes under another type; p3 is empty.
pub fn atom(m: &str) -> AtomPayload {
    match m {
        "p0" => AtomPayload::new(make_type_id("verif/atom/A"), bytes::Bytes::from_static(&[0u8])),
        "p1" => AtomPayload::new(make_type_id("verif/atom/A"), bytes::Bytes::from_static(&[1u8, 7])),
        "p2" => AtomPayload::new(make_type_id("verif/atom/B"), bytes::Bytes::from_static(&[0u8])),
        // zero-length payload (boundary case for blob tables and length-prefixed hashing)
        "p3" => AtomPayload::new(make_type_id("verif/atom/A"), bytes::Bytes::new()),
        other => AtomPayload::new(
            make_type_id("verif/atom/X"),
            bytes::Bytes::from(other.as_bytes().to_vec()),
        ),
    }
}

fn inv<T: Ord + Copy>(names: &[&'static str], f: impl Fn(&str) -> T) -> BTreeMap<T, &'static str> {
    names.iter().map(|m| (f(m), *m)).collect()
}

pub struct Inverse {
    pub warps: BTreeMap<WarpId, &'static str>,
    pub nodes: BTreeMap<NodeId, &'static str>,
    pub edges: BTreeMap<EdgeId, &'static str>,
    pub types: BTreeMap<TypeId, &'static str>,
}

impl Inverse {
    pub fn new() -> Self {
        Self {
            warps: inv(WARPS, warp),
            nodes: inv(NODES, node),
            edges: inv(EDGES, edge),
            types: inv(TYPES, ty),
        }
    }
    pub fn warp(&self, w: &WarpId) -> Result<&'static str, String> {
        self.warps.get(w).copied().ok_or_else(|| format!("unknown warp id {w:?}"))
    }
    pub fn node(&self, n: &NodeId) -> Result<&'static str, String> {
        self.nodes.get(n).copied().ok_or_else(|| format!("unknown node id {n:?}"))
    }
    pub fn edge(&self, e: &EdgeId) -> Result<&'static str, String> {
        self.edges.get(e).copied().ok_or_else(|| format!("unknown edge id {e:?}"))
    }
    pub fn ty(&self, t: &TypeId) -> Result<&'static str, String> {
        self.types.get(t).copied().ok_or_else(|| format!("unknown type id {t:?}"))
    }
    pub fn atom(&self, a: &AtomPayload) -> Result<&'static str, String> {
        ATOMS
            .iter()
            .find(|m| &atom(m) == a)
            .copied()
            .ok_or_else(|| format!("unknown atom payload {a:?}"))
    }
}

fn ranks<T: Ord>(names: &[&'static str], f: impl Fn(&str) -> T) -> Value {
    let mut v: Vec<(T, &str)> = names.iter().map(|m| (f(m), *m)).collect();
    v.sort();
    let mut out = serde_json::Map::new();
    for (i, (_, m)) in v.iter().enumerate() {
        out.insert((*m).to_string(), json!(i + 1));
    }
    Value::Object(out)
}

/// `{"warps":{"w0":1,..},"nodes":{..},"edges":{..}}` — 1-based byte-order ranks.
pub fn rank_table() -> Value {
    json!({
        "warps": ranks(WARPS, |m| warp(m).0),
        "nodes": ranks(NODES, |m| node(m).0),
        "edges": ranks(EDGES, |m| edge(m).0),
        "types": ranks(TYPES, |m| ty(m).0),
        "scope": scope_ranks(),
        "shard": NODES.iter().map(|m| ((*m).to_string(), json!(warp_core::shard_of(&node(m))))).collect::<serde_json::Map<String, Value>>(),
    })
}

/// Rank (1-based byte order) of `scope_hash(rule r, (w, n))` for every rule index 1..=16, warp and node:
/// key "r|w|n".
fn scope_ranks() -> Value {
    let mut v: Vec<([u8; 32], String)> = Vec::new();
    for r in 1..=crate::programs::MAX_RULES {
        for w in WARPS {
            for n in NODES {
                let h = warp_core::scope_hash(
                    &crate::programs::rule_id(r),
                    &warp_core::NodeKey { warp_id: warp(w), local_id: node(n) },
                );
                v.push((h, format!("{r}|{w}|{n}")));
            }
        }
    }
    v.sort();
    let mut out = serde_json::Map::new();
    for (i, (_, k)) in v.iter().enumerate() {
        out.insert(k.clone(), json!(i + 1));
    }
    Value::Object(out)
}
