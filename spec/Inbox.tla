------------------------------ MODULE Inbox ------------------------------
(***************************************************************************)
(* The legacy graph-backed inbox of the Engine (the `sim/inbox` node of    *)
(* the root instance), as opposed to the per-head inboxes of the worldline *)
(* runtime modelled in Runtime.tla.                                        *)
(*                                                                         *)
(* Transcribed from crates/warp-core/src                                   *)
(*   inbox.rs        compute_intent_id, pending_edge_id,                   *)
(*                   sys/dispatch_inbox (inbox_matcher / inbox_executor /  *)
(*                   inbox_footprint), sys/ack_pending (its three fns)     *)
(*   engine_impl.rs  Engine::{ingest_intent, ingest_inbox_event,           *)
(*                   pending_intent_count, dispatch_next_intent,           *)
(*                   enqueue_first_matching_command, get_intent_log,       *)
(*                   has_legacy_pending_ingress, is_fresh_runtime_state,   *)
(*                   begin, abort, commit_with_receipt}                    *)
(*   graph.rs        GraphStore::{insert_edge, delete_edge_exact,          *)
(*                   edges_from}: an edge bucket is a Vec in insertion     *)
(*                   order, upsert-by-edge-id, delete = retain             *)
(*   docs/spec/canonical-inbox-sequencing.md  (Decisions 1, 2, 4, 5)       *)
(*                                                                         *)
(* Every call takes `&mut Engine`; each public call is one critical        *)
(* section and one action here.  `ingest_intent` mutates the graph         *)
(* DIRECTLY (outside any transaction); the pending edge of an intent is    *)
(* removed only by a committed tick that ran sys/ack_pending for it (or    *)
(* sys/dispatch_inbox for the whole inbox).                                *)
(*                                                                         *)
(* Hashes are not computed here.  An intent is a name for a byte string;   *)
(* intent_id = H("intent:" || bytes) is an injective function of the name, *)
(* event node id = intent_id, pending edge id = H(inbox id, intent_id);    *)
(* IdRank gives the byte order of the REAL intent ids (supplied by the     *)
(* harness).  The state root covers the part of the graph reachable from   *)
(* the root node: RootKey below is its abstract preimage; a tick is        *)
(* abstracted by TickKey, the commit hash by the sequence of TickKeys.     *)
(*                                                                         *)
(* Assumed (documented contract, see DESIGN): sys/ack_pending is           *)
(* registered; command handlers are honest and independent of              *)
(* sys/ack_pending (they write neither the inbox node, the event node nor  *)
(* the pending edge); one transaction at a time; at most one intent is     *)
(* dispatched per transaction and sys/dispatch_inbox is not mixed with     *)
(* dispatch_next_intent in one transaction (scheduler conflicts are C01's  *)
(* and C03's subject).                                                     *)
(***************************************************************************)
EXTENDS Naturals, Sequences, FiniteSets, SequencesExt, FiniteSetsExt, TLC

CONSTANTS
  Intents,          \* universe of intents (an intent = its canonical bytes)
  IdRank(_),        \* intent -> Nat: byte order of the real intent ids (injective)
  Handlers,         \* registered cmd/* rules
  HandlerRank(_),   \* handler -> Nat: order of (rule id, name)  (Engine.canonical_cmd_rules)
  HMatches(_, _),   \* HMatches(h, i): matcher of handler h accepts the event node of intent i (a function of the bytes)
  DispatchPolicy,   \* "min_id" = the code; "head" = oldest arrival (a seeded model mutant: the properties must reject it)
  None

VARIABLES
  structural,   \* BOOLEAN: nodes sim, sim/inbox and edges root->sim->inbox exist (inserted by every ingest call)
  ledger,       \* SUBSET Intents: event nodes (+ intent attachment) present in the store; append-only
  bucket,       \* Seq(Intents): the edge bucket of sim/inbox = pending edges in INSERTION (arrival) order
  acc,          \* Seq(<<handler, intent>>): handler effects applied so far (order-sensitive state reachable from root)
  dropped,      \* SUBSET Intents: pending edge removed by sys/dispatch_inbox (drained, never handled)
  log,          \* Seq(<<seq, intent>>): Engine.intent_log (ingest_inbox_event, newly accepted only)
  tx,           \* None | [ack, cmd, drain, at, poisoned]: the live transaction and what is enqueued in it
  txCounter,    \* Engine.tx_counter
  ticks,        \* Seq(TickKey): committed ticks (Engine.tick_history)
  consumed,     \* Seq(Intents): intents whose pending edge a committed sys/ack_pending removed, in commit order
  pendAt,       \* Seq(SUBSET Intents): pendAt[k] = pending set when consumed[k] was selected   (history)
  last          \* result of the last call

vars == <<structural, ledger, bucket, acc, dropped, log, tx, txCounter, ticks, consumed, pendAt, last>>

Pending == ToSet(bucket)
RankLess(a, b) == IdRank(a) < IdRank(b)
SortByRank(S) == SetToSortSeq(S, RankLess)
MinRank(S) == CHOOSE i \in S : \A j \in S : IdRank(i) <= IdRank(j)

\* ---- graph facts (what the store contains) ----------------------------------------------------
NRoot == <<"root">>   NSim == <<"sim">>   NInbox == <<"sim/inbox">>
NEvent(i) == <<"event", i>>                 \* NodeId(intent_id)
Nodes == {NRoot} \cup (IF structural THEN {NSim, NInbox} ELSE {}) \cup {NEvent(i) : i \in ledger}
Edges == (IF structural THEN {[id |-> <<"edge:root/sim">>, from |-> NRoot, to |-> NSim],
                              [id |-> <<"edge:sim/inbox">>, from |-> NSim, to |-> NInbox]} ELSE {})
         \cup {[id |-> <<"pending", i>>, from |-> NInbox, to |-> NEvent(i)] : i \in Pending}
\* content reachable from the root node = what the state root commits to
Reachable == {NRoot} \cup (IF structural THEN {NSim, NInbox} ELSE {}) \cup {NEvent(i) : i \in Pending}
\* abstract preimage of the state root
MkRootKey(s, P, a) == [structural |-> s, pending |-> P, acc |-> a]
RootKey == MkRootKey(structural, Pending, acc)

\* ---- results ----------------------------------------------------------------------------------
Res(act, i, api, seq, disp, h, ok) == [act |-> act, i |-> i, api |-> api, seq |-> seq, disp |-> disp, h |-> h, ok |-> ok]
EmptyTx == [ack |-> {}, cmd |-> {}, drain |-> None, at |-> <<>>, poisoned |-> FALSE]

Init0 ==
  /\ structural = FALSE /\ ledger = {} /\ bucket = <<>> /\ acc = <<>> /\ dropped = {} /\ log = <<>>
  /\ tx = None /\ txCounter = 0 /\ ticks = <<>> /\ consumed = <<>> /\ pendAt = <<>>
  /\ last = Res("init", "-", "-", 0, "-", "-", TRUE)

\* Engine::ingest_intent (api = "intent") / Engine::ingest_inbox_event(seq, payload) (api = "event").
\* Structural nodes and edges are upserted first (idempotent); the duplicate test is `store.node(event_id).is_some()`,
\* i.e. membership in the LEDGER: an intent that is pending, consumed or drained is a Duplicate and nothing changes.
\* A new intent gets its event node, its attachment and the pending edge appended to the inbox bucket.
\* `seq` and the payload's type id are ignored for identity; (seq, payload) is logged only when newly accepted.
Ingest(i, api, seq) ==
  /\ structural' = TRUE
  /\ IF i \in ledger
       THEN /\ last' = Res("ingest", i, api, seq, "Duplicate", "-", TRUE)
            /\ UNCHANGED <<ledger, bucket, log>>
       ELSE /\ ledger' = ledger \cup {i}
            /\ bucket' = Append(bucket, i)
            /\ log' = (IF api = "event" THEN Append(log, <<seq, i>>) ELSE log)
            /\ last' = Res("ingest", i, api, seq, "Accepted", "-", TRUE)
  /\ UNCHANGED <<acc, dropped, tx, txCounter, ticks, consumed, pendAt>>

\* Engine::begin
Begin ==
  /\ tx = None
  /\ tx' = EmptyTx /\ txCounter' = txCounter + 1
  /\ last' = Res("begin", "-", "-", 0, "-", "-", TRUE)
  /\ UNCHANGED <<structural, ledger, bucket, acc, dropped, log, ticks, consumed, pendAt>>

\* Engine::dispatch_next_intent: scan ALL pending edges of sim/inbox, keep the smallest target id (= intent id);
\* enqueue the first matching cmd/* rule in (rule id, name) order, then ALWAYS enqueue sys/ack_pending for the event.
\* The graph is not touched; a repeated call in one transaction re-selects the same intent (the scheduler keeps one
\* entry per (rule, scope), last wins).
NextIntent == IF DispatchPolicy = "head" THEN Head(bucket) ELSE MinRank(Pending)
HandlerFor(i) == LET M == {h \in Handlers : HMatches(h, i)}
                 IN IF M = {} THEN None ELSE CHOOSE h \in M : \A g \in M : HandlerRank(h) <= HandlerRank(g)
DispatchNext ==
  /\ tx # None /\ ~tx.poisoned
  /\ IF bucket = <<>>
       THEN /\ last' = Res("dispatch", "-", "-", 0, "NoPending", "-", TRUE)
            /\ UNCHANGED tx
       ELSE LET i == NextIntent
                h == HandlerFor(i)
            IN /\ tx' = [tx EXCEPT !.ack = @ \cup {i},
                                   !.cmd = (IF h = None THEN @ ELSE @ \cup {<<h, i>>}),
                                   !.at = Append(SelectSeq(@, LAMBDA p : p[1] # i), <<i, Pending>>)]
               /\ last' = Res("dispatch", i, "-", 0, "Consumed", IF h = None THEN "-" ELSE h, TRUE)
  /\ UNCHANGED <<structural, ledger, bucket, acc, dropped, log, txCounter, ticks, consumed, pendAt>>

\* Engine::apply(tx, "sys/dispatch_inbox", sim/inbox): matches iff the inbox node exists with >= 1 pending edge;
\* the footprint (edge writes) is computed NOW from the pending edges; the executor runs at commit.
DrainAll ==
  /\ tx # None /\ ~tx.poisoned
  /\ IF structural /\ bucket # <<>>
       THEN /\ tx' = [tx EXCEPT !.drain = Pending]
            /\ last' = Res("drainall", "-", "-", 0, "Applied", "-", TRUE)
       ELSE /\ UNCHANGED tx
            /\ last' = Res("drainall", "-", "-", 0, "NoMatch", "-", TRUE)
  /\ UNCHANGED <<structural, ledger, bucket, acc, dropped, log, txCounter, ticks, consumed, pendAt>>

\* Engine::commit_with_receipt.
\*  - sys/ack_pending(event i): deletes the pending edge of i (Vec::retain keeps the order of the others); the
\*    event node stays (ledger is append-only) but is no longer reachable from the root.
\*  - the enqueued cmd/* handler of i runs in the same tick (its effect is appended to acc).
\*  - sys/dispatch_inbox: the executor deletes EVERY edge pending at commit time; its declared edge writes are those
\*    pending at apply time.  An intent ingested in between makes the tick write an undeclared edge: the footprint
\*    guard panics (debug assertions on), nothing is committed and the transaction stays live with an emptied queue.
CommitOk ==
  LET P == Pending
      draining == tx.drain # None
      del == (IF draining THEN P ELSE {}) \cup (tx.ack \cap P)
      now == SortByRank(tx.ack \cap P)
  IN /\ bucket' = SelectSeq(bucket, LAMBDA x : x \notin del)
     /\ consumed' = consumed \o now
     /\ pendAt' = pendAt \o [k \in 1..Len(now) |-> (CHOOSE p \in ToSet(tx.at) : p[1] = now[k])[2]]
     /\ dropped' = dropped \cup (IF draining THEN P \ tx.ack ELSE {})
     /\ acc' = acc \o SelectSeq([k \in 1..Len(now) |->
                                   IF \E c \in tx.cmd : c[2] = now[k] THEN CHOOSE c \in tx.cmd : c[2] = now[k] ELSE <<>>],
                                LAMBDA c : c # <<>>)
     /\ ticks' = Append(ticks, [root |-> MkRootKey(structural, ToSet(bucket'), acc'),
                                ack |-> tx.ack \cap P, cmd |-> tx.cmd,
                                drain |-> IF draining THEN P ELSE None])
     /\ tx' = None
     /\ last' = Res("commit", "-", "-", 0, "Committed", "-", TRUE)
     /\ UNCHANGED <<structural, ledger, log, txCounter>>
Commit ==
  /\ tx # None /\ ~tx.poisoned
  /\ Cardinality(tx.ack) <= 1                      \* assumed contract: one intent per tick
  /\ (tx.drain = None \/ tx.ack = {})              \* assumed contract: the two mechanisms are not mixed in one tick
  /\ IF tx.drain # None /\ ~(Pending \subseteq tx.drain)
       THEN /\ tx' = [EmptyTx EXCEPT !.poisoned = TRUE]
            /\ last' = Res("commit", "-", "-", 0, "Panic", "-", FALSE)
            /\ UNCHANGED <<structural, ledger, bucket, acc, dropped, log, txCounter, ticks, consumed, pendAt>>
       ELSE CommitOk

\* Engine::abort: the enqueued rewrites are discarded; the graph is untouched (a dispatched intent stays pending)
Abort ==
  /\ tx # None
  /\ tx' = None
  /\ last' = Res("abort", "-", "-", 0, "-", "-", TRUE)
  /\ UNCHANGED <<structural, ledger, bucket, acc, dropped, log, txCounter, ticks, consumed, pendAt>>

\* Engine::is_fresh_runtime_state / has_legacy_pending_ingress / pending_intent_count
PendingCount == Len(bucket)
IsFresh == ticks = <<>> /\ tx = None /\ log = <<>> /\ bucket = <<>> /\ txCounter = 0

Next == (\E i \in Intents, s \in 0..1 : Ingest(i, "intent", 0) \/ Ingest(i, "event", s))
        \/ Begin \/ DispatchNext \/ DrainAll \/ Commit \/ Abort
Spec == Init0 /\ [][Next]_vars

\* ---- state invariants ---------------------------------------------------------------------------
\* the store is well formed: every edge joins existing nodes, every pending edge targets a ledger event of the
\* right identity, and what the root commits to is exactly root, sim, inbox and the PENDING events
GraphWellFormed ==
  /\ \A e \in Edges : e.from \in Nodes /\ e.to \in Nodes
  /\ Pending \subseteq ledger
  /\ ledger # {} => structural
  /\ Reachable \subseteq Nodes
\* pending is a SET keyed by intent id: a retry never creates a second live entry
PendingIsSet == Cardinality(Pending) = Len(bucket)
\* every ledger entry is in exactly one of: pending, consumed, drained
LedgerPartition ==
  /\ ledger = Pending \cup ToSet(consumed) \cup dropped
  /\ Pending \cap ToSet(consumed) = {} /\ Pending \cap dropped = {} /\ ToSet(consumed) \cap dropped = {}
\* an intent is consumed at most once
AtMostOnce == Cardinality(ToSet(consumed)) = Len(consumed)
\* canonical order: whatever was pending when an intent was selected and is consumed later has a LARGER id;
\* arrival order and retry multiplicity are invisible
ConsumedInCanonicalOrder ==
  /\ Len(pendAt) = Len(consumed)
  /\ \A k \in 1..Len(consumed) : \A j \in pendAt[k] : IdRank(consumed[k]) <= IdRank(j)
  /\ \A k, l \in 1..Len(consumed) : (k < l /\ consumed[l] \in pendAt[k]) => IdRank(consumed[k]) < IdRank(consumed[l])
\* every consumed intent with a matching handler was handled exactly once, by the first handler in rule-id order,
\* in consumed order; intents without a handler and drained intents leave no effect
HandledExactlyOnce ==
  acc = SelectSeq([k \in 1..Len(consumed) |-> IF HandlerFor(consumed[k]) = None THEN <<>> ELSE <<HandlerFor(consumed[k]), consumed[k]>>],
                  LAMBDA c : c # <<>>)
\* the debug log records each intent at most once and only intents of the ledger
LogSound ==
  /\ \A k, l \in 1..Len(log) : k # l => log[k][2] # log[l][2]
  /\ \A k \in 1..Len(log) : log[k][2] \in ledger
\* a runtime state that saw any legacy ingress is not fresh (adapters must refuse to migrate it)
LegacyIngressBlocksFresh == (ledger # {} \/ log # <<>>) => ~IsFresh
\* a tick consumes at most one intent through sys/ack_pending, and what it consumed is not pending in the state it left
TicksSound == \A k \in 1..Len(ticks) : Cardinality(ticks[k].ack) <= 1 /\ ticks[k].ack \cap ticks[k].root.pending = {}

\* ---- transition laws ----------------------------------------------------------------------------
\* a retry changes nothing at all
RetryChangesNothing ==
  [][(last'.act = "ingest" /\ last'.disp = "Duplicate")
       => UNCHANGED <<structural, ledger, bucket, acc, dropped, log, tx, txCounter, ticks, consumed>>]_vars
\* Accepted exactly when the bytes were never seen; the ledger only grows; accepting adds exactly one pending entry
IngestLaw ==
  [][(last'.act = "ingest") =>
       /\ (last'.disp = "Accepted") <=> (last'.i \notin ledger)
       /\ ledger \subseteq ledger'
       /\ (last'.disp = "Accepted") => (ToSet(bucket') = Pending \cup {last'.i} /\ ledger' = ledger \cup {last'.i})]_vars
\* the selected intent is the pending one with the smallest id, whatever the bucket order
DispatchPicksMin ==
  [][(last'.act = "dispatch") =>
       IF Pending = {} THEN last'.disp = "NoPending"
       ELSE /\ last'.disp = "Consumed" /\ last'.i \in Pending
            /\ \A j \in Pending : IdRank(last'.i) <= IdRank(j)]_vars
\* only a committed tick removes pending entries, and exactly the dispatched one (or all, for sys/dispatch_inbox);
\* begin / dispatch / apply / abort / a failed commit leave the graph alone
OnlyCommitConsumes ==
  [][/\ (last'.act \in {"begin", "dispatch", "drainall", "abort"} \/ ~last'.ok) => UNCHANGED <<ledger, bucket, acc, dropped, ticks, consumed>>
     /\ (last'.act = "commit" /\ last'.ok) =>
          /\ Pending \ ToSet(bucket') = (IF tx.drain # None THEN Pending ELSE tx.ack)
          /\ ToSet(bucket') \subseteq Pending
          /\ ledger' = ledger]_vars
=============================================================================
