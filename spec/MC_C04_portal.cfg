SPECIFICATION Spec
CONSTANTS
  Warps = {"w0", "w1"}
  Nodes = {"n0", "n1"}
  Edges = {"e0"}
  Types = {"tA", "tB"}
  Atoms = {}
  RankW <- MC_RankW
  RankN <- MC_RankN
  RankE <- MC_RankE
  RootWarp = "w0"
  RootNode = "n0"
  ChildWarps = {"w1"}
  EdgeTypes = {"tA"}
  NodeTypes = {"tA"}
  Export = TRUE
  FreeWarps = {}
  None = None
INVARIANTS Inv_WellFormed Inv_DiffLaw Inv_DiffIdentity Inv_Export
CHECK_DEADLOCK FALSE
