"""C11, segmented leg - rotated logs, the published manifest, the writer-epoch ledger cross-check.

MC : MC_C11s.tla (WalSeg.tla, which EXTENDS Wal.tla): a committed log written by the model's scripted writer
     (Acquire / AppendTx / Rotate / CloseEpoch / PublishManifest) as 3 segment files, 4-5 transactions of 3 frames,
     2 writer epochs (one closed + one active in the ledger), manifest published last; other logs of the same
     shape with the same / foreign / half-foreign epoch ids. ONE edit per initial state: damage of a record next
     to a segment boundary (thorough: every record) in regions {magic, all-zero magic, kind, len up/down,
     payload, digest}; truncation of every segment at every abstract byte position; delete / duplicate / move of
     records and whole transactions across a boundary; delete (with and without renumbering) / duplicate (next id,
     same id under the root) / swap / replace whole segment files; delete / transplant whole transactions;
     every manifest field (count -1/+1/0, last LSN, last digest, tag, stale, deleted, foreign); ledger edits
     (drop / swap / rename / restart / re-close an epoch, half closure, older version, foreign ledger).
     The transcription of recover_filesystem_store (per-file read, torn tail per file, LSN sort of the union, commit
     tiling), doctor, validate_filesystem_manifest, project_filesystem_wal_recovery and FilesystemWalStore::open +
     reconcile_writer_epoch_closures predicts a class per entry point; with Repaired = TRUE (chain fields
     compared) Inv_C11s holds for every edit. MC_C11s_life.tla: every interleaving of the writer's operations
     keeps the store recoverable / openable and the manifest valid exactly when it describes the files.
RP : harness c11s.rs applies every case to REAL files of (S) a FilesystemWalStore driven through the same API
     calls and (H) a two-session TrustedRuntimeHost log split into the same segment files, runs the entry points
     (+ Writable recovery followed by a ReadOnly scan, + enable_runtime_wal for H) and decides the property on the
     real outcome; prediction vs outcome = drift (noted, not a violation).
Keys: a breach that the as-built model predicts, the Repaired model closes and whose effect on the readable record
     set is one of finding F13's edits is keyed `<f13 edit>:<entry point>`; everything else `segmented:<edit>:<entry>`.
"""
import collections
import json
import os

from lib import *

F13_EDITS = ("duplicate_commit_marker", "delete_commit_marker", "transplant_transaction", "delete_transaction",
             "splice_suffix_from_other_log", "swap_adjacent_transactions")
F13_ENTRIES = ("recover_wal_segment_bytes", "recover_filesystem_store", "doctor_filesystem_store", "enable_runtime_wal")


def ekey(e):
    return json.dumps(e, sort_keys=True)


def edit_label(e):
    k = e["k"]
    if k == "damage":
        return f"damage_{e['region']}"
    if k in ("transplant_tx", "replace_segment", "man_from", "led_from"):
        return f"{k}_{e['src']}"
    if k == "man_count":
        return "man_count"
    return k


def export(cfg, workers=2):
    res = tlc("MC_C11s", cfg, workers=workers, timeout=1800, tags=("CASE",))
    if res.violation:
        return res, None
    if not res.lines:
        raise ToolError(f"{cfg}: nothing exported")
    return res, [c for _, c in res.lines]


def run_leg(ck, binp, tier, replay=None):
    """Adds the segmented leg to an existing C11 Check (TLC stats, violations, coverage)."""
    seg = {}
    cases = []
    if replay:
        rp = json.load(open(replay)).get("case", {})
        if "segmented_case" not in rp:
            return
        cases = [rp["segmented_case"]]
    else:
        pairs = [("MC_C11s_quick.cfg", "MC_C11s_quick_repaired.cfg")] if tier == "quick" else \
                [("MC_C11s_thorough.cfg", "MC_C11s_thorough_repaired.cfg"), ("MC_C11s_thorough_b.cfg", "MC_C11s_thorough_b_repaired.cfg"),
                 ("MC_C11s_quick.cfg", "MC_C11s_quick_repaired.cfg")]
        predicted_bad = 0
        for cfg_a, cfg_r in pairs:
            ra, ca = export(cfg_a)
            ck.add_tlc(ra)
            if ra.violation:
                # the parts of the property that hold of the code as built are a model invariant
                ck.violation(f"segmented:spec:{ra.violation}", f"{cfg_a}: the as-built transcription violates {ra.violation}: {ra.error_text[:800]}",
                             {"cfg": cfg_a})
                continue
            rr, cr = export(cfg_r)
            ck.add_tlc(rr)
            if rr.violation:
                ck.notes.append({"segmented_repair_insufficient_in_model": f"{cfg_r}: {rr.violation}: {rr.error_text[:1200]}"})
                cr = []
            rep = {ekey(c["e"]): c["pred"] for c in (cr or [])}
            if cr and len(ca) != len(cr):
                raise ToolError(f"{cfg_a}/{cfg_r}: {len(ca)} vs {len(cr)} exported cases")
            for c in ca:
                c["pred_repaired"] = rep.get(ekey(c["e"]))
                predicted_bad += c["pred"]["fs"] == "nonprefix"
            cases += ca
        life = tlc("MC_C11s_life", "MC_C11s_life.cfg" if tier == "quick" else "MC_C11s_life_thorough.cfg", workers=2, timeout=1800, tags=())
        ck.add_tlc(life)
        if life.violation:
            ck.violation(f"segmented:spec:{life.violation}", f"lifecycle model: {life.violation}: {life.error_text[:800]}", {"cfg": "MC_C11s_life"})
        seg["lifecycle_states"] = life.distinct
        seg["model_predicted_nonprefix"] = predicted_bad
        if len(cases) < 150:
            raise ToolError(f"segmented leg is vacuous: {len(cases)} model cases")
    cin = write_ndjson(os.path.join(WORK, "c11s_cases.ndjson"), cases)
    outp = os.path.join(WORK, "c11s_out.ndjson")
    summ = json.loads(harness(binp, ["c11s", cin, outp, str(ck.seed), tier], timeout=3 * 3600, env={"VERIF_WORK": WORK}).strip().splitlines()[-1])
    events = read_ndjson(outp)
    edits = [e for e in events if e["event"] == "edit"]
    for n in (e for e in events if e["event"] == "note"):
        ck.notes.append({"segmented": n})
    fam_h = any(e["family"] == "H" for e in edits)
    if not replay and (summ["edits_store_family"] != len(cases) or len(edits) < len(cases)):
        raise ToolError(f"segmented harness leg is vacuous: {summ}")
    # ---- drift (model prediction vs real outcome): noted, never an alarm
    drift = collections.Counter()
    for e in edits:
        for d in e["drift"]:
            drift[(e["family"], edit_label(e["edit"]), d.split(":")[0])] += 1
    for (fam, lab, what), n in sorted(drift.items()):
        ck.notes.append({"segmented_drift": f"{n} case(s), family {fam}, edit {lab}: {what} differs from the model's prediction"})
    # ---- breaches of the property on the real outcome
    groups = collections.OrderedDict()
    sealed_torn = 0
    for e in edits:
        case = cases[e["case"]] if e["case"] < len(cases) else {}
        pred, rpr = e["pred"], case.get("pred_repaired")
        for b in e["bad"]:
            entry = b["entry"]
            attributable = (entry in F13_ENTRIES and e["effect"] in F13_EDITS and pred["fs"] == "nonprefix" and e["real_fs"] == "nonprefix"
                            and rpr is not None and rpr["fs"] != "nonprefix")
            key = f"{e['effect']}:{entry}" if attributable else f"segmented:{edit_label(e['edit'])}:{entry}"
            groups.setdefault(key, []).append((e, b, case))
            if attributable and e["edit"]["k"] in ("truncate", "damage") and e["edit"]["s"] < len(case.get("layout", [])):
                sealed_torn += 1
    for key, items in groups.items():
        e, b, case = items[0]
        desc = (f"{len(items)} edited log(s); first: family {e['family']}, edit {json.dumps(e['edit'])} ({e['what']}): {b['entry']}: {b['why']}; "
                f"model (as built) predicted {json.dumps(e['pred'])}")
        ck.violation(key, desc, {"tier": ck.tier, "segmented_case": {k: v for k, v in case.items()}, "family": e["family"], "edit": e["edit"],
                                 "what": e["what"], "entry_point": b["entry"], "why": b["why"], "count": len(items),
                                 "result": {k: e.get(k) for k in ("fs", "doctor", "manifest", "proj", "open", "fsw", "host")}})
    if sealed_torn:
        ck.notes.append({"observation": f"{sealed_torn} breach(es) attributed to F13 come from a torn tail (truncation / length field past the end) in a "
                         "NON-last segment file: read_filesystem_segments treats it like a crash tail of the active segment and keeps reading the "
                         "later files; since e8a1c7e only the loss of the whole first segment (first LSN unanchored) still recovers to a non-prefix"})
    # ---- coverage
    nontrivial = sum(1 for e in edits if any(e.get(k, {}).get("class") in ("ok", "present") for k in ("fs", "manifest", "proj", "open", "host", "fsw")))
    evals = sum(sum(1 for k in ("fs", "doctor", "manifest", "proj", "open", "fsw", "host") if k in e and e[k].get("class") not in ("skipped", "noreport")) for e in edits)
    ck.cov["traces_validated_against_impl"] += len(edits)
    ck.cov["evaluations"] += evals
    ck.cov["distinct_nontrivial"] += nontrivial
    seg.update({
        "model_cases": len(cases), "model_cases_by_kind": dict(collections.Counter(c["e"]["k"] for c in cases)),
        "edited_logs": len(edits), "entry_point_evaluations": evals, "nontrivial": nontrivial, "host_family": fam_h,
        "drift_cases": sum(1 for e in edits if e["drift"]), "breach_keys": list(groups.keys()), "harness_summary": summ,
        "rule": "one model edit per case applied to real segment / manifest / ledger files of a store-level rotated log (S) and a split two-session host "
                "log (H); entry points: recover_filesystem_store RO + Writable, doctor, validate_filesystem_manifest, project_filesystem_wal_recovery, "
                "FilesystemWalStore::open, enable_runtime_wal (H); non-trivial = at least one entry point accepted the edited directory"})
    ck.cov["segmented"] = seg
    if edits:
        mid = edits[len(edits) // 2]
        ck.sample({"segmented_edit": {k: mid.get(k) for k in ("family", "edit", "what", "pred", "real_fs", "drift", "bad")}}, limit=5)
    ck.assumptions += [
        "segmented leg: the host never rotates (rotate_segment has no caller outside tests); the multi-segment directory a host opens is its own single "
        "segment split at commit boundaries (frames keep header segment id 1, which the filesystem read path never compares with the file name)",
        "segmented leg: the manifest's caller-chosen manifest_digest is bound to nothing (edit man_tag validates; noted in the C11 paragraph already)",
        "segmented leg: Wal!Scan predates /repo e8a1c7e; WalSeg.FsScan adds the commit-tiling rule of that commit",
    ]
