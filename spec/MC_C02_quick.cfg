SPECIFICATION Spec
CONSTANTS
  Warps = {"w0", "w1"}
  Nodes = {"n0", "n1", "n2", "n3"}
  Edges = {"e0", "e1", "e2"}
  Types = {"tA", "tB"}
  Atoms = {"p0", "p1"}
  RankW <- MC_RankW
  RankN <- MC_RankN
  RankE <- MC_RankE
  Shard <- MC_Shard
  Prog <- MC_Prog
  Fault <- MC_Fault
  Omit <- MC_Omit
  KeyRank <- MC_KeyRank
  CandU <- MC_CandU
  Wreq = 2
  MaxDistinct = 3
  Variant = 0
  PreNames = {"edges", "portal"}
  Export = FALSE
  None = None
INVARIANTS Inv_ScheduleInvisible Inv_ClaimsPartition Inv_ViolatorNeverCommits Inv_HonestNeverFlagged Inv_Export
CHECK_DEADLOCK FALSE
